(* C13 (continued): the GRAFTAP lock of tools.make_graftap_lock
     make_graftap_lock(pubkey, fl) = make_taproot_lock(pubkey, _make_graftap_committed_script(pubkey), fl)
   on its real bytes, both spending paths, composing the theorems on OP_TAPROOT (TaprootSpec, TaprootNonNative)
   and on the graftroot surrogate arm (BuilderSpecC13b).
     0. the emitted bytes (committed script, lock, witnesses) = the bytes of the Python builders;
     1. key path (graftap_key_path): the verdict is True iff the signature is accepted under the ROOT;
     3. script path, wrong commitment (graftap_script_path_wrong_commitment): verdict False, no tape object
        for the supplied script is ever created;
     2. script path (graftap_script_path_runs / _rejected): the committed script
            dup ; swap 1 2 ; push pk ; check_sig_stack ; verify ; eval
        starts (call count + 1) on  surrogate :: ssig :: rest;  iff the oracle verifies (pk, surrogate, ssig)
        the surrogate starts as a NEW tape object (call count + 2) on the stack rest, and the verdict is read
        from the stack it leaves; otherwise the verdict is False and no tape object holds the surrogate;
     4. a run with a toy oracle where the script path accepts with surrogate [x01]. *)
From Coq Require Import ZArith List Bool Lia.
From Coq.Strings Require Import Byte String.
From TS Require Import Bytes Codec State Prog Ops Interp StateLemmas InterpLemmas NopSpec StackLemmas
  BytesLemmas TapeLemmas SigSpec ConfigSpec AuthSpec TimeSpec Asm Builders BuilderSpec TapeSteps
  Closure Pointer BuilderSpecC13 BuilderSpecC14 BuilderSpecC15 TaprootSpec TaprootNonNative BuilderSpecC13b.
Import ListNotations.
Local Open Scope nat_scope.

(* ================= 0. the bytes of the builders ================= *)

(* _make_graftap_committed_script(pubkey):  dup ; swap d1 d2 ; push x<pubkey> ; check_sig_stack ; verify ; eval
   (the surrogate arm of the graftroot lock, BuilderSpecC13b.surr_arm, with PUSH1 pk where that one has
   READ_CACHE "k") *)
Definition graftap_committed_instrs (pk : bytes) : list instr :=
  [IOp0 O_DUP; ISwap x01 x02; P1 pk; IOp0 O_CHECK_SIG_STACK; IOp0 O_VERIFY; IOp0 O_EVAL].
Definition graftap_committed_script (pk : bytes) : bytes := encode (graftap_committed_instrs pk).

(* make_graftap_lock(pubkey, fl) = push x<root> ; tr x<fl>  — the root is computed by the builder *)
Definition graftap_lock (root : bytes) (fl : byte) : bytes := taproot_lock root fl.

(* make_graftap_witness_keyspend = make_taproot_witness_keyspend:  push x<sig [+ flag byte]> *)
Definition graftap_key_witness (sig : bytes) : bytes := encode [P1 sig].
(* make_graftap_witness_scriptspend:  push <ssig> ; push <surrogate> ; push <committed script> ; push <pubkey>
   (a surrogate of ONE byte is pushed by OP_PUSH0: `push x01` assembles to 02 01) *)
Definition graftap_script_witness (ssig surrogate pk : bytes) : bytes :=
  encode [P1 ssig; P1 surrogate; P1 (graftap_committed_script pk); P1 pk].
Definition graftap_script_witness1 (ssig : bytes) (b : byte) (pk : bytes) : bytes :=
  encode [P1 ssig; P0 b; P1 (graftap_committed_script pk); P1 pk].

(* VerifyKey of the seed bytes(range(32)) *)
Definition real_pk : bytes := of_hex "03a107bff3ce10be1d70dd18e74bc09967e4d6309ba50d5f1ddc8664125531b8".
(* the root make_graftap_lock computes for it *)
Definition real_root : bytes := of_hex "ac68d41eaae0328d31ae77f6bf637136486853a4f2c52717370961dde7d93e90".

(* output of
     pk = bytes(SigningKey(bytes(range(32))).verify_key)
     T._make_graftap_committed_script(pk).bytes.hex() ; T.make_graftap_lock(pk, '00').bytes.hex() *)
Example graftap_bytes_real :
  graftap_committed_script real_pk =
    of_hex "1d340102032003a107bff3ce10be1d70dd18e74bc09967e4d6309ba50d5f1ddc8664125531b84a202d" /\
  graftap_lock real_root x00 =
    of_hex "0320ac68d41eaae0328d31ae77f6bf637136486853a4f2c52717370961dde7d93e905b00".
Proof. split; vm_compute; reflexivity. Qed.

(* output of T.make_graftap_witness_scriptspend(bytes(range(32)), Script.from_src('true')).bytes.hex() *)
Example graftap_witness_bytes_real :
  graftap_script_witness1
    (of_hex "ab85b5fbb35e3ef25ce0bbc86cd1b3414294e991d436243af1dbfcc690ed55db31f1fc9d18e5e2f8163d966cc529087a5e69ef5e60e488468b6a091f16a45602")
    x01 real_pk =
  of_hex "0340ab85b5fbb35e3ef25ce0bbc86cd1b3414294e991d436243af1dbfcc690ed55db31f1fc9d18e5e2f8163d966cc529087a5e69ef5e60e488468b6a091f16a45602020103291d340102032003a107bff3ce10be1d70dd18e74bc09967e4d6309ba50d5f1ddc8664125531b84a202d032003a107bff3ce10be1d70dd18e74bc09967e4d6309ba50d5f1ddc8664125531b8".
Proof. vm_compute. reflexivity. Qed.

Lemma committed_bytes pk :
  graftap_committed_script pk = [x1d; x34; x01; x02] ++ push1_bytes pk ++ [x4a; x20; x2d].
Proof.
  unfold graftap_committed_script, graftap_committed_instrs, encode, P1, push1_bytes.
  cbn [flat_map encode1 app]. rewrite <- ?app_assoc. reflexivity.
Qed.

Lemma committed_length pk : List.length pk = 32 -> List.length (graftap_committed_script pk) = 41.
Proof. intro H. rewrite committed_bytes. unfold push1_bytes. rewrite !app_length. cbn [List.length]. rewrite H. reflexivity. Qed.

Lemma committed_nonempty pk : graftap_committed_script pk <> [].
Proof. rewrite committed_bytes. discriminate. Qed.

Lemma graftap_key_witness_bytes sig : graftap_key_witness sig = push1_bytes sig.
Proof. unfold graftap_key_witness, encode, P1, push1_bytes. cbn [flat_map encode1]. rewrite app_nil_r. reflexivity. Qed.

Lemma graftap_script_witness_bytes ssig surrogate pk :
  graftap_script_witness ssig surrogate pk = pushes_bytes [ssig; surrogate; graftap_committed_script pk; pk].
Proof.
  unfold graftap_script_witness, pushes_bytes, encode, P1, push1_bytes. cbn [flat_map encode1].
  rewrite ?app_nil_r. reflexivity.
Qed.

(* ================= 1. the native taproot lock, script path, as an exact outcome ================= *)

Section Lock.
Variable orc : oracle.
Variable cfg : config.

(* TaprootNonNative.native_script_lock gives the verdict; here the outcome itself (needed to say which tape
   objects exist afterwards): the lock tape ends at offset 36 with the outcome of OP_EVAL on the script *)
Lemma native_script_lock_exact f tid st root fl key script rest hs h point agg :
  tdata st tid = taproot_lock root fl -> tid < List.length (st_tapes st) ->
  st_stack st = key :: script :: rest ->
  List.length root = 32 -> List.length key = 32 -> List.length h = 32 ->
  orc PSha256 [script] = OOk [hs] -> orc PSha256 [key ++ hs] = OOk [h] ->
  orc PBaseMult [clamp32 h] = OOk [point] ->
  orc PValidPoint [point] = OOk [[x01]] -> orc PValidPoint [key] = OOk [[x01]] ->
  orc PPointAdd [point; key] = OOk [agg] ->
  fits cfg script ->
  List.length rest + 3 <= c_max_items cfg -> 32 <= c_max_item_size cfg ->
  run_tape orc cfg (3 + f) tid 0 st =
    if bytes_eqb agg root
    then
      match flag_get (c_flags cfg) (FKStr (str "disallow_OP_EVAL")) with
      | Some _ => Raised ScriptExecutionError {| fr_tid := tid; fr_ptr := 36 |} (with_stack st (script :: rest))
      | None =>
        if (to_count (nth_tape st tid) <? c_limit cfg)%Z
        then if (0 <? blen script)%Z
             then eval_last_outcome cfg tid 36
                    (run_tape orc cfg (S f) (List.length (st_tapes st)) 0 (native_eval_state st tid script rest))
             else Raised ValueError {| fr_tid := tid; fr_ptr := 36 |} (with_stack st rest)
        else Raised ScriptExecutionError {| fr_tid := tid; fr_ptr := 36 |} (with_stack st (script :: rest))
      end
    else Done tt {| fr_tid := tid; fr_ptr := 36 |} (with_stack st ([x00] :: rest)).
Proof.
  intros Hd Ht Hs Lr Lk Lh O1 O2 O3 O4 O5 O6 Fs Hit Hsz.
  change (3 + f) with (2 + S f).
  rewrite (native_to_taproot orc cfg (S f) tid st root fl (key :: script :: rest) Hd Lr Hs)
    by (first [lia | unfold space; simpl; lia]).
  set (st1 := with_stack st (root :: key :: script :: rest)).
  rewrite (taproot_script_path orc cfg _ _ st1 fl [] root key script rest hs h point agg
             (native_data_at tid st root fl _ Hd Lr) eq_refl Lr Lk Lh O1 O2 O3 O4 O5 O6 Fs)
    by lia.
  assert (Hlen : List.length (taproot_lock root fl) = 36) by (apply native_lock_len; exact Lr).
  destruct (bytes_eqb agg root).
  - unfold st1. rewrite with_stack_twice. unfold adv. cbn [fr_tid fr_ptr Nat.add].
    destruct (flag_get (c_flags cfg) (FKStr (str "disallow_OP_EVAL"))) as [v|] eqn:Eban.
    { change eval_body with OP_EVAL. rewrite (eval_exec_banned orc cfg _ _ _ v Eban). reflexivity. }
    destruct (to_count (nth_tape st tid) <? c_limit cfg)%Z eqn:Elim.
    2:{ change eval_body with OP_EVAL.
        rewrite (eval_exec_limit orc cfg _ tid 36 (with_stack st (script :: rest)) Eban).
        - reflexivity.
        - apply Z.ltb_ge in Elim. exact Elim. }
    destruct (0 <? blen script)%Z eqn:Ene.
    2:{ unfold eval_body, config_, get, act. cbn [bind interp step]. rewrite Eban.
        unfold sert at 1. cbn [bind interp step]. unfold cur. cbn [fr_tid].
        change (nth_tape (with_stack st (script :: rest)) tid) with (nth_tape st tid). rewrite Elim.
        unfold sert at 1. cbn [bind interp step st_stack with_stack]. rewrite Ene.
        unfold vert at 1. cbn [bind interp step]. rewrite with_stack_twice. reflexivity. }
    assert (Hne : script <> []).
    { intro E. subst script. discriminate. }
    change eval_body with OP_EVAL.
    rewrite (eval_exec orc cfg _ tid 36 (with_stack st (script :: rest)) script rest Eban eq_refl
               ltac:(apply Z.ltb_lt; exact Elim) Hne).
    rewrite with_stack_twice.
    change (List.length (st_tapes (with_stack st (script :: rest)))) with (List.length (st_tapes st)).
    change (BuilderSpecC13b.eval_start (with_stack st rest) tid script) with (native_eval_state st tid script rest).
    set (sEV := native_eval_state st tid script rest).
    pose proof (data_kept orc cfg (S f) (List.length (st_tapes st)) 0 sEV tid _ eq_refl) as Hk.
    destruct (run_tape orc cfg (S f) (List.length (st_tapes st)) 0 sEV) as [[] fr' st'|e fr' st'| |w];
      cbn [eval_finish eval_last_outcome]; try reflexivity.
    assert (Hdata : tdata st' tid = taproot_lock root fl).
    { rewrite Hk.
      - unfold sEV, native_eval_state.
        change (tdata (BuilderSpecC13b.eval_start (with_stack st rest) tid script) tid = taproot_lock root fl).
        rewrite tdata_eval_old by exact Ht. exact Hd.
      - unfold sEV, native_eval_state, TaprootNonNative.eval_start. cbn [st_tapes with_tapes with_defs with_stack].
        rewrite app_length. simpl. lia. }
    cbn [fr_ptr].
    assert (Hp' : match cache_get (st_cache st') returned_key with
                  | Some _ => if eval_ret cfg then List.length (tdata st' tid) else 36
                  | None => 36
                  end = 36).
    { rewrite Hdata, Hlen. destruct (cache_get _ _); [destruct (eval_ret cfg)|]; reflexivity. }
    rewrite Hp'.
    apply run_tape_end. rewrite tdata_eval_cache, Hdata, Hlen. lia.
  - unfold adv. cbn [fr_ptr fr_tid Nat.add]. apply run_tape_end.
    rewrite tdata_with_stack, Hd, Hlen. lia.
Qed.

End Lock.

(* ================= 2. key path; wrong commitment ================= *)

(* As in TaprootNonNative: the lock runs as the LAST script of run_auth_scripts (auth_rest), after ANY witness
   that left the machine in state st0 (previous top-level tape [prev]). *)

Section KeyAndMismatch.
Variable orc : oracle.
Variable cfg : config.

(* the tape object auth_rest creates for the lock *)
Definition lock_tape (st0 : state) (prev : nat) (root : bytes) (fl : byte) : tapeobj :=
  {| to_data := graftap_lock root fl; to_count := to_count (nth_tape st0 prev);
     to_defs := to_defs (nth_tape st0 prev) |}.

(* THEOREM 1.  The witness left exactly [sig] (64 bytes, or 65 with the flag byte): the verdict is that of
   the signature check under the ROOT with the allowed-flags byte fl; it is True exactly when sig is
   accepted (direct corollary of TaprootNonNative.native_key_path) *)
Theorem graftap_key_path f prev st0 root fl sig :
  st_stack st0 = [sig] -> List.length root = 32 -> (List.length sig = 64 \/ List.length sig = 65) ->
  65 <= c_max_item_size cfg -> 2 <= c_max_items cfg ->
  vres_of_auth (auth_rest orc cfg (3 + f) [graftap_lock root fl] prev st0) =
    key_outcome orc cfg root sig fl (st_cache st0) /\
  (vres_of_auth (auth_rest orc cfg (3 + f) [graftap_lock root fl] prev st0) = VBool true <->
   sig_accepts orc cfg root sig (b2z fl) (st_cache st0)).
Proof.
  intros Hs Lr Lsig Hsz Hit. unfold graftap_lock.
  rewrite (native_key_path orc cfg f prev st0 root fl sig Hs Lr Lsig Hsz Hit).
  split; [reflexivity|apply key_outcome_true].
Qed.

(* ... and with the witness of make_graftap_witness_keyspend (push x<sig>) in front *)
Theorem graftap_key_path_pair f root fl sig vals :
  List.length root = 32 -> (List.length sig = 64 \/ List.length sig = 65) ->
  65 <= c_max_item_size cfg -> 2 <= c_max_items cfg ->
  vres_of_auth (run_auth_scripts orc cfg (3 + f) [graftap_key_witness sig; graftap_lock root fl] vals) =
    key_outcome orc cfg root sig fl (init_cache cfg vals) /\
  (vres_of_auth (run_auth_scripts orc cfg (3 + f) [graftap_key_witness sig; graftap_lock root fl] vals) = VBool true <->
   sig_accepts orc cfg root sig (b2z fl) (init_cache cfg vals)).
Proof.
  intros Lr Lsig Hsz Hit. unfold run_auth_scripts.
  rewrite graftap_key_witness_bytes. change (push1_bytes sig) with (single_sig_witness sig).
  change (3 + f) with (S (S (S f))) at 1 3.
  rewrite (witness_runs orc cfg Hsz Hit (S f) sig vals Lsig).
  change (S (S (S f))) with (3 + f).
  exact (graftap_key_path f 0 (with_stack (init_state cfg (single_sig_witness sig) vals) [sig]) root fl sig
           eq_refl Lr Lsig Hsz Hit).
Qed.

(* THEOREM 3.  The witness left key (32 bytes) on top of a script — in particular the graftap committed
   script — but the point recomputed from (key, script) is not the root: OP_TAPROOT pushes False, the
   verdict is False, and the heap holds exactly ONE new tape object, the lock: no tape object for the
   supplied script was created, nothing of it ran; log and definitions untouched *)
Theorem graftap_script_path_wrong_commitment f prev st0 root fl key script rest hs h point agg :
  st_stack st0 = key :: script :: rest ->
  List.length root = 32 -> List.length key = 32 -> List.length h = 32 ->
  orc PSha256 [script] = OOk [hs] -> orc PSha256 [key ++ hs] = OOk [h] ->
  orc PBaseMult [clamp32 h] = OOk [point] ->
  orc PValidPoint [point] = OOk [[x01]] -> orc PValidPoint [key] = OOk [[x01]] ->
  orc PPointAdd [point; key] = OOk [agg] ->
  fits cfg script ->
  List.length rest + 3 <= c_max_items cfg -> 32 <= c_max_item_size cfg ->
  bytes_eqb agg root = false ->
  exists st',
    auth_rest orc cfg (3 + f) [graftap_lock root fl] prev st0 = AuthVerdict false st' /\
    st_tapes st' = st_tapes st0 ++ [lock_tape st0 prev root fl] /\
    st_defs st' = st_defs st0 /\ st_log st' = st_log st0 /\
    (st_stack st' = [] \/ st_stack st' = [x00] :: rest).
Proof.
  intros Hs Lr Lk Lh O1 O2 O3 O4 O5 O6 Fs Hit Hsz Hneq.
  unfold graftap_lock. rewrite auth_rest_one.
  destruct (start_facts st0 prev (taproot_lock root fl)) as (S1 & S2 & S3 & S4 & S5 & S6 & S7 & S8 & S9).
  set (st := snd (next_start st0 prev (taproot_lock root fl))) in *.
  set (tid := fst (next_start st0 prev (taproot_lock root fl))) in *.
  rewrite (native_script_lock_exact orc cfg f tid st root fl key script rest hs h point agg S1 S2
             ltac:(rewrite S3; exact Hs) Lr Lk Lh O1 O2 O3 O4 O5 O6 Fs Hit Hsz).
  rewrite Hneq. cbn [BuilderSpecC15.finish auth_rest st_stack with_stack].
  destruct rest as [|r rest'].
  - change (bytes_eqb [x00] [xff]) with false.
    eexists. split; [reflexivity|]. repeat split. left. reflexivity.
  - eexists. split; [reflexivity|]. repeat split. right. reflexivity.
Qed.

End KeyAndMismatch.

(* ================= 3. the committed script ================= *)

Section Committed.
Variable orc : oracle.
Variable cfg : config.

(* dup ; swap 1 2 ; push pk ; check_sig_stack ; verify ; eval   on the stack  surrogate :: ssig :: rest *)
Lemma committed_run f tid st pk ssig surrogate rest :
  65 <= c_max_item_size cfg -> List.length rest + 4 <= c_max_items cfg ->
  tdata st tid = graftap_committed_script pk -> tid < List.length (st_tapes st) ->
  st_stack st = surrogate :: ssig :: rest ->
  List.length pk = 32 -> List.length ssig = 64 -> surrogate <> [] -> fits cfg surrogate ->
  no_eval_ban cfg -> (to_count (nth_tape st tid) < c_limit cfg)%Z ->
  run_tape orc cfg (S (S (S (S (S (S (S f))))))) tid 0 st =
    if css_verdict orc pk surrogate ssig
    then eval_last_outcome cfg tid 41
           (run_tape orc cfg (S f) (List.length (st_tapes st)) 0
              (BuilderSpecC13b.eval_start (with_stack st rest) tid surrogate))
    else Raised ScriptExecutionError {| fr_tid := tid; fr_ptr := 40 |} (with_stack st (surrogate :: rest)).
Proof.
  intros Hsize Hitems Hd Hlt Hst Lpk Lss Hne Fs Hban Hcnt.
  rewrite committed_bytes in Hd.
  (* DUP *)
  erewrite run_tape_step; [|exact Hd|reflexivity|].
  2:{ intros _. change (dispatch _) with OP_DUP. eapply dup_exec; [exact Hst|exact Fs|simpl; lia]. }
  cbn [fr_ptr].
  (* SWAP 1 2 *)
  erewrite run_tape_step; [|exact Hd|reflexivity|].
  2:{ intro Hda. change (dispatch _) with OP_SWAP. eapply swap12_exec; [exact Hda|reflexivity]. }
  unfold fwd. cbn [fr_ptr fr_tid Nat.add].
  (* PUSH1 pk *)
  set (s3 := surrogate :: ssig :: surrogate :: rest).
  change 4 with (List.length [x1d; x34; x01; x02]).
  rewrite (push1_step orc cfg _ tid _ [x1d; x34; x01; x02] pk [x4a; x20; x2d] s3);
    [|exact Hd|lia|reflexivity|unfold fits; lia|unfold space, s3; simpl; lia].
  set (pre4 := [x1d; x34; x01; x02] ++ push1_bytes pk).
  assert (Lpre4 : List.length pre4 = 38).
  { unfold pre4, push1_bytes. rewrite app_length. cbn [List.length]. rewrite Lpk. reflexivity. }
  match goal with |- run_tape _ _ _ _ _ ?s = _ => set (st4 := s) end.
  assert (Hd4 : tdata st4 tid = pre4 ++ x4a :: [x20; x2d]).
  { unfold pre4. rewrite <- app_assoc. exact Hd. }
  (* CHECK_SIG_STACK *)
  rewrite (op0_done orc cfg _ tid st4 pre4 x4a _
             (with_stack st4 (boolb (css_verdict orc pk surrogate ssig) :: surrogate :: rest)) Hd4).
  2:{ intros run fr. change (dispatch _) with OP_CHECK_SIG_STACK.
      eapply check_sig_stack_exec; [reflexivity|exact Lpk|exact Lss|split; simpl; lia]. }
  (* VERIFY *)
  set (st5 := with_stack st4 _).
  assert (Hd5 : tdata st5 tid = (pre4 ++ [x4a]) ++ x20 :: [x2d]).
  { rewrite <- app_assoc. exact Hd4. }
  rewrite (fetch_at orc cfg _ tid st5 _ (pre4 ++ [x4a]) x20 [x2d] Hd5 eq_refl).
  change (dispatch _) with OP_VERIFY.
  erewrite verify_exec by reflexivity. rewrite bytes_to_bool_boolb.
  assert (L5 : List.length (pre4 ++ [x4a]) = 39) by (rewrite app_length, Lpre4; reflexivity).
  destruct (css_verdict orc pk surrogate ssig).
  2:{ rewrite L5. reflexivity. }
  cbn [fr_ptr].
  (* EVAL *)
  rewrite (eval_last orc cfg f tid _ _ ((pre4 ++ [x4a]) ++ [x20]) surrogate rest);
    try assumption; try reflexivity.
  - f_equal. unfold bytes in *. rewrite L5. reflexivity.
  - rewrite <- app_assoc. exact Hd5.
  - rewrite (app_length (pre4 ++ [x4a]) [x20]). cbn [List.length]. lia.
Qed.

End Committed.

(* ================= 4. the script path ================= *)

Section ScriptPath.
Variable orc : oracle.
Variable cfg : config.

(* the lock tape on the stack  pk :: committed script :: surrogate :: ssig :: rest,  the commitment matching:
   OP_TAPROOT EVALs the committed script (tape object T, call count + 1) on  surrogate :: ssig :: rest;
   the committed script EVALs the surrogate (tape object T + 1, call count + 2) on rest iff the oracle
   verifies (pk, surrogate, ssig), and raises at VERIFY otherwise *)
Lemma graftap_lock_run f tid st root fl pk surrogate ssig rest hs h point :
  tdata st tid = taproot_lock root fl -> tid < List.length (st_tapes st) ->
  st_stack st = pk :: graftap_committed_script pk :: surrogate :: ssig :: rest ->
  List.length root = 32 -> List.length pk = 32 -> List.length h = 32 -> List.length ssig = 64 ->
  surrogate <> [] -> fits cfg surrogate ->
  orc PSha256 [graftap_committed_script pk] = OOk [hs] -> orc PSha256 [pk ++ hs] = OOk [h] ->
  orc PBaseMult [clamp32 h] = OOk [point] ->
  orc PValidPoint [point] = OOk [[x01]] -> orc PValidPoint [pk] = OOk [[x01]] ->
  orc PPointAdd [point; pk] = OOk [root] ->
  List.length rest + 5 <= c_max_items cfg -> 65 <= c_max_item_size cfg ->
  no_eval_ban cfg -> (to_count (nth_tape st tid) + 1 < c_limit cfg)%Z ->
  let T := List.length (st_tapes st) in
  let sC := native_eval_state st tid (graftap_committed_script pk) (surrogate :: ssig :: rest) in
  run_tape orc cfg (9 + f) tid 0 st =
    if css_verdict orc pk surrogate ssig
    then eval_last_outcome cfg tid 36
           (eval_last_outcome cfg T 41
              (run_tape orc cfg (S f) (S T) 0 (BuilderSpecC13b.eval_start (with_stack sC rest) T surrogate)))
    else Raised ScriptExecutionError {| fr_tid := tid; fr_ptr := 36 |} (with_stack sC (surrogate :: rest)).
Proof.
  intros Hd Ht Hs Lr Lk Lh Lss Hne Fs O1 O2 O3 O4 O5 O6 Hit Hsz Hban Hlim T sC.
  change (9 + f) with (3 + (6 + f)).
  rewrite (native_script_lock_exact orc cfg (6 + f) tid st root fl pk (graftap_committed_script pk)
             (surrogate :: ssig :: rest) hs h point root Hd Ht Hs Lr Lk Lh O1 O2 O3 O4 O5 O6);
    [ | unfold fits; rewrite committed_length by exact Lk; lia | simpl; lia | lia ].
  rewrite bytes_eqb_refl.
  pose proof Hban as Hban'. unfold no_eval_ban in Hban'. rewrite Hban'.
  replace (to_count (nth_tape st tid) <? c_limit cfg)%Z with true by (symmetry; apply Z.ltb_lt; lia).
  rewrite (nonempty_blen _ (committed_nonempty pk)).
  fold sC. fold T.
  assert (HlenC : List.length (st_tapes sC) = S T).
  { unfold sC, native_eval_state, TaprootNonNative.eval_start. cbn [st_tapes with_tapes with_defs with_stack].
    rewrite app_length. unfold T. simpl. lia. }
  change (S (6 + f)) with (S (S (S (S (S (S (S f))))))).
  rewrite (committed_run orc cfg f T sC pk ssig surrogate rest); try assumption; try lia.
  - rewrite HlenC. destruct (css_verdict orc pk surrogate ssig); reflexivity.
  - exact (tdata_eval_new (with_stack st (surrogate :: ssig :: rest)) tid (graftap_committed_script pk)).
  - reflexivity.
  - unfold sC, native_eval_state.
    change (TaprootNonNative.eval_start (with_stack st (surrogate :: ssig :: rest)) tid (graftap_committed_script pk))
      with (BuilderSpecC13b.eval_start (with_stack st (surrogate :: ssig :: rest)) tid (graftap_committed_script pk)).
    unfold T. change (st_tapes st) with (st_tapes (with_stack st (surrogate :: ssig :: rest))).
    rewrite count_eval_new.
    change (nth_tape (with_stack st (surrogate :: ssig :: rest)) tid) with (nth_tape st tid). exact Hlim.
Qed.

(* what run_auth_scripts makes of the outcome [o] of the surrogate: the two OP_EVALs on the way back only
   touch the control flag *)
Lemma finish_eval2 F prev tid p tid' p' o :
  BuilderSpecC15.finish orc cfg F prev (eval_last_outcome cfg tid p (eval_last_outcome cfg tid' p' o)) =
    verdict_after (fun s => eval_cache cfg (eval_cache cfg s)) o.
Proof.
  destruct o as [[] fr' st'|e fr' st'| |w']; try reflexivity.
  cbn [eval_last_outcome BuilderSpecC15.finish verdict_after auth_rest].
  rewrite !stack_eval_cache. reflexivity.
Qed.

Lemma vres_verdict_after post o :
  (forall s, st_stack (post s) = st_stack s) ->
  vres_of_auth (verdict_after post o) = vres_of_run o.
Proof.
  intro Hp. destruct o as [[] fr' st'|e fr' st'| |w']; try reflexivity.
  cbn [verdict_after vres_of_run]. unfold accepting.
  destruct (st_stack st') as [|i [|j l]]; reflexivity.
Qed.

(* ---- the heap when the surrogate starts ---- *)

(* the tape object OP_TAPROOT creates for the committed script: call count + 1, a new copy of the
   definitions of the witness *)
Definition committed_tape (st0 : state) (prev : nat) (pk : bytes) : tapeobj :=
  {| to_data := graftap_committed_script pk; to_count := (to_count (nth_tape st0 prev) + 1)%Z;
     to_defs := List.length (st_defs st0) |}.

(* the tape object the committed script creates for the surrogate: call count + 2, one more copy *)
Definition surrogate_tape (st0 : state) (prev : nat) (surrogate : bytes) : tapeobj :=
  {| to_data := surrogate; to_count := (to_count (nth_tape st0 prev) + 1 + 1)%Z;
     to_defs := S (List.length (st_defs st0)) |}.

(* the state in which the committed script starts / has been stopped at VERIFY *)
Definition graftap_committed_state (st0 : state) (prev : nat) (root : bytes) (fl : byte)
    (pk : bytes) (stk : list bytes) : state :=
  with_stack
    (native_eval_state (snd (next_start st0 prev (graftap_lock root fl))) (List.length (st_tapes st0))
       (graftap_committed_script pk) stk) stk.

(* the state in which the surrogate starts *)
Definition graftap_eval_state (st0 : state) (prev : nat) (root : bytes) (fl : byte)
    (pk surrogate : bytes) (rest : list bytes) : state :=
  BuilderSpecC13b.eval_start (graftap_committed_state st0 prev root fl pk rest)
    (S (List.length (st_tapes st0))) surrogate.

Lemma nth_app_new {A} (l : list A) (x d : A) : nth (List.length l) (l ++ [x]) d = x.
Proof. rewrite app_nth2 by lia. rewrite Nat.sub_diag. reflexivity. Qed.

Lemma committed_state_facts st0 prev root fl pk stk :
  let sC := graftap_committed_state st0 prev root fl pk stk in
  st_tapes sC = st_tapes st0 ++ [lock_tape st0 prev root fl; committed_tape st0 prev pk] /\
  st_defs sC = st_defs st0 ++ [nth_defs st0 (to_defs (nth_tape st0 prev))] /\
  st_stack sC = stk /\
  st_cache sC = cache_del (st_cache st0) returned_key /\
  st_log sC = st_log st0.
Proof.
  cbv zeta. unfold graftap_committed_state, native_eval_state, TaprootNonNative.eval_start, next_start.
  cbn [snd st_tapes st_defs st_stack st_cache st_log with_tapes with_defs with_stack with_cache].
  unfold nth_tape at 1 3. cbn [st_tapes with_tapes with_defs with_stack with_cache].
  rewrite !nth_app_new. cbn [to_count to_defs].
  split; [rewrite <- app_assoc; reflexivity|]. repeat split.
  f_equal. f_equal. unfold nth_tape. cbn [st_tapes with_tapes with_defs with_stack with_cache].
  rewrite nth_app_new. reflexivity.
Qed.

Lemma eval_state_facts st0 prev root fl pk surrogate rest :
  let sS := graftap_eval_state st0 prev root fl pk surrogate rest in
  let D := nth_defs st0 (to_defs (nth_tape st0 prev)) in
  st_tapes sS = st_tapes st0 ++ [lock_tape st0 prev root fl; committed_tape st0 prev pk;
                                 surrogate_tape st0 prev surrogate] /\
  st_defs sS = st_defs st0 ++ [D; D] /\
  st_stack sS = rest /\
  st_cache sS = cache_del (st_cache st0) returned_key /\
  st_log sS = st_log st0.
Proof.
  cbv zeta. unfold graftap_eval_state.
  destruct (committed_state_facts st0 prev root fl pk rest) as (C1 & C2 & C3 & C4 & C5).
  set (sC := graftap_committed_state st0 prev root fl pk rest) in *.
  unfold BuilderSpecC13b.eval_start.
  cbn [st_tapes st_defs st_stack st_cache st_log with_tapes with_defs].
  assert (Hn : nth_tape sC (S (List.length (st_tapes st0))) = committed_tape st0 prev pk).
  { unfold nth_tape. rewrite C1.
    change (st_tapes st0 ++ [lock_tape st0 prev root fl; committed_tape st0 prev pk])
      with (st_tapes st0 ++ [lock_tape st0 prev root fl] ++ [committed_tape st0 prev pk]).
    rewrite app_assoc.
    replace (S (List.length (st_tapes st0))) with (List.length (st_tapes st0 ++ [lock_tape st0 prev root fl]))
      by (rewrite app_length; simpl; lia).
    apply nth_app_new. }
  rewrite Hn. cbn [committed_tape to_count to_defs].
  assert (Hd : nth_defs sC (List.length (st_defs st0)) = nth_defs st0 (to_defs (nth_tape st0 prev))).
  { unfold nth_defs at 1. rewrite C2. apply nth_app_new. }
  rewrite Hd, C1, C2, C3, C4, C5. rewrite <- !app_assoc.
  rewrite (app_length (st_defs st0)), Nat.add_comm. cbn [List.length Nat.add].
  split; [reflexivity|]. split; [reflexivity|]. split; [reflexivity|]. split; reflexivity.
Qed.

End ScriptPath.

(* ================= 5. the script-path theorems ================= *)

Section ScriptTheorems.
Variable orc : oracle.
Variable cfg : config.

(* The witness left  pk :: committed script :: surrogate :: ssig :: rest  (make_graftap_witness_scriptspend:
   rest = []), and the point recomputed from (pk, committed script) IS the root (the answer of PPointAdd). *)

(* THEOREM 2, both cases in one equation *)
Theorem graftap_script_path f prev st0 root fl pk surrogate ssig rest hs h point :
  st_stack st0 = pk :: graftap_committed_script pk :: surrogate :: ssig :: rest ->
  List.length root = 32 -> List.length pk = 32 -> List.length h = 32 -> List.length ssig = 64 ->
  surrogate <> [] -> fits cfg surrogate ->
  orc PSha256 [graftap_committed_script pk] = OOk [hs] -> orc PSha256 [pk ++ hs] = OOk [h] ->
  orc PBaseMult [clamp32 h] = OOk [point] ->
  orc PValidPoint [point] = OOk [[x01]] -> orc PValidPoint [pk] = OOk [[x01]] ->
  orc PPointAdd [point; pk] = OOk [root] ->
  List.length rest + 5 <= c_max_items cfg -> 65 <= c_max_item_size cfg ->
  no_eval_ban cfg -> (to_count (nth_tape st0 prev) + 1 < c_limit cfg)%Z ->
  auth_rest orc cfg (9 + f) [graftap_lock root fl] prev st0 =
    if css_verdict orc pk surrogate ssig
    then verdict_after (fun s => eval_cache cfg (eval_cache cfg s))
           (run_tape orc cfg (S f) (List.length (st_tapes st0) + 2) 0
              (graftap_eval_state st0 prev root fl pk surrogate rest))
    else AuthVerdict false (graftap_committed_state st0 prev root fl pk (surrogate :: rest)).
Proof.
  intros Hs Lr Lk Lh Lss Hne Fs O1 O2 O3 O4 O5 O6 Hit Hsz Hban Hlim.
  unfold graftap_lock at 1. rewrite auth_rest_one.
  destruct (start_facts st0 prev (taproot_lock root fl)) as (S1 & S2 & S3 & S4 & S5 & S6 & S7 & S8 & S9).
  set (st := snd (next_start st0 prev (taproot_lock root fl))) in *.
  set (tid := fst (next_start st0 prev (taproot_lock root fl))) in *.
  rewrite (graftap_lock_run orc cfg f tid st root fl pk surrogate ssig rest hs h point S1 S2
             ltac:(rewrite S3; exact Hs) Lr Lk Lh Lss Hne Fs O1 O2 O3 O4 O5 O6 Hit Hsz Hban
             ltac:(rewrite S4; exact Hlim)).
  cbv zeta.
  destruct (css_verdict orc pk surrogate ssig); [|reflexivity].
  rewrite finish_eval2.
  assert (HT : List.length (st_tapes st) = S (List.length (st_tapes st0))).
  { unfold st, next_start. cbn [snd st_tapes with_cache with_tapes]. rewrite app_length. simpl. lia. }
  rewrite HT.
  replace (List.length (st_tapes st0) + 2) with (S (S (List.length (st_tapes st0)))) by lia.
  reflexivity.
Qed.

(* THEOREM 2 (a).  The oracle verifies (pk, surrogate, ssig): the result is exactly the continuation of
   OP_EVAL on the surrogate — it runs from offset 0 of a NEW tape object (the third one the lock run
   creates: eval_state_facts) on the stack `rest`, call count + 2; the verdict is read from the stack it
   leaves (on the way back the two OP_EVALs only touch the control flag) *)
Theorem graftap_script_path_runs f prev st0 root fl pk surrogate ssig rest hs h point :
  st_stack st0 = pk :: graftap_committed_script pk :: surrogate :: ssig :: rest ->
  List.length root = 32 -> List.length pk = 32 -> List.length h = 32 -> List.length ssig = 64 ->
  surrogate <> [] -> fits cfg surrogate ->
  orc PSha256 [graftap_committed_script pk] = OOk [hs] -> orc PSha256 [pk ++ hs] = OOk [h] ->
  orc PBaseMult [clamp32 h] = OOk [point] ->
  orc PValidPoint [point] = OOk [[x01]] -> orc PValidPoint [pk] = OOk [[x01]] ->
  orc PPointAdd [point; pk] = OOk [root] ->
  List.length rest + 5 <= c_max_items cfg -> 65 <= c_max_item_size cfg ->
  no_eval_ban cfg -> (to_count (nth_tape st0 prev) + 1 < c_limit cfg)%Z ->
  surrogate_verifies orc pk surrogate ssig ->
  auth_rest orc cfg (9 + f) [graftap_lock root fl] prev st0 =
    verdict_after (fun s => eval_cache cfg (eval_cache cfg s))
      (run_tape orc cfg (S f) (List.length (st_tapes st0) + 2) 0
         (graftap_eval_state st0 prev root fl pk surrogate rest)) /\
  vres_of_auth (auth_rest orc cfg (9 + f) [graftap_lock root fl] prev st0) =
    vres_of_run (run_tape orc cfg (S f) (List.length (st_tapes st0) + 2) 0
                   (graftap_eval_state st0 prev root fl pk surrogate rest)).
Proof.
  intros Hs Lr Lk Lh Lss Hne Fs O1 O2 O3 O4 O5 O6 Hit Hsz Hban Hlim Hver.
  apply css_verdict_true in Hver.
  rewrite (graftap_script_path f prev st0 root fl pk surrogate ssig rest hs h point) by assumption.
  rewrite Hver. split; [reflexivity|].
  apply vres_verdict_after. intro s. rewrite !stack_eval_cache. reflexivity.
Qed.

(* THEOREM 2 (b).  The oracle does not verify: verdict False; the committed script was stopped at its VERIFY;
   the heap holds exactly TWO new tape objects, the lock and the committed script — no tape object for the
   surrogate was created; log untouched *)
Theorem graftap_script_path_rejected f prev st0 root fl pk surrogate ssig rest hs h point :
  st_stack st0 = pk :: graftap_committed_script pk :: surrogate :: ssig :: rest ->
  List.length root = 32 -> List.length pk = 32 -> List.length h = 32 -> List.length ssig = 64 ->
  surrogate <> [] -> fits cfg surrogate ->
  orc PSha256 [graftap_committed_script pk] = OOk [hs] -> orc PSha256 [pk ++ hs] = OOk [h] ->
  orc PBaseMult [clamp32 h] = OOk [point] ->
  orc PValidPoint [point] = OOk [[x01]] -> orc PValidPoint [pk] = OOk [[x01]] ->
  orc PPointAdd [point; pk] = OOk [root] ->
  List.length rest + 5 <= c_max_items cfg -> 65 <= c_max_item_size cfg ->
  no_eval_ban cfg -> (to_count (nth_tape st0 prev) + 1 < c_limit cfg)%Z ->
  ~ surrogate_verifies orc pk surrogate ssig ->
  exists st',
    auth_rest orc cfg (9 + f) [graftap_lock root fl] prev st0 = AuthVerdict false st' /\
    st_tapes st' = st_tapes st0 ++ [lock_tape st0 prev root fl; committed_tape st0 prev pk] /\
    st_stack st' = surrogate :: rest /\
    st_log st' = st_log st0.
Proof.
  intros Hs Lr Lk Lh Lss Hne Fs O1 O2 O3 O4 O5 O6 Hit Hsz Hban Hlim Hver.
  assert (Hv : css_verdict orc pk surrogate ssig = false).
  { destruct (css_verdict orc pk surrogate ssig) eqn:E; [|reflexivity].
    apply css_verdict_true in E. contradiction. }
  rewrite (graftap_script_path f prev st0 root fl pk surrogate ssig rest hs h point) by assumption.
  rewrite Hv.
  destruct (committed_state_facts st0 prev root fl pk (surrogate :: rest)) as (C1 & C2 & C3 & C4 & C5).
  eexists. split; [reflexivity|]. split; [exact C1|]. split; [exact C3|exact C5].
Qed.

End ScriptTheorems.

(* ================= 6. with the witness of make_graftap_witness_scriptspend in front ================= *)

Section Pair.
Variable orc : oracle.
Variable cfg : config.

(* push ssig ; push surrogate ; push committed script ; push pk *)
Lemma script_witness_runs f (ssig surrogate pk : bytes) vals :
  65 <= c_max_item_size cfg -> 4 <= c_max_items cfg ->
  List.length ssig = 64 -> List.length pk = 32 -> List.length surrogate < 256 -> fits cfg surrogate ->
  run_script orc cfg (4 + S f) (graftap_script_witness ssig surrogate pk) vals =
    Done tt {| fr_tid := 0; fr_ptr := List.length (graftap_script_witness ssig surrogate pk) |}
      (with_stack (init_state cfg (graftap_script_witness ssig surrogate pk) vals)
                  [pk; graftap_committed_script pk; surrogate; ssig]).
Proof.
  intros Hsz Hit Lss Lpk Ls Fs. unfold run_script.
  set (w := graftap_script_witness ssig surrogate pk).
  set (st0 := init_state cfg w vals).
  set (vs := ([ssig; surrogate; graftap_committed_script pk; pk] : list bytes)).
  assert (Hw : w = pushes_bytes vs) by apply graftap_script_witness_bytes.
  assert (Hd : tdata st0 0 = [] ++ pushes_bytes vs ++ []).
  { rewrite app_nil_r. exact Hw. }
  assert (Hv : forall v, In v vs -> List.length v < 256 /\ fits cfg v).
  { unfold fits in *. intros v [<-|[<-|[<-|[<-|[]]]]]; rewrite ?committed_length by exact Lpk; lia. }
  start_tape.
  change (4 + S f) with (List.length vs + S f).
  rewrite (pushes_step orc cfg vs (S f) 0 st0 [] [] [] Hd Hv eq_refl) by (simpl; lia).
  rewrite app_nil_r. cbn [app rev vs].
  rewrite run_tape_end.
  - rewrite Hw. reflexivity.
  - rewrite tdata_with_stack. change (tdata st0 0) with w. rewrite Hw. lia.
Qed.

(* THEOREM 2 for the pair (witness, lock): the surrogate runs as tape object 3 with call count 2 on the EMPTY
   stack (pair_eval_state_facts), or the run stops with the tape objects 0..2 only *)
Theorem graftap_script_path_pair f ssig surrogate pk root fl vals hs h point :
  List.length root = 32 -> List.length pk = 32 -> List.length h = 32 -> List.length ssig = 64 ->
  0 < List.length surrogate < 256 -> fits cfg surrogate ->
  orc PSha256 [graftap_committed_script pk] = OOk [hs] -> orc PSha256 [pk ++ hs] = OOk [h] ->
  orc PBaseMult [clamp32 h] = OOk [point] ->
  orc PValidPoint [point] = OOk [[x01]] -> orc PValidPoint [pk] = OOk [[x01]] ->
  orc PPointAdd [point; pk] = OOk [root] ->
  5 <= c_max_items cfg -> 65 <= c_max_item_size cfg ->
  no_eval_ban cfg -> (1 < c_limit cfg)%Z ->
  let w := graftap_script_witness ssig surrogate pk in
  let st1 := with_stack (init_state cfg w vals) [pk; graftap_committed_script pk; surrogate; ssig] in
  run_auth_scripts orc cfg (9 + f) [w; graftap_lock root fl] vals =
    if css_verdict orc pk surrogate ssig
    then verdict_after (fun s => eval_cache cfg (eval_cache cfg s))
           (run_tape orc cfg (S f) 3 0 (graftap_eval_state st1 0 root fl pk surrogate []))
    else AuthVerdict false (graftap_committed_state st1 0 root fl pk [surrogate]).
Proof.
  intros Lr Lk Lh Lss Ls Fs O1 O2 O3 O4 O5 O6 Hit Hsz Hban Hlim w st1.
  assert (Hne : surrogate <> []) by (intro E; subst surrogate; simpl in Ls; lia).
  pose proof (script_witness_runs (4 + f) ssig surrogate pk vals Hsz ltac:(lia) Lss Lk ltac:(lia) Fs) as Hw.
  change (4 + S (4 + f)) with (9 + f) in Hw.
  unfold run_auth_scripts. fold w in Hw. rewrite Hw. fold st1.
  exact (graftap_script_path orc cfg f 0 st1 root fl pk surrogate ssig [] hs h point eq_refl Lr Lk Lh Lss Hne Fs
           O1 O2 O3 O4 O5 O6 Hit Hsz Hban Hlim).
Qed.

Lemma pair_eval_state_facts ssig surrogate pk root fl vals :
  let w := graftap_script_witness ssig surrogate pk in
  let st1 := with_stack (init_state cfg w vals) [pk; graftap_committed_script pk; surrogate; ssig] in
  let sS := graftap_eval_state st1 0 root fl pk surrogate [] in
  st_tapes sS = [ {| to_data := w; to_count := 0; to_defs := 0 |};
                  {| to_data := graftap_lock root fl; to_count := 0; to_defs := 0 |};
                  {| to_data := graftap_committed_script pk; to_count := 1; to_defs := 1 |};
                  {| to_data := surrogate; to_count := 2; to_defs := 2 |} ] /\
  st_defs sS = [[]; []; []] /\
  st_stack sS = [] /\
  st_cache sS = cache_del (init_cache cfg vals) returned_key /\
  st_log sS = [].
Proof.
  intros w st1 sS. exact (eval_state_facts st1 0 root fl pk surrogate []).
Qed.

End Pair.

(* ================= 7. the premises are satisfiable: a run that accepts ================= *)

(* the toy oracle of TaprootNonNative (every commitment recomputes to toy_root), which also verifies every
   signature; the configuration of TaprootNonNative with callstack limit 64 *)
Definition toy2 : oracle := fun p a =>
  match p with
  | PVerify => OOk [[x01]]
  | _ => toy_orc p a
  end.
Definition toy2_cfg : config := TaprootNonNative.toy_cfg 64.
Definition toy_ssig : bytes := repeat x05 64.

(* THEOREM 4.  pk = toy_key, surrogate = [x01] (OP_TRUE), the witness exactly as the builder assembles it
   (the one-byte surrogate is pushed by OP_PUSH0): the verdict is True, and it is the verdict Theorem 2 (a)
   computes from the run of the surrogate as tape object 3 *)
Example graftap_example :
  let w := graftap_script_witness1 toy_ssig x01 toy_key in
  let st1 := with_stack (init_state toy2_cfg w []) [toy_key; graftap_committed_script toy_key; [x01]; toy_ssig] in
  run_auth_scripts toy2 toy2_cfg 10 [w; graftap_lock toy_root x00] [] =
    verdict_after (fun s => eval_cache toy2_cfg (eval_cache toy2_cfg s))
      (run_tape toy2 toy2_cfg 2 3 0 (graftap_eval_state st1 0 toy_root x00 toy_key [x01] [])) /\
  vres_of_auth (run_auth_scripts toy2 toy2_cfg 10 [w; graftap_lock toy_root x00] []) = VBool true /\
  (* the key path of the same lock *)
  vres_of_auth (run_auth_scripts toy2 toy2_cfg 10 [graftap_key_witness toy_ssig; graftap_lock toy_root x00] [])
    = VBool true.
Proof.
  intros w st1. split; [|split; vm_compute; reflexivity].
  assert (Hw : run_script toy2 toy2_cfg 10 w [] = Done tt {| fr_tid := 0; fr_ptr := List.length w |} st1)
    by (vm_compute; reflexivity).
  unfold run_auth_scripts. rewrite Hw.
  apply (graftap_script_path_runs toy2 toy2_cfg 1 0 st1 toy_root x00 toy_key [x01] toy_ssig []
           (repeat x11 32) (repeat x11 32) (repeat x22 32));
    try reflexivity; try discriminate; try (vm_compute; lia).
  exists [x01]. split; reflexivity.
Qed.

(* the same lock, the oracle refusing every signature: both paths reject *)
Definition toy3 : oracle := fun p a =>
  match p with
  | PVerify => OOk [[x00]]
  | _ => toy_orc p a
  end.
Example graftap_example_rejected :
  vres_of_auth (run_auth_scripts toy3 toy2_cfg 10
                  [graftap_script_witness1 toy_ssig x01 toy_key; graftap_lock toy_root x00] []) = VBool false /\
  vres_of_auth (run_auth_scripts toy3 toy2_cfg 10
                  [graftap_key_witness toy_ssig; graftap_lock toy_root x00] []) = VBool false.
Proof. split; vm_compute; reflexivity. Qed.

Print Assumptions graftap_bytes_real.
Print Assumptions graftap_witness_bytes_real.
Print Assumptions native_script_lock_exact.
Print Assumptions graftap_key_path.
Print Assumptions graftap_key_path_pair.
Print Assumptions graftap_script_path_wrong_commitment.
Print Assumptions committed_run.
Print Assumptions graftap_lock_run.
Print Assumptions eval_state_facts.
Print Assumptions graftap_script_path.
Print Assumptions graftap_script_path_runs.
Print Assumptions graftap_script_path_rejected.
Print Assumptions graftap_script_path_pair.
Print Assumptions pair_eval_state_facts.
Print Assumptions graftap_example.
Print Assumptions graftap_example_rejected.
