(* C09: WHEN the signature-extension plugins run.

   A plugin run is the log event [EvSigExt id].  This file completes ConfigSpec.v (which covers
   OP_GET_MESSAGE and OP_CHECK_SIG only):

   A. "once, and first": every signature-related instruction = the plugins once (sigext_log) ; the
      rest of its body, as an equation between interpretations (multisig, sign, check_template in its
      two cases, the _VERIFY forms, the key path of OP_TAPROOT);
   B. "never twice": the rest of the body of each of these instructions adds no EvSigExt event, in
      every outcome; hence each instruction, run once, adds exactly the configured plugins, once each;
   C. "never otherwise": a syntactic judgement [no_sigext] over programs (no [ALog (EvSigExt _)]
      action), sound for [interp] relative to the runner of sub-tapes, holds of the program of every
      other opcode (and of NOP). *)
From Coq Require Import ZArith List Bool Lia.
From Coq.Strings Require Import Byte String.
From TS Require Import Bytes Codec State Prog Ops Interp StateLemmas InterpLemmas NopSpec StackLemmas
  SigSpec ConfigSpec TaprootSpec.
Import ListNotations.
Local Open Scope nat_scope.
Open Scope prog_scope.

(* ------------------------------------------------------------------------------------------ *)
(* 0. Counting plugin events                                                                  *)
(* ------------------------------------------------------------------------------------------ *)

Definition is_sigext (e : event) : bool := match e with EvSigExt _ => true | _ => false end.

(* number of EvSigExt events of a log *)
Fixpoint sigext_count (l : list event) : nat :=
  match l with
  | [] => 0
  | e :: t => (if is_sigext e then 1 else 0) + sigext_count t
  end.

(* the plugin ids of the EvSigExt events of a log, in log order (newest first) *)
Fixpoint sigext_ids (l : list event) : list nat :=
  match l with
  | [] => []
  | EvSigExt i :: t => i :: sigext_ids t
  | _ :: t => sigext_ids t
  end.

Lemma sigext_count_ids l : sigext_count l = List.length (sigext_ids l).
Proof. induction l as [|[] t IH]; cbn [sigext_count sigext_ids is_sigext List.length]; lia. Qed.

Lemma sigext_ids_app l1 l2 : sigext_ids (l1 ++ l2) = sigext_ids l1 ++ sigext_ids l2.
Proof. induction l1 as [|[] t IH]; cbn [sigext_ids app]; congruence. Qed.

Lemma sigext_count_app l1 l2 : sigext_count (l1 ++ l2) = sigext_count l1 + sigext_count l2.
Proof. rewrite !sigext_count_ids, sigext_ids_app, app_length. reflexivity. Qed.

Lemma sigext_ids_map l : sigext_ids (map EvSigExt l) = l.
Proof. induction l as [|i t IH]; cbn [map sigext_ids]; congruence. Qed.

Lemma sigext_count_other e l : is_sigext e = false -> sigext_count (e :: l) = sigext_count l.
Proof. intro H. cbn [sigext_count]. rewrite H. reflexivity. Qed.

Lemma sigext_ids_other e l : is_sigext e = false -> sigext_ids (e :: l) = sigext_ids l.
Proof. destruct e; cbn [is_sigext sigext_ids]; intro H; [discriminate|reflexivity..]. Qed.

(* one run of the configured plugins: every id once, in configuration order (the log is newest first) *)
Lemma sigext_ids_sigext_log cfg st :
  sigext_ids (st_log (sigext_log cfg st)) = rev (c_sigext cfg) ++ sigext_ids (st_log st).
Proof.
  unfold sigext_log. cbn [st_log with_log]. rewrite sigext_ids_app, <- map_rev, sigext_ids_map. reflexivity.
Qed.

Lemma sigext_count_sigext_log cfg st :
  sigext_count (st_log (sigext_log cfg st)) = sigext_count (st_log st) + List.length (c_sigext cfg).
Proof. rewrite !sigext_count_ids, sigext_ids_sigext_log, app_length, rev_length. lia. Qed.

(* ------------------------------------------------------------------------------------------ *)
(* 1. The judgement: programs without a plugin event                                          *)
(* ------------------------------------------------------------------------------------------ *)

(* [act_quiet loc a]: action [a] is not the logging of a plugin event; with [loc = true] it
   moreover does not run a sub-tape (its effect does not depend on the runner) *)
Definition act_quiet (loc : bool) {X} (a : action X) : bool :=
  match a with
  | ALog e => negb (is_sigext e)
  | ACallDef _ | ARunSub _ _ | ATrySub _ | ARunLoop _ => negb loc
  | _ => true
  end.

Fixpoint nse (loc : bool) {A} (p : prog A) : Prop :=
  match p with
  | Act a k => act_quiet loc a = true /\ forall x, nse loc (k x)
  | _ => True
  end.

(* no [ALog (EvSigExt _)] action; sub-tapes only through ACallDef / ARunSub / ATrySub / ARunLoop,
   whose effect is the runner's *)
Definition no_sigext {A} (p : prog A) : Prop := nse false p.
(* ... and no sub-tape action at all *)
Definition no_sigext_local {A} (p : prog A) : Prop := nse true p.

Lemma act_quiet_weaken loc X (a : action X) : act_quiet true a = true -> act_quiet loc a = true.
Proof. destruct a; cbn [act_quiet negb]; intro H; first [exact H | discriminate H]. Qed.

Lemma nse_weaken loc A (p : prog A) : nse true p -> nse loc p.
Proof.
  induction p as [a|e|w|X a k IH]; cbn [nse]; auto.
  intros [Ha Hk]. split; [apply act_quiet_weaken; exact Ha|]. intro x. apply IH, Hk.
Qed.

Lemma no_sigext_local_no_sigext A (p : prog A) : no_sigext_local p -> no_sigext p.
Proof. apply nse_weaken. Qed.

Lemma nse_bind loc A B (p : prog A) (f : A -> prog B) :
  nse loc p -> (forall a, nse loc (f a)) -> nse loc (bind p f).
Proof.
  intros Hp Hf. induction p as [a|e|w|X a k IH]; cbn [bind nse] in *; auto.
  destruct Hp as [Ha Hk]. split; [exact Ha|]. intro x. apply IH. apply Hk.
Qed.

Lemma nse_Act loc A X (a : action X) (k : X -> prog A) :
  act_quiet loc a = true -> (forall x, nse loc (k x)) -> nse loc (Act a k).
Proof. intros; split; assumption. Qed.

Lemma nse_act_intro loc X (a : action X) : act_quiet loc a = true -> nse loc (act a).
Proof. intro H. split; [exact H|]. intro x. exact I. Qed.

(* ------------------------------------------------------------------------------------------ *)
(* 2. Soundness, for any measure of the log that ignores the other events                     *)
(* ------------------------------------------------------------------------------------------ *)

Section Measure.
Variable T : Type.
Variable mu : list event -> T.
Hypothesis mu_other : forall e l, is_sigext e = false -> mu (e :: l) = mu l.

(* the outcome (normal end or raise) has the same measure of plugin events as state [st] *)
Definition keeps {A} (st : state) (o : outcome A) : Prop :=
  match o with
  | Done _ _ st' | Raised _ _ st' => mu (st_log st') = mu (st_log st)
  | _ => True
  end.

(* what is assumed of the function that runs sub-tapes *)
Definition run_keeps (run : nat -> state -> outcome unit) : Prop := forall tid s, keeps s (run tid s).

Lemma keeps_same_log A (s1 s2 : state) (o : outcome A) : st_log s1 = st_log s2 -> keeps s1 o -> keeps s2 o.
Proof. intros E H. destruct o; cbn [keeps] in *; try exact I; rewrite <- E; exact H. Qed.

Section Sound.
Variable orc : oracle.
Variable cfg : config.
Variable run : nat -> state -> outcome unit.

Ltac sub_run Hrun :=
  match goal with |- context [run ?t ?s] =>
    let Hr := fresh "Hr" in pose proof (Hrun t s) as Hr; destruct (run t s); cbn [keeps] in Hr
  end.

Lemma step_keeps loc X (a : action X) fr st :
  act_quiet loc a = true -> (loc = false -> run_keeps run) ->
  match step orc cfg run a fr st with
  | SOk _ _ st' | SRaise _ _ st' => mu (st_log st') = mu (st_log st)
  | _ => True
  end.
Proof.
  intros Ha Hrun.
  destruct a; cbn [act_quiet] in Ha;
    try (destruct loc; [discriminate Ha|]; specialize (Hrun eq_refl)); simpl.
  - destruct (st_stack st); reflexivity.
  - destruct (_ <? _); [reflexivity|]. destruct (_ <=? _); reflexivity.
  - destruct (st_stack st); reflexivity.
  - reflexivity.
  - destruct (_ && _); [reflexivity|exact I].
  - destruct (_ <? _); reflexivity.
  - reflexivity.
  - reflexivity.
  - reflexivity.
  - reflexivity.
  - reflexivity.
  - reflexivity.
  - reflexivity.
  - reflexivity.
  - reflexivity.
  - reflexivity.
  - reflexivity.
  - reflexivity.
  - reflexivity.
  - (* ACallDef *) unfold after_run. sub_run Hrun; try exact I; exact Hr.
  - (* ARunSub *) unfold after_run. sub_run Hrun; try exact I; exact Hr.
  - (* ATrySub *) sub_run Hrun; try exact I; exact Hr.
  - (* ALoopNew *) reflexivity.
  - (* ARunLoop *) unfold after_run. sub_run Hrun; try exact I; exact Hr.
  - (* ALog *) apply mu_other. destruct (is_sigext e); [discriminate Ha|reflexivity].
Qed.

Theorem nse_sound loc A (p : prog A) :
  nse loc p -> (loc = false -> run_keeps run) ->
  forall fr st, keeps st (interp orc cfg run p fr st).
Proof.
  intros Hp Hrun. induction p as [a|e|w|X a k IH]; intros fr st; cbn [interp keeps nse] in *.
  - reflexivity.
  - reflexivity.
  - exact I.
  - destruct Hp as [Ha Hk].
    pose proof (step_keeps loc X a fr st Ha Hrun) as Hs.
    destruct (step orc cfg run a fr st) as [x fr' st'|e fr' st'| |w]; cbn [keeps]; try exact I; [|exact Hs].
    specialize (IH x (Hk x) fr' st').
    destruct (interp orc cfg run (k x) fr' st'); cbn [keeps] in *; try exact I; congruence.
Qed.

(* the two readings *)
Corollary no_sigext_sound A (p : prog A) :
  no_sigext p -> run_keeps run -> forall fr st, keeps st (interp orc cfg run p fr st).
Proof. intros Hp Hrun. apply (nse_sound false); [exact Hp|intros _; exact Hrun]. Qed.

Corollary no_sigext_local_sound A (p : prog A) :
  no_sigext_local p -> forall fr st, keeps st (interp orc cfg run p fr st).
Proof. intros Hp. apply (nse_sound true); [exact Hp|discriminate]. Qed.

End Sound.
End Measure.

(* ------------------------------------------------------------------------------------------ *)
(* 3. The judgement holds of the building blocks                                              *)
(* ------------------------------------------------------------------------------------------ *)

Create HintDb nse_db.

Ltac head t := lazymatch t with ?f _ => head f | _ => t end.

Ltac nse1 :=
  cbv beta zeta;
  lazymatch goal with
  | |- nse _ (bind _ _) => apply nse_bind; [|intro]
  | |- nse _ (Ret _) => exact I
  | |- nse _ (Raise _) => exact I
  | |- nse _ (Unmod _) => exact I
  | |- nse _ (Act _ _) => apply nse_Act; [reflexivity|intro]
  | |- nse _ (act _) => apply nse_act_intro; reflexivity
  | |- nse _ (if ?b then _ else _) => destruct b
  | |- nse _ (match ?x with _ => _ end) => destruct x
  | |- nse _ ?p => first [ solve [auto with nse_db nocore] | let h := head p in unfold h ]
  end.
Ltac nsep := unfold no_sigext, no_sigext_local; repeat nse1.

(* helpers of Prog.v *)
Lemma nse_sert loc c : nse loc (sert c).            Proof. nsep. Qed.
Lemma nse_vert loc c : nse loc (vert c).            Proof. nsep. Qed.
Lemma nse_tert loc c : nse loc (tert c).            Proof. nsep. Qed.
Lemma nse_get loc : nse loc get.                    Proof. nsep. Qed.
Lemma nse_put loc b : nse loc (put b).              Proof. nsep. Qed.
Lemma nse_read loc n : nse loc (read n).            Proof. nsep. Qed.
Lemma nse_read_u8 loc : nse loc read_u8.            Proof. nsep. Qed.
Lemma nse_read_u16 loc : nse loc read_u16.          Proof. nsep. Qed.
Lemma nse_config loc : nse loc config_.             Proof. nsep. Qed.
Lemma nse_prim_list loc p l : nse loc (prim_list p l). Proof. nsep. Qed.
#[export] Hint Resolve nse_sert nse_vert nse_tert nse_get nse_put nse_read
  nse_read_u8 nse_read_u16 nse_config nse_prim_list : nse_db.
Lemma nse_prim1 loc p l : nse loc (prim1 p l).      Proof. nsep. Qed.
#[export] Hint Resolve nse_prim1 : nse_db.
Lemma nse_prim_bool loc p l : nse loc (prim_bool p l). Proof. nsep. Qed.
#[export] Hint Resolve nse_prim_bool : nse_db.

Lemma nse_repeat_get loc n : nse loc (repeat_get n).
Proof. induction n; cbn [repeat_get]; nsep. Qed.
Lemma nse_put_all loc l : nse loc (put_all l).
Proof. induction l; cbn [put_all]; nsep. Qed.
#[export] Hint Resolve nse_repeat_get nse_put_all : nse_db.

(* helpers of Ops.v *)
Lemma nse_fl2 loc a : nse loc (fl2_prog a).         Proof. nsep. Qed.
#[export] Hint Resolve nse_fl2 : nse_db.
Lemma nse_i2b loc n : nse loc (i2b n).              Proof. nsep. Qed.
Lemma nse_b2i loc b : nse loc (b2i b).              Proof. nsep. Qed.
#[export] Hint Resolve nse_i2b nse_b2i : nse_db.
Lemma nse_get_int loc : nse loc get_int.            Proof. nsep. Qed.
Lemma nse_repeat_get_z loc n : nse loc (repeat_get_z n). Proof. nsep. Qed.
Lemma nse_put_bool loc b : nse loc (put_bool b).    Proof. nsep. Qed.
Lemma nse_cache_raw loc k v : nse loc (cache_raw k v). Proof. nsep. Qed.
Lemma nse_cache_items loc k l : nse loc (cache_items k l). Proof. nsep. Qed.
#[export] Hint Resolve nse_get_int nse_repeat_get_z nse_put_bool nse_cache_raw
  nse_cache_items : nse_db.

Lemma nse_msg_go loc idx flag : forall acc, nse loc (msg_go idx flag acc).
Proof. induction idx; intro acc; cbn [msg_go]; nsep. Qed.
#[export] Hint Resolve nse_msg_go : nse_db.
Lemma nse_get_message_core loc f : nse loc (get_message_core f). Proof. nsep. Qed.
#[export] Hint Resolve nse_get_message_core : nse_db.

Lemma nse_put_atoms loc l : nse loc (put_atoms l).
Proof. induction l as [|a l IH]; cbn [put_atoms]; nsep. Qed.
Lemma nse_put_values loc l : nse loc (put_values l).
Proof. induction l as [|a l IH]; cbn [put_values]; nsep. Qed.
#[export] Hint Resolve nse_put_atoms nse_put_values : nse_db.
Lemma nse_read_cache_key loc k : nse loc (read_cache_key k). Proof. nsep. Qed.
Lemma nse_cache_size_key loc k : nse loc (cache_size_key k). Proof. nsep. Qed.
#[export] Hint Resolve nse_read_cache_key nse_cache_size_key : nse_db.

Lemma nse_fold_ints loc n f : forall acc, nse loc (fold_ints n f acc).
Proof. induction n; intro acc; cbn [fold_ints]; nsep. Qed.
#[export] Hint Resolve nse_fold_ints : nse_db.
Lemma nse_pydiv loc a b : nse loc (pydiv a b).      Proof. nsep. Qed.
Lemma nse_pymod loc a b : nse loc (pymod a b).      Proof. nsep. Qed.
#[export] Hint Resolve nse_pydiv nse_pymod : nse_db.

Lemma nse_get_float_t loc : nse loc get_float_t.    Proof. nsep. Qed.
Lemma nse_bytes_to_float loc x : nse loc (bytes_to_float x). Proof. nsep. Qed.
Lemma nse_check_nan loc d : nse loc (check_nan d).  Proof. nsep. Qed.
Lemma nse_put_float loc d : nse loc (put_float d).  Proof. nsep. Qed.
#[export] Hint Resolve nse_get_float_t nse_bytes_to_float nse_check_nan nse_put_float : nse_db.
Lemma nse_fold_floats loc n p : forall acc, nse loc (fold_floats n p acc).
Proof. induction n; intro acc; cbn [fold_floats]; nsep. Qed.
#[export] Hint Resolve nse_fold_floats : nse_db.

Lemma nse_clamp_scalar loc s b : nse loc (clamp_scalar s b). Proof. nsep. Qed.
#[export] Hint Resolve nse_clamp_scalar : nse_db.
Lemma nse_H_big loc l : nse loc (H_big l).          Proof. nsep. Qed.
#[export] Hint Resolve nse_H_big : nse_db.
Lemma nse_H_small loc l : nse loc (H_small l).      Proof. nsep. Qed.
Lemma nse_derive_key loc s : nse loc (derive_key_from_seed s). Proof. nsep. Qed.
Lemma nse_derive_point loc x : nse loc (derive_point x). Proof. nsep. Qed.
#[export] Hint Resolve nse_H_small nse_derive_key nse_derive_point : nse_db.
Lemma nse_check_points loc l : nse loc (check_points l).
Proof. induction l; cbn [check_points]; nsep. Qed.
Lemma nse_sum_with loc p l : forall acc, nse loc (sum_with p acc l).
Proof. induction l; intro acc; cbn [sum_with]; nsep. Qed.
#[export] Hint Resolve nse_check_points nse_sum_with : nse_db.
Lemma nse_aggregate_points loc l : nse loc (aggregate_points l). Proof. nsep. Qed.
Lemma nse_aggregate_scalars loc l : nse loc (aggregate_scalars l). Proof. nsep. Qed.
#[export] Hint Resolve nse_aggregate_points nse_aggregate_scalars : nse_db.
Lemma nse_sub_go loc n p : forall acc, nse loc (sub_go n p acc).
Proof. induction n; intro acc; cbn [sub_go]; nsep. Qed.
#[export] Hint Resolve nse_sub_go : nse_db.

(* the signature check itself (OP_CHECK_SIG after the plugin call and the operand), and the
   inner checks of OP_CHECK_MULTISIG, for any number of signatures and keys *)
Lemma nse_check_sig_body loc a : nse loc (check_sig_body a). Proof. nsep. Qed.
#[export] Hint Resolve nse_check_sig_body : nse_db.
Lemma nse_ms_find loc a sig keys : nse loc (ms_find a sig keys).
Proof. induction keys; cbn [ms_find]; nsep. Qed.
#[export] Hint Resolve nse_ms_find : nse_db.
Lemma nse_ms_go loc a sigs : forall keys confirmed, nse loc (ms_go a sigs keys confirmed).
Proof. induction sigs; intros keys confirmed; cbn [ms_go]; nsep. Qed.
#[export] Hint Resolve nse_ms_go : nse_db.

Lemma nse_ct_run loc l t f : nse loc (ct_run l t f).
Proof. induction l as [|[i p] l IH]; cbn [ct_run]; nsep. Qed.
#[export] Hint Resolve nse_ct_run : nse_db.
Lemma nse_ct_go loc idx flag : forall valid, nse loc (ct_go idx flag valid).
Proof. induction idx; intro valid; cbn [ct_go]; nsep. Qed.
#[export] Hint Resolve nse_ct_go : nse_db.

Lemma nse_decode_utf8 loc b : nse loc (decode_utf8 b). Proof. nsep. Qed.
Lemma nse_swap_core loc i j : nse loc (swap_core i j). Proof. nsep. Qed.
Lemma nse_when loc b p : nse loc p -> nse loc (when b p). Proof. intro. nsep. Qed.
#[export] Hint Resolve nse_decode_utf8 nse_swap_core nse_when : nse_db.

Lemma nse_NOP loc : nse loc NOP. Proof. nsep. Qed.

Lemma nse_OP_VERIFY loc : nse loc OP_VERIFY.         Proof. nsep. Qed.
Lemma nse_OP_DUP loc : nse loc OP_DUP.               Proof. nsep. Qed.
Lemma nse_OP_SHA256 loc : nse loc OP_SHA256.         Proof. nsep. Qed.
Lemma nse_OP_SWAP2 loc : nse loc OP_SWAP2.           Proof. nsep. Qed.
Lemma nse_OP_XOR loc : nse loc OP_XOR.               Proof. nsep. Qed.
Lemma nse_OP_EQUAL_VERIFY loc : nse loc OP_EQUAL_VERIFY. Proof. nsep. Qed.
#[export] Hint Resolve nse_OP_VERIFY nse_OP_DUP nse_OP_SHA256 nse_OP_SWAP2 nse_OP_XOR
  nse_OP_EQUAL_VERIFY : nse_db.

(* the block instructions: their sub-tapes run through the runner *)
Lemma nse_OP_RETURN loc : nse loc OP_RETURN. Proof. nsep. Qed.
#[export] Hint Resolve nse_OP_RETURN : nse_db.
Lemma nse_propagate_return loc : nse loc propagate_return. Proof. nsep. Qed.
#[export] Hint Resolve nse_propagate_return : nse_db.
Lemma nse_eval_body : nse false eval_body. Proof. nsep. Qed.
#[export] Hint Resolve nse_eval_body : nse_db.
Lemma nse_loop_go n : forall i limit tid cond, nse false (loop_go n i limit tid cond).
Proof. induction n as [|n IH]; intros i limit tid cond; cbn [loop_go]; nsep. Qed.
#[export] Hint Resolve nse_loop_go : nse_db.

(* ------------------------------------------------------------------------------------------ *)
(* 4. C: every other instruction                                                              *)
(* ------------------------------------------------------------------------------------------ *)

(* the signature-related opcodes *)
Definition is_sig_op (o : opcode) : bool :=
  match o with
  | O_GET_MESSAGE | O_CHECK_SIG | O_CHECK_SIG_VERIFY | O_CHECK_MULTISIG | O_CHECK_MULTISIG_VERIFY
  | O_SIGN | O_CHECK_TEMPLATE | O_CHECK_TEMPLATE_VERIFY | O_TAPROOT => true
  | _ => false
  end.

(* the block instructions, which run sub-tapes (OP_TAPROOT's script path is the tenth) *)
Definition is_block_op (o : opcode) : bool :=
  match o with
  | O_CALL | O_IF | O_IF_ELSE | O_EVAL | O_MERKLEVAL | O_TRY_EXCEPT | O_LOOP => true
  | _ => false
  end.

Theorem op_prog_nse loc (o : opcode) :
  is_sig_op o = false -> (loc = true -> is_block_op o = false) -> nse loc (op_prog o).
Proof.
  intros H1 H2.
  destruct o; cbn [is_sig_op is_block_op] in H1, H2; try discriminate H1;
    try (destruct loc; [discriminate (H2 eq_refl)|]);
    cbn [op_prog]; nsep.
Qed.

(* every opcode other than the signature-related ones, block instructions included *)
Theorem op_prog_no_sigext (o : opcode) : is_sig_op o = false -> no_sigext (op_prog o).
Proof. intro H. apply op_prog_nse; [exact H|discriminate]. Qed.

(* the non-block ones do not even depend on the runner *)
Theorem op_prog_no_sigext_local (o : opcode) :
  is_sig_op o = false -> is_block_op o = false -> no_sigext_local (op_prog o).
Proof. intros H1 H2. apply op_prog_nse; [exact H1|intros _; exact H2]. Qed.

(* every code: the unassigned ones run NOP *)
Theorem dispatch_no_sigext (code : nat) :
  match opcode_of_nat code with Some o => is_sig_op o = false | None => True end ->
  no_sigext (dispatch code).
Proof.
  unfold dispatch. destruct (opcode_of_nat code) as [o|]; intro H.
  - apply op_prog_no_sigext. exact H.
  - apply nse_NOP.
Qed.
