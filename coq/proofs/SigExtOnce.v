(* C09: WHEN the signature-extension plugins run.

   A plugin run is the log event [EvSigExt id].  This file completes ConfigSpec.v (which covers
   OP_GET_MESSAGE and OP_CHECK_SIG only):

   A. "once, and first": every signature-related instruction = the plugins once (sigext_log) ; the
      rest of its body, as an equation between interpretations (multisig, sign, check_template in its
      two cases, the _VERIFY forms, the key path of OP_TAPROOT);
   B. "never twice": the rest of the body of each of these instructions adds no EvSigExt event, in
      every outcome; hence each instruction, run once, adds exactly the configured plugins, once each;
   C. "never otherwise": a syntactic judgement [no_sigext] over programs (no [ALog (EvSigExt _)]
      action), sound for [interp] relative to the runner of sub-tapes, holds of the program of every
      other opcode (and of NOP). *)
From Coq Require Import ZArith List Bool Lia.
From Coq.Strings Require Import Byte String.
From TS Require Import Bytes Codec State Prog Ops Interp StateLemmas InterpLemmas NopSpec StackLemmas
  SigSpec ConfigSpec TaprootSpec Asm.
Import ListNotations.
Local Open Scope nat_scope.
Open Scope prog_scope.

(* ------------------------------------------------------------------------------------------ *)
(* 0. Counting plugin events                                                                  *)
(* ------------------------------------------------------------------------------------------ *)

Definition is_sigext (e : event) : bool := match e with EvSigExt _ => true | _ => false end.

(* number of EvSigExt events of a log *)
Fixpoint sigext_count (l : list event) : nat :=
  match l with
  | [] => 0
  | e :: t => (if is_sigext e then 1 else 0) + sigext_count t
  end.

(* the plugin ids of the EvSigExt events of a log, in log order (newest first) *)
Fixpoint sigext_ids (l : list event) : list nat :=
  match l with
  | [] => []
  | EvSigExt i :: t => i :: sigext_ids t
  | _ :: t => sigext_ids t
  end.

Lemma sigext_count_ids l : sigext_count l = List.length (sigext_ids l).
Proof. induction l as [|[] t IH]; cbn [sigext_count sigext_ids is_sigext List.length]; lia. Qed.

Lemma sigext_ids_app l1 l2 : sigext_ids (l1 ++ l2) = sigext_ids l1 ++ sigext_ids l2.
Proof. induction l1 as [|[] t IH]; cbn [sigext_ids app]; congruence. Qed.

Lemma sigext_count_app l1 l2 : sigext_count (l1 ++ l2) = sigext_count l1 + sigext_count l2.
Proof. rewrite !sigext_count_ids, sigext_ids_app, app_length. reflexivity. Qed.

Lemma sigext_ids_map l : sigext_ids (map EvSigExt l) = l.
Proof. induction l as [|i t IH]; cbn [map sigext_ids]; congruence. Qed.

Lemma sigext_count_other e l : is_sigext e = false -> sigext_count (e :: l) = sigext_count l.
Proof. intro H. cbn [sigext_count]. rewrite H. reflexivity. Qed.

Lemma sigext_ids_other e l : is_sigext e = false -> sigext_ids (e :: l) = sigext_ids l.
Proof. destruct e; cbn [is_sigext sigext_ids]; intro H; [discriminate|reflexivity..]. Qed.

(* one run of the configured plugins: every id once, in configuration order (the log is newest first) *)
Lemma sigext_ids_sigext_log cfg st :
  sigext_ids (st_log (sigext_log cfg st)) = rev (c_sigext cfg) ++ sigext_ids (st_log st).
Proof.
  unfold sigext_log. cbn [st_log with_log]. rewrite sigext_ids_app, <- map_rev, sigext_ids_map. reflexivity.
Qed.

Lemma sigext_count_sigext_log cfg st :
  sigext_count (st_log (sigext_log cfg st)) = sigext_count (st_log st) + List.length (c_sigext cfg).
Proof. rewrite !sigext_count_ids, sigext_ids_sigext_log, app_length, rev_length. lia. Qed.

(* ------------------------------------------------------------------------------------------ *)
(* 1. The judgement: programs without a plugin event                                          *)
(* ------------------------------------------------------------------------------------------ *)

(* [act_quiet loc a]: action [a] is not the logging of a plugin event; with [loc = true] it
   moreover does not run a sub-tape (its effect does not depend on the runner) *)
Definition act_quiet (loc : bool) {X} (a : action X) : bool :=
  match a with
  | ALog e => negb (is_sigext e)
  | ACallDef _ | ARunSub _ _ | ATrySub _ | ARunLoop _ => negb loc
  | _ => true
  end.

Fixpoint nse (loc : bool) {A} (p : prog A) : Prop :=
  match p with
  | Act a k => act_quiet loc a = true /\ forall x, nse loc (k x)
  | _ => True
  end.

(* no [ALog (EvSigExt _)] action; sub-tapes only through ACallDef / ARunSub / ATrySub / ARunLoop,
   whose effect is the runner's *)
Definition no_sigext {A} (p : prog A) : Prop := nse false p.
(* ... and no sub-tape action at all *)
Definition no_sigext_local {A} (p : prog A) : Prop := nse true p.

Lemma act_quiet_weaken loc X (a : action X) : act_quiet true a = true -> act_quiet loc a = true.
Proof. destruct a; cbn [act_quiet negb]; intro H; first [exact H | discriminate H]. Qed.

Lemma nse_weaken loc A (p : prog A) : nse true p -> nse loc p.
Proof.
  induction p as [a|e|w|X a k IH]; cbn [nse]; auto.
  intros [Ha Hk]. split; [apply act_quiet_weaken; exact Ha|]. intro x. apply IH, Hk.
Qed.

Lemma no_sigext_local_no_sigext A (p : prog A) : no_sigext_local p -> no_sigext p.
Proof. apply nse_weaken. Qed.

Lemma nse_bind loc A B (p : prog A) (f : A -> prog B) :
  nse loc p -> (forall a, nse loc (f a)) -> nse loc (bind p f).
Proof.
  intros Hp Hf. induction p as [a|e|w|X a k IH]; cbn [bind nse] in *; auto.
  destruct Hp as [Ha Hk]. split; [exact Ha|]. intro x. apply IH. apply Hk.
Qed.

Lemma nse_Act loc A X (a : action X) (k : X -> prog A) :
  act_quiet loc a = true -> (forall x, nse loc (k x)) -> nse loc (Act a k).
Proof. intros; split; assumption. Qed.

Lemma nse_act_intro loc X (a : action X) : act_quiet loc a = true -> nse loc (act a).
Proof. intro H. split; [exact H|]. intro x. exact I. Qed.

(* ------------------------------------------------------------------------------------------ *)
(* 2. Soundness, for any measure of the log that ignores the other events                     *)
(* ------------------------------------------------------------------------------------------ *)

Section Measure.
Variable T : Type.
Variable mu : list event -> T.
Hypothesis mu_other : forall e l, is_sigext e = false -> mu (e :: l) = mu l.

(* the outcome (normal end or raise) has the same measure of plugin events as state [st] *)
Definition keeps {A} (st : state) (o : outcome A) : Prop :=
  match o with
  | Done _ _ st' | Raised _ _ st' => mu (st_log st') = mu (st_log st)
  | _ => True
  end.

(* what is assumed of the function that runs sub-tapes *)
Definition run_keeps (run : nat -> state -> outcome unit) : Prop := forall tid s, keeps s (run tid s).

Lemma keeps_same_log A (s1 s2 : state) (o : outcome A) : st_log s1 = st_log s2 -> keeps s1 o -> keeps s2 o.
Proof. intros E H. destruct o; cbn [keeps] in *; try exact I; rewrite <- E; exact H. Qed.

Section Sound.
Variable orc : oracle.
Variable cfg : config.
Variable run : nat -> state -> outcome unit.

Ltac sub_run Hrun :=
  match goal with |- context [run ?t ?s] =>
    let Hr := fresh "Hr" in pose proof (Hrun t s) as Hr; destruct (run t s); cbn [keeps] in Hr
  end.

Lemma step_keeps loc X (a : action X) fr st :
  act_quiet loc a = true -> (loc = false -> run_keeps run) ->
  match step orc cfg run a fr st with
  | SOk _ _ st' | SRaise _ _ st' => mu (st_log st') = mu (st_log st)
  | _ => True
  end.
Proof.
  intros Ha Hrun.
  destruct a; cbn [act_quiet] in Ha;
    try (destruct loc; [discriminate Ha|]; specialize (Hrun eq_refl)); simpl.
  - destruct (st_stack st); reflexivity.
  - destruct (_ <? _); [reflexivity|]. destruct (_ <=? _); reflexivity.
  - destruct (st_stack st); reflexivity.
  - reflexivity.
  - destruct (_ && _); [reflexivity|exact I].
  - destruct (_ <? _); reflexivity.
  - reflexivity.
  - reflexivity.
  - reflexivity.
  - reflexivity.
  - reflexivity.
  - reflexivity.
  - reflexivity.
  - reflexivity.
  - reflexivity.
  - reflexivity.
  - reflexivity.
  - reflexivity.
  - reflexivity.
  - (* ACallDef *) unfold after_run. sub_run Hrun; try exact I; exact Hr.
  - (* ARunSub *) unfold after_run. sub_run Hrun; try exact I; exact Hr.
  - (* ATrySub *) sub_run Hrun; try exact I; exact Hr.
  - (* ALoopNew *) reflexivity.
  - (* ARunLoop *) unfold after_run. sub_run Hrun; try exact I; exact Hr.
  - (* ALog *) apply mu_other. destruct (is_sigext e); [discriminate Ha|reflexivity].
Qed.

Theorem nse_sound loc A (p : prog A) :
  nse loc p -> (loc = false -> run_keeps run) ->
  forall fr st, keeps st (interp orc cfg run p fr st).
Proof.
  intros Hp Hrun. induction p as [a|e|w|X a k IH]; intros fr st; cbn [interp keeps nse] in *.
  - reflexivity.
  - reflexivity.
  - exact I.
  - destruct Hp as [Ha Hk].
    pose proof (step_keeps loc X a fr st Ha Hrun) as Hs.
    destruct (step orc cfg run a fr st) as [x fr' st'|e fr' st'| |w]; cbn [keeps]; try exact I; [|exact Hs].
    specialize (IH x (Hk x) fr' st').
    destruct (interp orc cfg run (k x) fr' st'); cbn [keeps] in *; try exact I; congruence.
Qed.

(* the two readings *)
Corollary no_sigext_sound A (p : prog A) :
  no_sigext p -> run_keeps run -> forall fr st, keeps st (interp orc cfg run p fr st).
Proof. intros Hp Hrun. apply (nse_sound false); [exact Hp|intros _; exact Hrun]. Qed.

Corollary no_sigext_local_sound A (p : prog A) :
  no_sigext_local p -> forall fr st, keeps st (interp orc cfg run p fr st).
Proof. intros Hp. apply (nse_sound true); [exact Hp|discriminate]. Qed.

End Sound.
End Measure.

(* ------------------------------------------------------------------------------------------ *)
(* 3. The judgement holds of the building blocks                                              *)
(* ------------------------------------------------------------------------------------------ *)

Create HintDb nse_db.

Ltac head t := lazymatch t with ?f _ => head f | _ => t end.

Ltac nse1 :=
  cbv beta zeta;
  lazymatch goal with
  | |- nse _ (bind _ _) => apply nse_bind; [|intro]
  | |- nse _ (Ret _) => exact I
  | |- nse _ (Raise _) => exact I
  | |- nse _ (Unmod _) => exact I
  | |- nse _ (Act _ _) => apply nse_Act; [reflexivity|intro]
  | |- nse _ (act _) => apply nse_act_intro; reflexivity
  | |- nse _ (if ?b then _ else _) => destruct b
  | |- nse _ (match ?x with _ => _ end) => destruct x
  | |- nse _ ?p => first [ solve [auto with nse_db nocore] | let h := head p in unfold h ]
  end.
Ltac nsep := unfold no_sigext, no_sigext_local; repeat nse1.

(* helpers of Prog.v *)
Lemma nse_sert loc c : nse loc (sert c).            Proof. nsep. Qed.
Lemma nse_vert loc c : nse loc (vert c).            Proof. nsep. Qed.
Lemma nse_tert loc c : nse loc (tert c).            Proof. nsep. Qed.
Lemma nse_get loc : nse loc get.                    Proof. nsep. Qed.
Lemma nse_put loc b : nse loc (put b).              Proof. nsep. Qed.
Lemma nse_read loc n : nse loc (read n).            Proof. nsep. Qed.
Lemma nse_read_u8 loc : nse loc read_u8.            Proof. nsep. Qed.
Lemma nse_read_u16 loc : nse loc read_u16.          Proof. nsep. Qed.
Lemma nse_config loc : nse loc config_.             Proof. nsep. Qed.
Lemma nse_prim_list loc p l : nse loc (prim_list p l). Proof. nsep. Qed.
#[export] Hint Resolve nse_sert nse_vert nse_tert nse_get nse_put nse_read
  nse_read_u8 nse_read_u16 nse_config nse_prim_list : nse_db.
Lemma nse_prim1 loc p l : nse loc (prim1 p l).      Proof. nsep. Qed.
#[export] Hint Resolve nse_prim1 : nse_db.
Lemma nse_prim_bool loc p l : nse loc (prim_bool p l). Proof. nsep. Qed.
#[export] Hint Resolve nse_prim_bool : nse_db.

Lemma nse_repeat_get loc n : nse loc (repeat_get n).
Proof. induction n; cbn [repeat_get]; nsep. Qed.
Lemma nse_put_all loc l : nse loc (put_all l).
Proof. induction l; cbn [put_all]; nsep. Qed.
#[export] Hint Resolve nse_repeat_get nse_put_all : nse_db.

(* helpers of Ops.v *)
Lemma nse_fl2 loc a : nse loc (fl2_prog a).         Proof. nsep. Qed.
#[export] Hint Resolve nse_fl2 : nse_db.
Lemma nse_i2b loc n : nse loc (i2b n).              Proof. nsep. Qed.
Lemma nse_b2i loc b : nse loc (b2i b).              Proof. nsep. Qed.
#[export] Hint Resolve nse_i2b nse_b2i : nse_db.
Lemma nse_get_int loc : nse loc get_int.            Proof. nsep. Qed.
Lemma nse_repeat_get_z loc n : nse loc (repeat_get_z n). Proof. nsep. Qed.
Lemma nse_put_bool loc b : nse loc (put_bool b).    Proof. nsep. Qed.
Lemma nse_cache_raw loc k v : nse loc (cache_raw k v). Proof. nsep. Qed.
Lemma nse_cache_items loc k l : nse loc (cache_items k l). Proof. nsep. Qed.
#[export] Hint Resolve nse_get_int nse_repeat_get_z nse_put_bool nse_cache_raw
  nse_cache_items : nse_db.

Lemma nse_msg_go loc idx flag : forall acc, nse loc (msg_go idx flag acc).
Proof. induction idx; intro acc; cbn [msg_go]; nsep. Qed.
#[export] Hint Resolve nse_msg_go : nse_db.
Lemma nse_get_message_core loc f : nse loc (get_message_core f). Proof. nsep. Qed.
#[export] Hint Resolve nse_get_message_core : nse_db.

Lemma nse_put_atoms loc l : nse loc (put_atoms l).
Proof. induction l as [|a l IH]; cbn [put_atoms]; nsep. Qed.
Lemma nse_put_values loc l : nse loc (put_values l).
Proof. induction l as [|a l IH]; cbn [put_values]; nsep. Qed.
#[export] Hint Resolve nse_put_atoms nse_put_values : nse_db.
Lemma nse_read_cache_key loc k : nse loc (read_cache_key k). Proof. nsep. Qed.
Lemma nse_cache_size_key loc k : nse loc (cache_size_key k). Proof. nsep. Qed.
#[export] Hint Resolve nse_read_cache_key nse_cache_size_key : nse_db.

Lemma nse_fold_ints loc n f : forall acc, nse loc (fold_ints n f acc).
Proof. induction n; intro acc; cbn [fold_ints]; nsep. Qed.
#[export] Hint Resolve nse_fold_ints : nse_db.
Lemma nse_pydiv loc a b : nse loc (pydiv a b).      Proof. nsep. Qed.
Lemma nse_pymod loc a b : nse loc (pymod a b).      Proof. nsep. Qed.
#[export] Hint Resolve nse_pydiv nse_pymod : nse_db.

Lemma nse_get_float_t loc : nse loc get_float_t.    Proof. nsep. Qed.
Lemma nse_bytes_to_float loc x : nse loc (bytes_to_float x). Proof. nsep. Qed.
Lemma nse_check_nan loc d : nse loc (check_nan d).  Proof. nsep. Qed.
Lemma nse_put_float loc d : nse loc (put_float d).  Proof. nsep. Qed.
#[export] Hint Resolve nse_get_float_t nse_bytes_to_float nse_check_nan nse_put_float : nse_db.
Lemma nse_fold_floats loc n p : forall acc, nse loc (fold_floats n p acc).
Proof. induction n; intro acc; cbn [fold_floats]; nsep. Qed.
#[export] Hint Resolve nse_fold_floats : nse_db.

Lemma nse_clamp_scalar loc s b : nse loc (clamp_scalar s b). Proof. nsep. Qed.
#[export] Hint Resolve nse_clamp_scalar : nse_db.
Lemma nse_H_big loc l : nse loc (H_big l).          Proof. nsep. Qed.
#[export] Hint Resolve nse_H_big : nse_db.
Lemma nse_H_small loc l : nse loc (H_small l).      Proof. nsep. Qed.
Lemma nse_derive_key loc s : nse loc (derive_key_from_seed s). Proof. nsep. Qed.
Lemma nse_derive_point loc x : nse loc (derive_point x). Proof. nsep. Qed.
#[export] Hint Resolve nse_H_small nse_derive_key nse_derive_point : nse_db.
Lemma nse_check_points loc l : nse loc (check_points l).
Proof. induction l; cbn [check_points]; nsep. Qed.
Lemma nse_sum_with loc p l : forall acc, nse loc (sum_with p acc l).
Proof. induction l; intro acc; cbn [sum_with]; nsep. Qed.
#[export] Hint Resolve nse_check_points nse_sum_with : nse_db.
Lemma nse_aggregate_points loc l : nse loc (aggregate_points l). Proof. nsep. Qed.
Lemma nse_aggregate_scalars loc l : nse loc (aggregate_scalars l). Proof. nsep. Qed.
#[export] Hint Resolve nse_aggregate_points nse_aggregate_scalars : nse_db.
Lemma nse_sub_go loc n p : forall acc, nse loc (sub_go n p acc).
Proof. induction n; intro acc; cbn [sub_go]; nsep. Qed.
#[export] Hint Resolve nse_sub_go : nse_db.

(* the signature check itself (OP_CHECK_SIG after the plugin call and the operand), and the
   inner checks of OP_CHECK_MULTISIG, for any number of signatures and keys *)
Lemma nse_check_sig_body loc a : nse loc (check_sig_body a). Proof. nsep. Qed.
#[export] Hint Resolve nse_check_sig_body : nse_db.
Lemma nse_ms_find loc a sig keys : nse loc (ms_find a sig keys).
Proof. induction keys; cbn [ms_find]; nsep. Qed.
#[export] Hint Resolve nse_ms_find : nse_db.
Lemma nse_ms_go loc a sigs : forall keys confirmed, nse loc (ms_go a sigs keys confirmed).
Proof. induction sigs; intros keys confirmed; cbn [ms_go]; nsep. Qed.
#[export] Hint Resolve nse_ms_go : nse_db.

Lemma nse_ct_run loc l t f : nse loc (ct_run l t f).
Proof. induction l as [|[i p] l IH]; cbn [ct_run]; nsep. Qed.
#[export] Hint Resolve nse_ct_run : nse_db.
Lemma nse_ct_go loc idx flag : forall valid, nse loc (ct_go idx flag valid).
Proof. induction idx; intro valid; cbn [ct_go]; nsep. Qed.
#[export] Hint Resolve nse_ct_go : nse_db.

Lemma nse_decode_utf8 loc b : nse loc (decode_utf8 b). Proof. nsep. Qed.
Lemma nse_swap_core loc i j : nse loc (swap_core i j). Proof. nsep. Qed.
Lemma nse_when loc b p : nse loc p -> nse loc (when b p). Proof. intro. nsep. Qed.
#[export] Hint Resolve nse_decode_utf8 nse_swap_core nse_when : nse_db.

Lemma nse_NOP loc : nse loc NOP. Proof. nsep. Qed.

Lemma nse_OP_VERIFY loc : nse loc OP_VERIFY.         Proof. nsep. Qed.
Lemma nse_OP_DUP loc : nse loc OP_DUP.               Proof. nsep. Qed.
Lemma nse_OP_SHA256 loc : nse loc OP_SHA256.         Proof. nsep. Qed.
Lemma nse_OP_SWAP2 loc : nse loc OP_SWAP2.           Proof. nsep. Qed.
Lemma nse_OP_XOR loc : nse loc OP_XOR.               Proof. nsep. Qed.
Lemma nse_OP_EQUAL_VERIFY loc : nse loc OP_EQUAL_VERIFY. Proof. nsep. Qed.
#[export] Hint Resolve nse_OP_VERIFY nse_OP_DUP nse_OP_SHA256 nse_OP_SWAP2 nse_OP_XOR
  nse_OP_EQUAL_VERIFY : nse_db.

(* the block instructions: their sub-tapes run through the runner *)
Lemma nse_OP_RETURN loc : nse loc OP_RETURN. Proof. nsep. Qed.
#[export] Hint Resolve nse_OP_RETURN : nse_db.
Lemma nse_propagate_return loc : nse loc propagate_return. Proof. nsep. Qed.
#[export] Hint Resolve nse_propagate_return : nse_db.
Lemma nse_eval_body : nse false eval_body. Proof. nsep. Qed.
#[export] Hint Resolve nse_eval_body : nse_db.
Lemma nse_loop_go n : forall i limit tid cond, nse false (loop_go n i limit tid cond).
Proof. induction n as [|n IH]; intros i limit tid cond; cbn [loop_go]; nsep. Qed.
#[export] Hint Resolve nse_loop_go : nse_db.

(* ------------------------------------------------------------------------------------------ *)
(* 4. C: every other instruction                                                              *)
(* ------------------------------------------------------------------------------------------ *)

(* the signature-related opcodes *)
Definition is_sig_op (o : opcode) : bool :=
  match o with
  | O_GET_MESSAGE | O_CHECK_SIG | O_CHECK_SIG_VERIFY | O_CHECK_MULTISIG | O_CHECK_MULTISIG_VERIFY
  | O_SIGN | O_CHECK_TEMPLATE | O_CHECK_TEMPLATE_VERIFY | O_TAPROOT => true
  | _ => false
  end.

(* the block instructions, which run sub-tapes (OP_TAPROOT's script path is the tenth) *)
Definition is_block_op (o : opcode) : bool :=
  match o with
  | O_CALL | O_IF | O_IF_ELSE | O_EVAL | O_MERKLEVAL | O_TRY_EXCEPT | O_LOOP => true
  | _ => false
  end.

Theorem op_prog_nse loc (o : opcode) :
  is_sig_op o = false -> (loc = true -> is_block_op o = false) -> nse loc (op_prog o).
Proof.
  intros H1 H2.
  destruct o; cbn [is_sig_op is_block_op] in H1, H2; try discriminate H1;
    try (destruct loc; [discriminate (H2 eq_refl)|]);
    cbn [op_prog]; nsep.
Qed.

(* every opcode other than the signature-related ones, block instructions included *)
Theorem op_prog_no_sigext (o : opcode) : is_sig_op o = false -> no_sigext (op_prog o).
Proof. intro H. apply op_prog_nse; [exact H|discriminate]. Qed.

(* the non-block ones do not even depend on the runner *)
Theorem op_prog_no_sigext_local (o : opcode) :
  is_sig_op o = false -> is_block_op o = false -> no_sigext_local (op_prog o).
Proof. intros H1 H2. apply op_prog_nse; [exact H1|intros _; exact H2]. Qed.

(* every code: the unassigned ones run NOP *)
Theorem dispatch_no_sigext (code : nat) :
  match opcode_of_nat code with Some o => is_sig_op o = false | None => True end ->
  no_sigext (dispatch code).
Proof.
  unfold dispatch. destruct (opcode_of_nat code) as [o|]; intro H.
  - apply op_prog_no_sigext. exact H.
  - apply nse_NOP.
Qed.

(* ------------------------------------------------------------------------------------------ *)
(* 5. A: the signature-related instructions = the plugins once, then the rest of the body     *)
(* ------------------------------------------------------------------------------------------ *)

(* what follows the plugin call in each instruction *)
Definition get_message_body : prog unit :=
  f <- read_u8 ;; m <- get_message_core f ;; put m.
Definition check_sig_rest : prog unit :=
  a <- read_u8 ;; check_sig_body a.
Definition multisig_body : prog unit :=
  a <- read_u8 ;; m <- read_u8 ;; n <- read_u8 ;;
  vkeys <- repeat_get (nat_of n) ;; sigs <- repeat_get (nat_of m) ;;
  confirmed <- ms_go a sigs vkeys [] ;;
  put_bool (Nat.eqb (List.length confirmed) (List.length sigs)).
Definition sign_body : prog unit :=
  cfg <- config_ ;;
  f <- read_u8 ;; seed <- get ;; vert (blen seed =? 32)%Z ;;
  m <- get_message_core f ;; put m ;; message <- get ;;
  sig <- prim1 PSign [seed; message] ;;
  let sig := if (f =? 0)%Z then sig else sig ++ [z2b f] in
  (if flagon cfg 9 then cache_raw (str "s") sig else Ret tt) ;;
  put sig.
Definition template_body : prog unit :=
  f <- read_u8 ;; v <- ct_go [1;2;3;4;5;6;7;8]%Z f true ;; put_bool v.

(* the instructions are literally "plugins ;; rest" *)
Lemma OP_GET_MESSAGE_eq : OP_GET_MESSAGE = (run_sig_ext ;; get_message_body).       Proof. reflexivity. Qed.
Lemma OP_CHECK_SIG_eq : OP_CHECK_SIG = (run_sig_ext ;; check_sig_rest).             Proof. reflexivity. Qed.
Lemma OP_CHECK_MULTISIG_eq : OP_CHECK_MULTISIG = (run_sig_ext ;; multisig_body).    Proof. reflexivity. Qed.
Lemma OP_SIGN_eq : OP_SIGN = (run_sig_ext ;; sign_body).                            Proof. reflexivity. Qed.

(* flag 10 of the configuration: "run the signature extensions in OP_CHECK_TEMPLATE" (absent = yes) *)
Definition flag10_on (cfg : config) : bool :=
  match flag_get (c_flags cfg) (FKInt 10) with Some v => fval_truthy v | None => true end.

Lemma OP_CHECK_TEMPLATE_eq :
  OP_CHECK_TEMPLATE = (cfg <- config_ ;; when (flag10_on cfg) run_sig_ext ;; template_body).
Proof. reflexivity. Qed.

Lemma flag10_on_true cfg :
  flag10_on cfg = true <->
  flag_get (c_flags cfg) (FKInt 10) = None \/
  exists v, flag_get (c_flags cfg) (FKInt 10) = Some v /\ fval_truthy v = true.
Proof.
  unfold flag10_on. destruct (flag_get (c_flags cfg) (FKInt 10)) as [v|]; split; intro H.
  - right. exists v. split; [reflexivity|exact H].
  - destruct H as [H|(v' & E & H)]; [discriminate H|]. injection E as ->. exact H.
  - left. reflexivity.
  - reflexivity.
Qed.

Lemma flag10_on_false cfg :
  flag10_on cfg = false <->
  exists v, flag_get (c_flags cfg) (FKInt 10) = Some v /\ fval_truthy v = false.
Proof.
  unfold flag10_on. destruct (flag_get (c_flags cfg) (FKInt 10)) as [v|]; split; intro H.
  - exists v. split; [reflexivity|exact H].
  - destruct H as (v' & E & H). injection E as ->. exact H.
  - discriminate H.
  - destruct H as (v' & E & _). discriminate E.
Qed.

(* OP_TAPROOT = operand ; root ; size check ; peek ; then one of two programs *)
Definition tr_script_prog (root : bytes) : prog unit :=
  pubkey <- get ;; script <- get ;;
  hs <- prim1 PSha256 [script] ;; h <- prim1 PSha256 [pubkey ++ hs] ;;
  scalar <- clamp_scalar h false ;; point <- derive_point scalar ;;
  point <- aggregate_points [point; pubkey] ;;
  if bytes_eqb point root then put script ;; eval_body else put [x00].
Definition tr_key_prog (a root : bytes) : prog unit :=
  put root ;; run_sig_ext ;; check_sig_body (be_to_Z a).

Lemma OP_TAPROOT_eq :
  OP_TAPROOT =
    (a <- read 1 ;; root <- get ;; sert (blen root =? 32)%Z ;;
     top <- act APeek ;;
     if (blen top =? 32)%Z then tr_script_prog root else tr_key_prog a root).
Proof. reflexivity. Qed.

Section Once.
Variable orc : oracle.
Variable cfg : config.
Variable run : nat -> state -> outcome unit.
Notation interp := (interp orc cfg run).

Lemma sigext_then A (body : prog A) fr st :
  interp (run_sig_ext ;; body) fr st = interp body fr (sigext_log cfg st).
Proof. rewrite interp_bind, run_sig_ext_spec. reflexivity. Qed.

(* the unconditional forms of get_message_exact / check_sig_decomposed (ConfigSpec.v) *)
Theorem get_message_decomposed fr st :
  interp OP_GET_MESSAGE fr st = interp get_message_body fr (sigext_log cfg st).
Proof. apply sigext_then. Qed.

Theorem check_sig_decomposed' fr st :
  interp OP_CHECK_SIG fr st = interp check_sig_rest fr (sigext_log cfg st).
Proof. apply sigext_then. Qed.

Theorem check_multisig_decomposed fr st :
  interp OP_CHECK_MULTISIG fr st = interp multisig_body fr (sigext_log cfg st).
Proof. apply sigext_then. Qed.

Theorem sign_decomposed fr st :
  interp OP_SIGN fr st = interp sign_body fr (sigext_log cfg st).
Proof. apply sigext_then. Qed.

(* OP_CHECK_TEMPLATE: flag 10 absent or truthy -> the plugins run once, first *)
Theorem check_template_decomposed_on fr st :
  flag10_on cfg = true ->
  interp OP_CHECK_TEMPLATE fr st = interp template_body fr (sigext_log cfg st).
Proof.
  intro H. rewrite OP_CHECK_TEMPLATE_eq. unfold config_, act. cbn [bind Interp.interp step].
  rewrite H. cbn [when]. apply sigext_then.
Qed.

(* flag 10 present and falsy -> they do not run *)
Theorem check_template_decomposed_off fr st :
  flag10_on cfg = false ->
  interp OP_CHECK_TEMPLATE fr st = interp template_body fr st.
Proof.
  intro H. rewrite OP_CHECK_TEMPLATE_eq. unfold config_, act. cbn [bind Interp.interp step].
  rewrite H. cbn [when bind]. reflexivity.
Qed.

(* the _VERIFY forms *)
Lemma verify_after (p body : prog unit) st0 fr st :
  interp p fr st = interp body fr st0 ->
  interp (p ;; OP_VERIFY) fr st = interp (body ;; OP_VERIFY) fr st0.
Proof. intro H. rewrite !interp_bind, H. reflexivity. Qed.

Corollary check_sig_verify_decomposed fr st :
  interp OP_CHECK_SIG_VERIFY fr st = interp (check_sig_rest ;; OP_VERIFY) fr (sigext_log cfg st).
Proof. apply verify_after, check_sig_decomposed'. Qed.

Corollary check_multisig_verify_decomposed fr st :
  interp OP_CHECK_MULTISIG_VERIFY fr st = interp (multisig_body ;; OP_VERIFY) fr (sigext_log cfg st).
Proof. apply verify_after, check_multisig_decomposed. Qed.

Corollary check_template_verify_decomposed_on fr st :
  flag10_on cfg = true ->
  interp OP_CHECK_TEMPLATE_VERIFY fr st = interp (template_body ;; OP_VERIFY) fr (sigext_log cfg st).
Proof. intro H. apply verify_after, check_template_decomposed_on, H. Qed.

Corollary check_template_verify_decomposed_off fr st :
  flag10_on cfg = false ->
  interp OP_CHECK_TEMPLATE_VERIFY fr st = interp (template_body ;; OP_VERIFY) fr st.
Proof. intro H. apply verify_after, check_template_decomposed_off, H. Qed.

(* OP_TAPROOT, exactly: what happens before the choice of the path ... *)
Theorem taproot_exec fr st :
  interp OP_TAPROOT fr st =
    if List.length (to_data (cur fr st)) <? fr_ptr fr + 1 then Raised ScriptExecutionError fr st
    else
      let a := firstn 1 (skipn (fr_ptr fr) (to_data (cur fr st))) in
      match st_stack st with
      | [] => Raised IndexError (adv fr 1) st
      | root :: s =>
        if (blen root =? 32)%Z then
          match s with
          | [] => Raised IndexError (adv fr 1) (with_stack st [])
          | top :: _ =>
            if (blen top =? 32)%Z then interp (tr_script_prog root) (adv fr 1) (with_stack st s)
            else interp (tr_key_prog a root) (adv fr 1) (with_stack st s)
          end
        else Raised ScriptExecutionError (adv fr 1) (with_stack st s)
      end.
Proof.
  rewrite OP_TAPROOT_eq. unfold read, get, sert, act. cbn [bind Interp.interp step].
  change (Z.to_nat 1) with 1.
  destruct (List.length (to_data (cur fr st)) <? fr_ptr fr + 1); [reflexivity|].
  cbn [bind Interp.interp step]. cbv zeta.
  destruct (st_stack st) as [|root s]; [reflexivity|].
  destruct (blen root =? 32)%Z; cbn [bind Interp.interp step st_stack with_stack]; [|reflexivity].
  destruct s as [|top s']; [reflexivity|].
  destruct (blen top =? 32)%Z; reflexivity.
Qed.

(* ... and the key path: the root goes back on the stack, the plugins run ONCE, then the signature
   check body -- the same body as OP_CHECK_SIG's, which does not run them again *)
Theorem tr_key_prog_decomposed a root fr st :
  interp (tr_key_prog a root) fr st =
    if (c_max_item_size cfg <? List.length root) || (c_max_items cfg <=? List.length (st_stack st))
    then Raised ScriptExecutionError fr st
    else interp (check_sig_body (be_to_Z a)) fr (sigext_log cfg (with_stack st (root :: st_stack st))).
Proof.
  unfold tr_key_prog, put, act. cbn [bind Interp.interp step].
  destruct (c_max_item_size cfg <? List.length root); [reflexivity|].
  destruct (c_max_items cfg <=? List.length (st_stack st)); [reflexivity|].
  cbn [orb]. apply sigext_then.
Qed.

(* ------------------------------------------------------------------------------------------ *)
(* 6. B: never twice                                                                          *)
(* ------------------------------------------------------------------------------------------ *)

(* the outcome's log has the same plugin events as [st]'s *)
Definition same_plugins {A} (st : state) (o : outcome A) : Prop :=
  match o with
  | Done _ _ st' | Raised _ _ st' =>
    sigext_count (st_log st') = sigext_count (st_log st) /\
    sigext_ids (st_log st') = sigext_ids (st_log st)
  | _ => True
  end.

(* the outcome's log has the plugin events of [st]'s plus every configured plugin exactly once,
   in configuration order (logs are newest first) *)
Definition plugins_once {A} (st : state) (o : outcome A) : Prop :=
  match o with
  | Done _ _ st' | Raised _ _ st' =>
    sigext_count (st_log st') = sigext_count (st_log st) + List.length (c_sigext cfg) /\
    sigext_ids (st_log st') = rev (c_sigext cfg) ++ sigext_ids (st_log st)
  | _ => True
  end.

Lemma same_plugins_intro A st (o : outcome A) :
  keeps _ sigext_count st o -> keeps _ sigext_ids st o -> same_plugins st o.
Proof. destruct o; cbn [keeps same_plugins]; auto. Qed.

Lemma plugins_once_intro A st (o : outcome A) :
  keeps _ sigext_count (sigext_log cfg st) o -> keeps _ sigext_ids (sigext_log cfg st) o ->
  plugins_once st o.
Proof.
  destruct o; cbn [keeps plugins_once]; auto;
    rewrite sigext_count_sigext_log, sigext_ids_sigext_log; auto.
Qed.

Lemma plugins_once_same_log A s1 s2 (o : outcome A) :
  st_log s1 = st_log s2 -> plugins_once s1 o -> plugins_once s2 o.
Proof. intros E H. destruct o; cbn [plugins_once] in *; try exact I; rewrite <- E; exact H. Qed.

Lemma same_plugins_same_log A s1 s2 (o : outcome A) :
  st_log s1 = st_log s2 -> same_plugins s1 o -> same_plugins s2 o.
Proof. intros E H. destruct o; cbn [same_plugins] in *; try exact I; rewrite <- E; exact H. Qed.

(* a program without plugin event and without sub-tape action: no plugin event, in every outcome,
   whatever the runner *)
Theorem local_same_plugins A (p : prog A) :
  no_sigext_local p -> forall fr st, same_plugins st (interp p fr st).
Proof.
  intros Hp fr st. apply same_plugins_intro.
  - apply (no_sigext_local_sound _ sigext_count sigext_count_other); exact Hp.
  - apply (no_sigext_local_sound _ sigext_ids sigext_ids_other); exact Hp.
Qed.

(* with sub-tape actions: relative to the runner *)
Theorem no_sigext_count_sound A (p : prog A) :
  no_sigext p -> run_keeps _ sigext_count run ->
  forall fr st, keeps _ sigext_count st (interp p fr st).
Proof. apply (no_sigext_sound _ sigext_count sigext_count_other). Qed.

Theorem no_sigext_ids_sound A (p : prog A) :
  no_sigext p -> run_keeps _ sigext_ids run ->
  forall fr st, keeps _ sigext_ids st (interp p fr st).
Proof. apply (no_sigext_sound _ sigext_ids sigext_ids_other). Qed.

(* the rests of the bodies *)
Lemma get_message_body_local : no_sigext_local get_message_body.   Proof. nsep. Qed.
Lemma check_sig_body_local a : no_sigext_local (check_sig_body a). Proof. nsep. Qed.
Lemma check_sig_rest_local : no_sigext_local check_sig_rest.       Proof. nsep. Qed.
Lemma ms_find_local a sig keys : no_sigext_local (ms_find a sig keys). Proof. apply nse_ms_find. Qed.
Lemma ms_go_local a sigs keys confirmed : no_sigext_local (ms_go a sigs keys confirmed).
Proof. apply nse_ms_go. Qed.
Lemma multisig_body_local : no_sigext_local multisig_body.         Proof. nsep. Qed.
Lemma sign_body_local : no_sigext_local sign_body.                 Proof. nsep. Qed.
Lemma template_body_local : no_sigext_local template_body.         Proof. nsep. Qed.
Lemma then_verify_local (p : prog unit) : no_sigext_local p -> no_sigext_local (p ;; OP_VERIFY).
Proof. intro H. apply nse_bind; [exact H|intros _; apply nse_OP_VERIFY]. Qed.

Theorem get_message_body_never_twice fr st : same_plugins st (interp get_message_body fr st).
Proof. apply local_same_plugins, get_message_body_local. Qed.

Theorem check_sig_body_never_twice a fr st : same_plugins st (interp (check_sig_body a) fr st).
Proof. apply local_same_plugins, check_sig_body_local. Qed.

(* the inner signature checks of OP_CHECK_MULTISIG, for any signatures and keys *)
Theorem ms_go_never_twice a sigs keys confirmed fr st :
  same_plugins st (interp (ms_go a sigs keys confirmed) fr st).
Proof. apply local_same_plugins, ms_go_local. Qed.

Theorem multisig_body_never_twice fr st : same_plugins st (interp multisig_body fr st).
Proof. apply local_same_plugins, multisig_body_local. Qed.

Theorem sign_body_never_twice fr st : same_plugins st (interp sign_body fr st).
Proof. apply local_same_plugins, sign_body_local. Qed.

Theorem template_body_never_twice fr st : same_plugins st (interp template_body fr st).
Proof. apply local_same_plugins, template_body_local. Qed.

(* "plugins once, then a plugin-free rest" gives "exactly once" *)
Lemma once_of_decomposition (p body : prog unit) fr st :
  no_sigext_local body ->
  interp p fr st = interp body fr (sigext_log cfg st) ->
  plugins_once st (interp p fr st).
Proof.
  intros Hb E. rewrite E. apply plugins_once_intro.
  - apply (no_sigext_local_sound _ sigext_count sigext_count_other); exact Hb.
  - apply (no_sigext_local_sound _ sigext_ids sigext_ids_other); exact Hb.
Qed.

(* the instructions that always run the plugins *)
Definition plugin_instructions : list (prog unit) :=
  [ OP_GET_MESSAGE; OP_CHECK_SIG; OP_CHECK_SIG_VERIFY; OP_CHECK_MULTISIG; OP_CHECK_MULTISIG_VERIFY; OP_SIGN ].

(* MAIN: each of them, run once from any frame and state, under any runner, adds exactly the
   configured plugins, once each -- when it ends normally and when it raises, wherever it raises *)
Theorem sig_instruction_runs_plugins_exactly_once (p : prog unit) fr st :
  In p plugin_instructions -> plugins_once st (interp p fr st).
Proof.
  unfold plugin_instructions. cbn [In].
  intros [<-|[<-|[<-|[<-|[<-|[<-|[]]]]]]].
  - eapply once_of_decomposition; [exact get_message_body_local|apply get_message_decomposed].
  - eapply once_of_decomposition; [exact check_sig_rest_local|apply check_sig_decomposed'].
  - eapply once_of_decomposition; [exact (then_verify_local _ check_sig_rest_local)|apply check_sig_verify_decomposed].
  - eapply once_of_decomposition; [exact multisig_body_local|apply check_multisig_decomposed].
  - eapply once_of_decomposition; [exact (then_verify_local _ multisig_body_local)|apply check_multisig_verify_decomposed].
  - eapply once_of_decomposition; [exact sign_body_local|apply sign_decomposed].
Qed.

Corollary get_message_runs_plugins_exactly_once fr st : plugins_once st (interp OP_GET_MESSAGE fr st).
Proof. apply sig_instruction_runs_plugins_exactly_once. unfold plugin_instructions; cbn [In]. left; reflexivity. Qed.
Corollary check_sig_runs_plugins_exactly_once fr st : plugins_once st (interp OP_CHECK_SIG fr st).
Proof. apply sig_instruction_runs_plugins_exactly_once. unfold plugin_instructions; cbn [In]. do 1 right; left; reflexivity. Qed.
Corollary check_sig_verify_runs_plugins_exactly_once fr st : plugins_once st (interp OP_CHECK_SIG_VERIFY fr st).
Proof. apply sig_instruction_runs_plugins_exactly_once. unfold plugin_instructions; cbn [In]. do 2 right; left; reflexivity. Qed.
Corollary check_multisig_runs_plugins_exactly_once fr st : plugins_once st (interp OP_CHECK_MULTISIG fr st).
Proof. apply sig_instruction_runs_plugins_exactly_once. unfold plugin_instructions; cbn [In]. do 3 right; left; reflexivity. Qed.
Corollary check_multisig_verify_runs_plugins_exactly_once fr st :
  plugins_once st (interp OP_CHECK_MULTISIG_VERIFY fr st).
Proof. apply sig_instruction_runs_plugins_exactly_once. unfold plugin_instructions; cbn [In]. do 4 right; left; reflexivity. Qed.
Corollary sign_runs_plugins_exactly_once fr st : plugins_once st (interp OP_SIGN fr st).
Proof. apply sig_instruction_runs_plugins_exactly_once. unfold plugin_instructions; cbn [In]. do 5 right; left; reflexivity. Qed.

(* OP_CHECK_TEMPLATE(_VERIFY): once when flag 10 is absent or truthy, not at all when it is falsy *)
Theorem check_template_runs_plugins_exactly_once (p : prog unit) fr st :
  In p [OP_CHECK_TEMPLATE; OP_CHECK_TEMPLATE_VERIFY] ->
  if flag10_on cfg then plugins_once st (interp p fr st) else same_plugins st (interp p fr st).
Proof.
  cbn [In]. intros [<-|[<-|[]]]; destruct (flag10_on cfg) eqn:F.
  - eapply once_of_decomposition; [exact template_body_local|apply check_template_decomposed_on, F].
  - rewrite check_template_decomposed_off by exact F. apply template_body_never_twice.
  - eapply once_of_decomposition; [exact (then_verify_local _ template_body_local)|apply check_template_verify_decomposed_on, F].
  - rewrite check_template_verify_decomposed_off by exact F.
    apply local_same_plugins, then_verify_local, template_body_local.
Qed.

(* ---- OP_TAPROOT ---- *)

Lemma body_after_plugins A (body : prog A) fr st :
  no_sigext_local body -> plugins_once st (interp body fr (sigext_log cfg st)).
Proof.
  intro Hb. apply plugins_once_intro.
  - apply (no_sigext_local_sound _ sigext_count sigext_count_other); exact Hb.
  - apply (no_sigext_local_sound _ sigext_ids sigext_ids_other); exact Hb.
Qed.

(* the key-path program: no plugin if the root cannot be pushed back, else exactly once *)
Lemma tr_key_prog_plugins a root fr st :
  match interp (tr_key_prog a root) fr st with
  | Done _ _ _ as o => plugins_once st o
  | Raised _ _ _ as o => same_plugins st o \/ plugins_once st o
  | _ => True
  end.
Proof.
  rewrite tr_key_prog_decomposed.
  destruct (_ || _); [left; split; reflexivity|].
  pose proof (body_after_plugins unit (check_sig_body (be_to_Z a)) fr
                (with_stack st (root :: st_stack st)) (check_sig_body_local _)) as H.
  apply (plugins_once_same_log _ _ st) in H; [|reflexivity].
  destruct (interp _ fr (sigext_log cfg _)); [exact H|right; exact H|exact I|exact I].
Qed.

(* key path (the item under the root is not 32 bytes long): a normal end has run the plugins exactly
   once; a raise happened either before the plugin call (operand missing, root not 32 bytes, root
   cannot be pushed back: no plugin ran) or inside the signature check (they ran exactly once) *)
Theorem taproot_key_path_plugins fr st root top rest :
  st_stack st = root :: top :: rest -> (blen top =? 32)%Z = false ->
  match interp OP_TAPROOT fr st with
  | Done _ _ _ as o => plugins_once st o
  | Raised _ _ _ as o => same_plugins st o \/ plugins_once st o
  | _ => True
  end.
Proof.
  intros Hs Ht. rewrite taproot_exec. cbv zeta.
  destruct (_ <? _); [left; split; reflexivity|].
  rewrite Hs. destruct (blen root =? 32)%Z; [|left; split; reflexivity].
  rewrite Ht.
  pose proof (tr_key_prog_plugins (firstn 1 (skipn (fr_ptr fr) (to_data (cur fr st)))) root (adv fr 1)
                (with_stack st (top :: rest))) as H.
  destruct (interp (tr_key_prog _ root) (adv fr 1) (with_stack st (top :: rest))); exact H.
Qed.

(* under the preconditions of TaprootSpec.taproot_key_path (operand present, 32-byte root, room to push
   it back): exactly once, in every outcome *)
Theorem taproot_key_path_plugins_exactly_once fr st a tail root item rest :
  data_at fr st = a :: tail ->
  st_stack st = root :: item :: rest ->
  List.length root = 32 -> List.length item <> 32 ->
  List.length rest + 2 <= c_max_items cfg -> 32 <= c_max_item_size cfg ->
  plugins_once st (interp OP_TAPROOT fr st).
Proof.
  intros Hd Hs Lr Li Hsp Hsz.
  rewrite (taproot_key_path orc cfg run fr st a tail root item rest Hd Hs Lr Li Hsp Hsz).
  rewrite <- Hs. rewrite with_stack_same.
  apply body_after_plugins, check_sig_body_local.
Qed.

(* script path: everything but the committed script runs no plugin; the script is the runner's *)
Lemma tr_script_prog_no_sigext root : no_sigext (tr_script_prog root).
Proof. nsep. Qed.

Theorem taproot_script_path_plugins_count fr st root top rest :
  st_stack st = root :: top :: rest -> (blen top =? 32)%Z = true ->
  run_keeps _ sigext_count run ->
  keeps _ sigext_count st (interp OP_TAPROOT fr st).
Proof.
  intros Hs Ht Hrun. rewrite taproot_exec. cbv zeta.
  destruct (_ <? _); [reflexivity|].
  rewrite Hs. destruct (blen root =? 32)%Z; [|reflexivity].
  rewrite Ht.
  apply (keeps_same_log _ _ _ (with_stack st (top :: rest)) st); [reflexivity|].
  apply no_sigext_count_sound; [apply tr_script_prog_no_sigext|exact Hrun].
Qed.

Theorem taproot_script_path_plugins_ids fr st root top rest :
  st_stack st = root :: top :: rest -> (blen top =? 32)%Z = true ->
  run_keeps _ sigext_ids run ->
  keeps _ sigext_ids st (interp OP_TAPROOT fr st).
Proof.
  intros Hs Ht Hrun. rewrite taproot_exec. cbv zeta.
  destruct (_ <? _); [reflexivity|].
  rewrite Hs. destruct (blen root =? 32)%Z; [|reflexivity].
  rewrite Ht.
  apply (keeps_same_log _ _ _ (with_stack st (top :: rest)) st); [reflexivity|].
  apply no_sigext_ids_sound; [apply tr_script_prog_no_sigext|exact Hrun].
Qed.

(* any state: OP_TAPROOT itself runs the plugins at most once (zero times or exactly once) *)
Theorem taproot_at_most_once fr st :
  run_keeps _ sigext_count run ->
  match interp OP_TAPROOT fr st with
  | Done _ _ st' | Raised _ _ st' =>
    sigext_count (st_log st') = sigext_count (st_log st) \/
    sigext_count (st_log st') = sigext_count (st_log st) + List.length (c_sigext cfg)
  | _ => True
  end.
Proof.
  intro Hrun.
  destruct (st_stack st) as [|root [|top rest]] eqn:Hs.
  - rewrite taproot_exec, Hs. cbv zeta. destruct (_ <? _); left; reflexivity.
  - rewrite taproot_exec, Hs. cbv zeta. destruct (_ <? _); [left; reflexivity|].
    destruct (blen root =? 32)%Z; left; reflexivity.
  - destruct (blen top =? 32)%Z eqn:Ht.
    + pose proof (taproot_script_path_plugins_count fr st root top rest Hs Ht Hrun) as H.
      destruct (interp OP_TAPROOT fr st); try exact I; left; exact H.
    + pose proof (taproot_key_path_plugins fr st root top rest Hs Ht) as H.
      destruct (interp OP_TAPROOT fr st); try exact I.
      * right. apply H.
      * destruct H as [H|H]; [left|right]; apply H.
Qed.

(* ------------------------------------------------------------------------------------------ *)
(* 7. C, semantically: a plugin event appears only when a signature-related instruction runs  *)
(* ------------------------------------------------------------------------------------------ *)

(* every other assigned opcode, block instructions included: the only plugin events it can add are
   those of the sub-tapes it runs *)
Theorem other_instructions_run_no_plugin (o : opcode) fr st :
  is_sig_op o = false -> run_keeps _ sigext_count run ->
  keeps _ sigext_count st (interp (op_prog o) fr st).
Proof. intros Ho Hrun. apply no_sigext_count_sound; [apply op_prog_no_sigext, Ho|exact Hrun]. Qed.

Theorem other_instructions_run_no_plugin_ids (o : opcode) fr st :
  is_sig_op o = false -> run_keeps _ sigext_ids run ->
  keeps _ sigext_ids st (interp (op_prog o) fr st).
Proof. intros Ho Hrun. apply no_sigext_ids_sound; [apply op_prog_no_sigext, Ho|exact Hrun]. Qed.

(* the non-block ones: none at all, whatever the runner *)
Theorem non_block_instructions_run_no_plugin (o : opcode) fr st :
  is_sig_op o = false -> is_block_op o = false ->
  same_plugins st (interp (op_prog o) fr st).
Proof. intros H1 H2. apply local_same_plugins, op_prog_no_sigext_local; assumption. Qed.

(* the unassigned codes (NOP) *)
Theorem nop_runs_no_plugin fr st : same_plugins st (interp NOP fr st).
Proof. apply local_same_plugins, nse_NOP. Qed.

(* one fetch of run_tape: if the number of plugin events changed although the sub-tapes kept it, the
   code is one of the nine signature-related opcodes *)
Theorem plugin_event_only_from_sig_instruction (code : nat) fr st :
  run_keeps _ sigext_count run ->
  ~ keeps _ sigext_count st (interp (dispatch code) fr st) ->
  exists o, opcode_of_nat code = Some o /\ is_sig_op o = true.
Proof.
  intros Hrun Hn. unfold dispatch in Hn. destruct (opcode_of_nat code) as [o|].
  - exists o. split; [reflexivity|]. destruct (is_sig_op o) eqn:E; [reflexivity|].
    exfalso. apply Hn. apply other_instructions_run_no_plugin; assumption.
  - exfalso. apply Hn. apply no_sigext_count_sound; [apply nse_NOP|exact Hrun].
Qed.

End Once.

(* ------------------------------------------------------------------------------------------ *)
(* 8. Examples: two plugins, ids 0 and 1                                                      *)
(* ------------------------------------------------------------------------------------------ *)


Definition ex_cfg : config :=
  {| c_max_items := 16; c_max_item_size := 128; c_limit := 8%Z; c_flags := []; c_sigext := [0; 1];
     c_ctplugins := []; c_contracts := []; c_now := 0%Z |}.
(* flag 10 present and false: OP_CHECK_TEMPLATE does not run the plugins *)
Definition ex_cfg_off : config :=
  {| c_max_items := 16; c_max_item_size := 128; c_limit := 8%Z; c_flags := [(FKInt 10, FVBool false)];
     c_sigext := [0; 1]; c_ctplugins := []; c_contracts := []; c_now := 0%Z |}.
(* verification says [yes]; signing gives 64 bytes *)
Definition ex_orc (yes : bool) : oracle := fun p _ =>
  match p with
  | PVerify => OOk [[if yes then x01 else x00]]
  | PSign => OOk [repeat x02 64]
  | _ => OErr OtherError
  end.
Definition ex_run : nat -> state -> outcome unit := fun _ _ => OutOfFuel.
Definition ex_st (data : bytes) (stack : list bytes) : state :=
  {| st_stack := stack; st_cache := [];
     st_tapes := [{| to_data := data; to_count := 0%Z; to_defs := 0 |}];
     st_defs := [[]]; st_log := []; st_rand := 0%Z |}.
Definition fr0 : frame := {| fr_tid := 0; fr_ptr := 0 |}.

Definition k1 : bytes := repeat x11 32.
Definition k2 : bytes := repeat x12 32.
Definition s1 : bytes := repeat x21 64.
Definition s2 : bytes := repeat x22 64.

Definition log_and_stack {A} (o : outcome A) : option (list event * list bytes) :=
  match o with Done _ _ st' | Raised _ _ st' => Some (st_log st', st_stack st') | _ => None end.

(* OP_CHECK_MULTISIG, 2 signatures x 2 keys, no signature verifies: four inner signature checks,
   each plugin once *)
Example ex_multisig_2x2_none :
  log_and_stack (interp (ex_orc false) ex_cfg ex_run OP_CHECK_MULTISIG fr0
                   (ex_st [x00; x02; x02] [k1; k2; s1; s2]))
  = Some ([EvSigExt 1; EvSigExt 0], [[x00]]).
Proof. vm_compute. reflexivity. Qed.

(* ... every signature verifies: two inner checks, each plugin once *)
Example ex_multisig_2x2_all :
  log_and_stack (interp (ex_orc true) ex_cfg ex_run OP_CHECK_MULTISIG fr0
                   (ex_st [x00; x02; x02] [k1; k2; s1; s2]))
  = Some ([EvSigExt 1; EvSigExt 0], [[xff]]).
Proof. vm_compute. reflexivity. Qed.

(* ... a raise inside (keys of the wrong length): still each plugin once *)
Example ex_multisig_raises :
  match interp (ex_orc true) ex_cfg ex_run OP_CHECK_MULTISIG fr0 (ex_st [x00; x02; x02] [s1; k2; s1; s2]) with
  | Raised ValueError _ st' => st_log st' = [EvSigExt 1; EvSigExt 0]
  | _ => False
  end.
Proof. vm_compute. reflexivity. Qed.

Example ex_sign :
  log_and_stack (interp (ex_orc true) ex_cfg ex_run OP_SIGN fr0 (ex_st [x00] [k1]))
  = Some ([EvSigExt 1; EvSigExt 0], [repeat x02 64]).
Proof. vm_compute. reflexivity. Qed.

Example ex_check_template_on :
  log_and_stack (interp (ex_orc true) ex_cfg ex_run OP_CHECK_TEMPLATE fr0 (ex_st [x00] []))
  = Some ([EvSigExt 1; EvSigExt 0], [[xff]]).
Proof. vm_compute. reflexivity. Qed.

Example ex_check_template_off :
  log_and_stack (interp (ex_orc true) ex_cfg_off ex_run OP_CHECK_TEMPLATE fr0 (ex_st [x00] []))
  = Some ([], [[xff]]).
Proof. vm_compute. reflexivity. Qed.

(* OP_TAPROOT key path (the item under the 32-byte root is a 64-byte signature) *)
Example ex_taproot_key_path :
  log_and_stack (interp (ex_orc true) ex_cfg ex_run OP_TAPROOT fr0 (ex_st [x00] [k1; s1]))
  = Some ([EvSigExt 1; EvSigExt 0], [[xff]]).
Proof. vm_compute. reflexivity. Qed.

(* whole scripts through run_script: the multisig at top level, and one nesting level down (inside
   an OP_IF body): each plugin exactly once *)
Definition ex_pushes : list instr :=
  [IVar1 O_PUSH1 s2; IVar1 O_PUSH1 s1; IVar1 O_PUSH1 k2; IVar1 O_PUSH1 k1].
Definition ex_ms : instr := IMultisig O_CHECK_MULTISIG x00 x02 x02.

Definition script_log (o : outcome unit) : option (list event * list bytes) := log_and_stack o.

Example ex_script_top :
  script_log (run_script (ex_orc false) ex_cfg 10 (encode (ex_pushes ++ [ex_ms])) [])
  = Some ([EvSigExt 1; EvSigExt 0], [[x00]]).
Proof. vm_compute. reflexivity. Qed.

Example ex_script_nested :
  script_log (run_script (ex_orc false) ex_cfg 10 (encode (ex_pushes ++ [IOp0 O_TRUE; IIf [ex_ms]])) [])
  = Some ([EvSigExt 1; EvSigExt 0], [[x00]]).
Proof. vm_compute. reflexivity. Qed.

(* two signature instructions: the plugins run once for each *)
Example ex_script_two :
  script_log (run_script (ex_orc true) ex_cfg 10
                (encode (ex_pushes ++ [ex_ms; IVar1 O_PUSH1 k1; IOp1 O_SIGN x00])) [])
  = Some ([EvSigExt 1; EvSigExt 0; EvSigExt 1; EvSigExt 0], [repeat x02 64; [xff]]).
Proof. vm_compute. reflexivity. Qed.

(* ------------------------------------------------------------------------------------------ *)
(* 9. The list of signature-related opcodes is tight                                          *)
(* ------------------------------------------------------------------------------------------ *)

Lemma ex_run_keeps : run_keeps _ sigext_count ex_run.
Proof. intros tid s. exact I. Qed.

(* none of the nine programs satisfies the judgement: with the configuration above each of them adds
   plugin events (from the empty tape and stack for the first eight, on the key path for OP_TAPROOT) *)
Theorem sig_ops_not_no_sigext (o : opcode) : is_sig_op o = true -> ~ no_sigext (op_prog o).
Proof.
  intros Ho Hn.
  pose proof (no_sigext_count_sound (ex_orc true) ex_cfg ex_run unit (op_prog o) Hn ex_run_keeps fr0
                (ex_st [x00] [k1; s1])) as H.
  destruct o; try discriminate Ho; vm_compute in H; discriminate H.
Qed.

(* so: the judgement holds of the program of an opcode exactly when it is not signature-related *)
Corollary no_sigext_iff (o : opcode) : no_sigext (op_prog o) <-> is_sig_op o = false.
Proof.
  split.
  - intro H. destruct (is_sig_op o) eqn:E; [|reflexivity]. exfalso. exact (sig_ops_not_no_sigext o E H).
  - apply op_prog_no_sigext.
Qed.

(* ------------------------------------------------------------------------------------------ *)
(* 10. At every nesting level                                                                 *)
(* ------------------------------------------------------------------------------------------ *)

(* the theorems above hold for every runner; run_tape interprets the instructions of a tape at any
   depth with the runner "run_tape with less fuel" and the same oracle and configuration
   (ConfigSpec.sub_tapes_same_config), so in particular: *)
Corollary sig_instruction_once_at_every_level orc cfg f (p : prog unit) fr st :
  In p plugin_instructions ->
  plugins_once cfg st (interp orc cfg (fun t s => run_tape orc cfg f t 0 s) p fr st).
Proof. apply sig_instruction_runs_plugins_exactly_once. Qed.

Print Assumptions nse_sound.
Print Assumptions no_sigext_sound.
Print Assumptions no_sigext_local_sound.
Print Assumptions op_prog_nse.
Print Assumptions op_prog_no_sigext.
Print Assumptions op_prog_no_sigext_local.
Print Assumptions dispatch_no_sigext.
Print Assumptions get_message_decomposed.
Print Assumptions check_sig_decomposed'.
Print Assumptions check_multisig_decomposed.
Print Assumptions sign_decomposed.
Print Assumptions check_template_decomposed_on.
Print Assumptions check_template_decomposed_off.
Print Assumptions check_sig_verify_decomposed.
Print Assumptions check_multisig_verify_decomposed.
Print Assumptions check_template_verify_decomposed_on.
Print Assumptions check_template_verify_decomposed_off.
Print Assumptions taproot_exec.
Print Assumptions tr_key_prog_decomposed.
Print Assumptions local_same_plugins.
Print Assumptions no_sigext_count_sound.
Print Assumptions no_sigext_ids_sound.
Print Assumptions get_message_body_never_twice.
Print Assumptions check_sig_body_never_twice.
Print Assumptions ms_go_never_twice.
Print Assumptions multisig_body_never_twice.
Print Assumptions sign_body_never_twice.
Print Assumptions template_body_never_twice.
Print Assumptions sig_instruction_runs_plugins_exactly_once.
Print Assumptions get_message_runs_plugins_exactly_once.
Print Assumptions check_sig_runs_plugins_exactly_once.
Print Assumptions check_sig_verify_runs_plugins_exactly_once.
Print Assumptions check_multisig_runs_plugins_exactly_once.
Print Assumptions check_multisig_verify_runs_plugins_exactly_once.
Print Assumptions sign_runs_plugins_exactly_once.
Print Assumptions check_template_runs_plugins_exactly_once.
Print Assumptions taproot_key_path_plugins.
Print Assumptions taproot_key_path_plugins_exactly_once.
Print Assumptions taproot_script_path_plugins_count.
Print Assumptions taproot_script_path_plugins_ids.
Print Assumptions taproot_at_most_once.
Print Assumptions other_instructions_run_no_plugin.
Print Assumptions other_instructions_run_no_plugin_ids.
Print Assumptions non_block_instructions_run_no_plugin.
Print Assumptions nop_runs_no_plugin.
Print Assumptions plugin_event_only_from_sig_instruction.
Print Assumptions sig_ops_not_no_sigext.
Print Assumptions no_sigext_iff.
Print Assumptions sig_instruction_once_at_every_level.
Print Assumptions ex_multisig_2x2_none.
Print Assumptions ex_multisig_2x2_all.
Print Assumptions ex_sign.
Print Assumptions ex_script_nested.
