(* The secrets of an AMHL chain are a function of (seed, index) alone: a chain of n users and a chain of m >= n users set up
   from the same seed share their first n secrets, whatever was set up before (no memory), and the number of secrets is
   exactly the number of users asked for.  Round-14 lesson (S14-C18: a per-seed memo that returned the longer tuple). *)
From Coq Require Import List Arith Lia.
From TS Require Import Bytes Codec State Prog AMHL.
Import ListNotations.
Local Open Scope nat_scope.

Lemma omap_app {A B} (f : A -> option B) (l1 l2 : list A) :
  omap f (l1 ++ l2) = obind (omap f l1) (fun r1 => obind (omap f l2) (fun r2 => Some (r1 ++ r2))).
Proof.
  induction l1 as [|a t IH]; cbn [app omap obind].
  - destruct (omap f l2); reflexivity.
  - destruct (f a) as [b|]; cbn [obind]; [|reflexivity].
    rewrite IH. destruct (omap f t) as [r1|]; cbn [obind]; [|reflexivity].
    destruct (omap f l2) as [r2|]; cbn [obind]; reflexivity.
Qed.

Lemma omap_length {A B} (f : A -> option B) (l : list A) r : omap f l = Some r -> length r = length l.
Proof.
  revert r; induction l as [|a t IH]; cbn [omap obind]; intros r H.
  - injection H as <-. reflexivity.
  - destruct (f a) as [b|]; cbn [obind] in H; [|discriminate].
    destruct (omap f t) as [r1|]; cbn [obind] in H; [|discriminate].
    injection H as <-. cbn [length]. f_equal. apply IH. reflexivity.
Qed.

Lemma omap_nth {A B} (f : A -> option B) (l : list A) r :
  omap f l = Some r -> forall i da db, i < length l -> f (nth i l da) = Some (nth i r db).
Proof.
  revert r; induction l as [|a t IH]; cbn [omap obind]; intros r H i da db Hi.
  - cbn in Hi. lia.
  - destruct (f a) as [b|] eqn:Fa; cbn [obind] in H; [|discriminate].
    destruct (omap f t) as [r1|] eqn:Ft; cbn [obind] in H; [|discriminate].
    injection H as <-. destruct i as [|i]; cbn [nth]; [exact Fa|].
    apply (IH r1 eq_refl). cbn [length] in Hi. lia.
Qed.

Section Samples.
  Variable orc : oracle.

  (* exactly n secrets *)
  Theorem samples_length fresh n seed ys : samples orc fresh n seed = Some ys -> length ys = n.
  Proof. unfold samples. intros H. rewrite (omap_length _ _ _ H). apply seq_length. Qed.

  (* the i-th secret is sample(seed, i): nothing else enters *)
  Theorem samples_nth fresh n seed ys i d :
    samples orc fresh n seed = Some ys -> i < n -> sample orc (eff_seed fresh seed) i = Some (nth i ys d).
  Proof.
    unfold samples. intros H Hi.
    pose proof (omap_nth _ _ _ H i 0 d) as N. rewrite seq_length in N. specialize (N Hi).
    rewrite seq_nth in N by exact Hi. exact N.
  Qed.

  (* a shorter chain from the same seed: the first n secrets of the longer one, and only those *)
  Theorem samples_prefix fresh n m seed ym :
    n <= m -> samples orc fresh m seed = Some ym -> samples orc fresh n seed = Some (firstn n ym).
  Proof.
    unfold samples. intros Hnm H.
    replace m with (n + (m - n)) in H by lia. rewrite seq_app, omap_app in H.
    destruct (omap (sample orc (eff_seed fresh seed)) (seq 0 n)) as [r1|] eqn:E1; cbn [obind] in H; [|discriminate].
    destruct (omap (sample orc (eff_seed fresh seed)) (seq (0 + n) (m - n))) as [r2|]; cbn [obind] in H; [|discriminate].
    injection H as <-. f_equal.
    pose proof (omap_length _ _ _ E1) as L. rewrite seq_length in L.
    rewrite firstn_app, <- L, firstn_all, Nat.sub_diag. cbn [firstn]. rewrite app_nil_r. reflexivity.
  Qed.

  (* the set-up of a chain hands out exactly n secrets and n points *)
  Lemma setup_loop_length prev ys r : setup_loop orc prev ys = Some r -> length r = length ys.
  Proof.
    revert prev r; induction ys as [|y t IH]; cbn [setup_loop obind]; intros prev r H.
    - injection H as <-. reflexivity.
    - destruct (oneway orc y) as [P|]; cbn [obind] in H; [|discriminate].
      destruct (aggregate_points orc [prev; P]) as [Yi|]; cbn [obind] in H; [|discriminate].
      destruct (setup_loop orc Yi t) as [r1|] eqn:E; cbn [obind] in H; [|discriminate].
      injection H as <-. cbn [length]. f_equal. exact (IH _ _ E).
  Qed.

  Theorem setup_lengths fresh n seed y Y :
    setup orc fresh n seed = Some (y, Y) -> length y = n /\ length Y = n.
  Proof.
    unfold setup. destruct (samples orc fresh n seed) as [ys|] eqn:S; cbn [obind]; [|discriminate].
    destruct ys as [|y0 t]; [discriminate|].
    destruct (oneway orc y0) as [Y0|]; cbn [obind]; [|discriminate].
    destruct (setup_loop orc Y0 t) as [r|] eqn:L; cbn [obind]; [|discriminate].
    intros H. injection H as <- <-. pose proof (samples_length _ _ _ _ S) as Ln.
    split; [exact Ln|]. cbn [length] in *. rewrite (setup_loop_length _ _ _ L). exact Ln.
  Qed.
End Samples.

Print Assumptions samples_length.
Print Assumptions samples_nth.
Print Assumptions samples_prefix.
Print Assumptions setup_lengths.
