(* C20, second half: soft-fork compatibility.
   The upgraded VM of model/SoftFork.v gives an unassigned opcode byte a new meaning: the operand
   and the pops of NOP, followed by a possible raise.  Every run of the upgraded VM in which the
   new op never raised is, step for step, a run of the old VM; in particular a script that
   authorizes on the upgraded VM without the new op ever having raised authorizes on the old VM. *)
From Coq Require Import ZArith List Bool Lia.
From Coq.Strings Require Import Byte String.
From TS Require Import Bytes Codec State Prog Ops Interp StateLemmas InterpLemmas Closure NopSpec SoftFork.
From TS Require Import Tables TablesCheck.
Import ListNotations.
Local Open Scope nat_scope.

(* "the fork op raised at some point": [EvEnter] is logged by fork_op just before it raises and by
   nothing else *)
Definition tainted (st : state) : Prop := exists n, In (EvEnter n) (st_log st).

(* the two relations used with Closure.v *)
Definition Rt (s s' : state) : Prop := tainted s -> tainted s'.
Definition log_ext (s s' : state) : Prop := exists l, st_log s' = (l ++ st_log s)%list.

Lemma Rt_refl s : Rt s s.
Proof. intro H; exact H. Qed.
Lemma Rt_trans a b c : Rt a b -> Rt b c -> Rt a c.
Proof. unfold Rt; auto. Qed.
Lemma Rt_same s s' : st_log s' = st_log s -> Rt s s'.
Proof. intros E [n H]. exists n. rewrite E. exact H. Qed.
Lemma Rt_cons s s' e : st_log s' = e :: st_log s -> Rt s s'.
Proof. intros E [n H]. exists n. rewrite E. right. exact H. Qed.

Lemma log_ext_refl s : log_ext s s.
Proof. exists []. reflexivity. Qed.
Lemma log_ext_trans a b c : log_ext a b -> log_ext b c -> log_ext a c.
Proof. intros [l1 H1] [l2 H2]. exists (l2 ++ l1)%list. rewrite H2, H1, app_assoc. reflexivity. Qed.
Lemma log_ext_same s s' : st_log s' = st_log s -> log_ext s s'.
Proof. intro E. exists []. exact E. Qed.
Lemma log_ext_cons s s' e : st_log s' = e :: st_log s -> log_ext s s'.
Proof. intro E. exists [e]. exact E. Qed.
Lemma log_ext_Rt s s' : log_ext s s' -> Rt s s'.
Proof. intros [l E] [n H]. exists n. rewrite E. apply in_or_app. right. exact H. Qed.

(* ================= 1. log monotonicity ================= *)

(* every action leaves the log alone or prepends one event; sub-runs do what the runner does.
   Stated once for any reflexive transitive relation that contains those two log changes. *)
Section LogMono.
Variable orc : oracle.
Variable cfg : config.
Variable R : state -> state -> Prop.
Hypothesis R_refl : forall s, R s s.
Hypothesis R_trans : forall a b c, R a b -> R b c -> R a c.
Hypothesis R_same : forall s s', st_log s' = st_log s -> R s s'.
Hypothesis R_cons : forall s s' e, st_log s' = e :: st_log s -> R s s'.

Lemma after_run_closed fr st st1 (o : outcome unit) :
  st_log st1 = st_log st -> R_out R st1 o -> R_sres R st (after_run fr o).
Proof.
  intros E H. destruct o; simpl in *; try exact I; (eapply R_trans; [apply R_same; exact E|exact H]).
Qed.

Lemma step_closed_log : step_closed orc cfg R.
Proof.
  intros run Hrun X a fr st. destruct a; cbn [step].
  - destruct (st_stack st); simpl; apply R_same; reflexivity.
  - destruct (_ <? _); [simpl; apply R_refl|]. destruct (_ <=? _); simpl; [apply R_refl|apply R_same; reflexivity].
  - destruct (st_stack st); simpl; apply R_refl.
  - simpl; apply R_refl.
  - destruct (_ && _); simpl; [apply R_same; reflexivity|exact I].
  - cbv zeta. destruct (_ <? _); simpl; apply R_refl.
  - simpl; apply R_refl.
  - simpl; apply R_refl.
  - simpl; apply R_same; reflexivity.
  - simpl; apply R_refl.
  - simpl; apply R_same; reflexivity.
  - simpl; apply R_same; reflexivity.
  - simpl; apply R_same; reflexivity.
  - simpl; apply R_refl.
  - simpl; apply R_refl.
  - simpl; apply R_refl.
  - simpl; apply R_same; reflexivity.
  - simpl; apply R_same; reflexivity.
  - simpl; apply R_refl.
  - cbv zeta. eapply after_run_closed; [|apply Hrun]; reflexivity.
  - unfold new_tape; cbv zeta. eapply after_run_closed; [|apply Hrun]; reflexivity.
  - unfold new_tape; cbv zeta.
    match goal with |- context [run ?t ?s] => pose proof (Hrun t s) as H; destruct (run t s) end;
      simpl in *; try exact I; (eapply R_trans; [apply R_same|exact H]); reflexivity.
  - simpl; apply R_same; reflexivity.
  - eapply after_run_closed; [|apply Hrun]; reflexivity.
  - simpl. eapply R_cons. reflexivity.
Qed.

(* run_tape_closed of Closure.v, for the upgraded fetch / dispatch loop *)
Variable fcode : nat.
Variable pred : list bytes -> bool.

Lemma run_tape_f_closed :
  forall fuel tid ptr st, R_out R st (run_tape_f orc cfg fcode pred fuel tid ptr st).
Proof.
  induction fuel as [|f IH]; intros tid ptr st; cbn [run_tape_f]; [exact I|].
  destruct (List.length (to_data (nth_tape st tid)) <=? ptr); simpl; [apply R_refl|].
  assert (Hrun : run_ok R (fun t s => run_tape_f orc cfg fcode pred f t 0 s)) by (intros t s; apply IH).
  pose proof (interp_closed orc cfg R R_refl R_trans step_closed_log _ Hrun unit
                (dispatch_f fcode pred (N.to_nat (Byte.to_N (nth ptr (to_data (nth_tape st tid)) x00))))
                {| fr_tid := tid; fr_ptr := S ptr |} st) as Hi.
  destruct (interp orc cfg _ _ _ st) as [a fr' st'|e fr' st'| |w]; simpl in *; try exact I; try exact Hi.
  specialize (IH tid (fr_ptr fr') st').
  destruct (run_tape_f orc cfg fcode pred f tid (fr_ptr fr') st'); simpl in *; try exact I; eapply R_trans; eauto.
Qed.

Lemma run_tape_b_closed :
  forall fuel tid ptr st, R_out R st (run_tape orc cfg fuel tid ptr st).
Proof. apply run_tape_closed; auto using step_closed_log. Qed.

End LogMono.

(* outcome of a computation that started tainted, or became tainted and went on *)
Definition div_ok {A} (o : outcome A) : Prop :=
  match o with Done _ _ s | Raised _ _ s => tainted s | OutOfFuel | Unmodelled _ => True end.

Section SoftForkProofs.
Variable orc : oracle.
Variable cfg : config.
Variable fcode : nat.
Variable pred : list bytes -> bool.

Notation run_tape_f := (run_tape_f orc cfg fcode pred).
Notation fork_op := (fork_op fcode pred).
Notation dispatch_f := (dispatch_f fcode pred).

Lemma step_closed_Rt : step_closed orc cfg Rt.
Proof. apply step_closed_log; eauto using Rt_refl, Rt_trans, Rt_same, Rt_cons. Qed.
Lemma step_closed_ext : step_closed orc cfg log_ext.
Proof. apply step_closed_log; eauto using log_ext_refl, log_ext_trans, log_ext_same, log_ext_cons. Qed.

(* the log only grows: instructions, the upgraded loop, the old loop *)
Theorem interp_log_grows run (Hrun : run_ok log_ext run) A (p : prog A) fr st :
  R_out log_ext st (interp orc cfg run p fr st).
Proof. apply interp_closed; eauto using log_ext_refl, log_ext_trans, step_closed_ext. Qed.
Theorem run_tape_f_log_grows fuel tid ptr st : R_out log_ext st (run_tape_f fuel tid ptr st).
Proof. apply run_tape_f_closed; eauto using log_ext_refl, log_ext_trans, log_ext_same, log_ext_cons. Qed.
Theorem run_tape_log_grows fuel tid ptr st : R_out log_ext st (run_tape orc cfg fuel tid ptr st).
Proof. apply run_tape_b_closed; eauto using log_ext_refl, log_ext_trans, log_ext_same, log_ext_cons. Qed.

(* hence taint is never lost *)
Theorem interp_keeps_taint run (Hrun : run_ok Rt run) A (p : prog A) fr st :
  R_out Rt st (interp orc cfg run p fr st).
Proof. apply interp_closed; eauto using Rt_refl, Rt_trans, step_closed_Rt. Qed.
Theorem run_tape_f_keeps_taint fuel tid ptr st : R_out Rt st (run_tape_f fuel tid ptr st).
Proof. apply run_tape_f_closed; eauto using Rt_refl, Rt_trans, Rt_same, Rt_cons. Qed.
Theorem run_tape_keeps_taint fuel tid ptr st : R_out Rt st (run_tape orc cfg fuel tid ptr st).
Proof. apply run_tape_b_closed; eauto using Rt_refl, Rt_trans, Rt_same, Rt_cons. Qed.

Lemma R_out_div A st (o : outcome A) : R_out Rt st o -> tainted st -> div_ok o.
Proof. destruct o; simpl; auto. Qed.

Lemma interp_tainted run (Hrun : run_ok Rt run) A (p : prog A) fr st :
  tainted st -> div_ok (interp orc cfg run p fr st).
Proof. apply R_out_div. apply interp_keeps_taint. exact Hrun. Qed.
Lemma run_tape_f_tainted fuel tid ptr st : tainted st -> div_ok (run_tape_f fuel tid ptr st).
Proof. apply R_out_div. apply run_tape_f_keeps_taint. Qed.

(* ================= 2. the forked op against NOP ================= *)

(* equal, or the fork side raised and says so in the log *)
Definition op_sim (o_f o_b : outcome unit) : Prop :=
  o_f = o_b \/ exists e fr s, o_f = Raised e fr s /\ tainted s.

(* neither op uses the runner, so the two runners may differ *)
Lemma fork_op_sim2 run1 run2 fr st :
  op_sim (interp orc cfg run1 fork_op fr st) (interp orc cfg run2 NOP fr st).
Proof.
  unfold SoftFork.fork_op, NOP, read, act. cbn [bind]. cbn [interp step]. cbv zeta.
  destruct (_ <? _); [left; reflexivity|].
  unfold b2i. destruct (bytes_to_int _) as [z|]; cbn [bind interp]; [|left; reflexivity].
  unfold sert. destruct (0 <=? z)%Z; cbn [bind interp]; [|left; reflexivity].
  rewrite !interp_bind.
  match goal with |- context [interp _ _ _ (repeat_get ?n) ?fr' ?st'] =>
    destruct (le_lt_dec n (List.length (st_stack st'))) as [Hle|Hlt] end.
  - rewrite !repeat_get_ok by exact Hle.
    destruct (pred _); cbn; [left; reflexivity|].
    right. eexists _, _, _. split; [reflexivity|]. exists fcode. simpl. left. reflexivity.
  - rewrite !repeat_get_underflow by exact Hlt. left; reflexivity.
Qed.

Theorem fork_op_sim run fr st :
  interp orc cfg run fork_op fr st = interp orc cfg run NOP fr st \/
  exists e fr' st', interp orc cfg run fork_op fr st = Raised e fr' st' /\ tainted st'.
Proof. apply fork_op_sim2. Qed.

(* ================= 3. simulation ================= *)

(* CHANGE with respect to the requested definition of [sim]: the second alternative also allows
   OutOfFuel and Unmodelled on the fork side.  With [False] there, the simulation theorem is false:
   after a fork-op raise is caught by OP_TRY_EXCEPT the fork side runs the EXCEPT clause, which the
   old VM never runs, and that clause may run out of fuel or reach an unmodelled construct while
   the old VM ends normally ([ex_fuel_divergence] below is such a run).  Those two outcomes carry
   no state, so "tainted" cannot be said of them.  Corollaries (a), (b) are about Done / verdict
   true and are not affected. *)
Definition sim {A} (o_f o_b : outcome A) : Prop := o_f = o_b \/ div_ok o_f.

Definition sres_div {X} (r : sres X) : Prop :=
  match r with SOk _ _ s | SRaise _ _ s => tainted s | SFuel | SUnmod _ => True end.

Section Inner.
Variable run_f run_b : nat -> state -> outcome unit.
Hypothesis Hsim : forall t s, sim (run_f t s) (run_b t s).
Hypothesis Hok : run_ok Rt run_f.

Lemma step_sim X (a : action X) fr st :
  step orc cfg run_f a fr st = step orc cfg run_b a fr st \/ sres_div (step orc cfg run_f a fr st).
Proof.
  destruct a; try (left; reflexivity); cbn [step]; unfold new_tape; cbv zeta;
    match goal with |- context [run_f ?t ?s] => destruct (Hsim t s) as [E|D] end;
    try (rewrite E; left; reflexivity);
    right; match goal with |- context [run_f ?t ?s] => destruct (run_f t s) end; simpl in *; auto.
Qed.

Lemma interp_sim A (p : prog A) :
  forall fr st, sim (interp orc cfg run_f p fr st) (interp orc cfg run_b p fr st).
Proof.
  induction p as [a|e|w|X a k IH]; intros fr st; cbn [interp]; try (left; reflexivity).
  destruct (step_sim X a fr st) as [E|D].
  - rewrite E. destruct (step orc cfg run_b a fr st); try (left; reflexivity). apply IH.
  - right. destruct (step orc cfg run_f a fr st); simpl in D |- *; auto.
    apply interp_tainted; assumption.
Qed.

End Inner.

Hypothesis Hfcode : opcode_of_nat fcode = None.

Theorem run_tape_sim :
  forall fuel tid ptr st, sim (run_tape_f fuel tid ptr st) (run_tape orc cfg fuel tid ptr st).
Proof.
  induction fuel as [|f IH]; intros tid ptr st; cbn [SoftFork.run_tape_f run_tape]; [left; reflexivity|].
  destruct (List.length (to_data (nth_tape st tid)) <=? ptr); [left; reflexivity|].
  generalize (N.to_nat (Byte.to_N (nth ptr (to_data (nth_tape st tid)) x00))); intro code.
  assert (Hop : sim (interp orc cfg (fun t s => run_tape_f f t 0 s) (dispatch_f code)
                            {| fr_tid := tid; fr_ptr := S ptr |} st)
                    (interp orc cfg (fun t s => run_tape orc cfg f t 0 s) (dispatch code)
                            {| fr_tid := tid; fr_ptr := S ptr |} st)).
  { unfold SoftFork.dispatch_f. destruct (Nat.eqb code fcode) eqn:E.
    - apply Nat.eqb_eq in E. subst code. unfold dispatch. rewrite Hfcode.
      destruct (fork_op_sim2 (fun t s => run_tape_f f t 0 s) (fun t s => run_tape orc cfg f t 0 s)
                             {| fr_tid := tid; fr_ptr := S ptr |} st) as [H|(e & fr' & s & H & T)].
      + left; exact H.
      + right. rewrite H. exact T.
    - apply interp_sim.
      + intros t s. apply IH.
      + intros t s. apply run_tape_f_keeps_taint. }
  destruct Hop as [E|D].
  - rewrite E. destruct (interp orc cfg _ (dispatch code) _ st); try (left; reflexivity). apply IH.
  - right. destruct (interp orc cfg _ (dispatch_f code) _ st); simpl in D |- *; auto.
    apply run_tape_f_tainted. exact D.
Qed.

(* ================= 4. corollaries ================= *)

(* The honest statement of "every script that does not wrap that op in a TRY block and authorizes
   on the upgraded VM also authorizes on a VM without the fork" carries the premise [~ tainted st]:
   the upgraded run ended with no fork-op raise in its log.  By item 1 the log is never cut, so this
   says that the fork op never raised during the run, in particular that no raise of it was caught
   by a TRY.  (A raise outside every TRY ends the run with Raised, which is not Done; a raise inside
   a TRY lets the run go on, possibly to Done / verdict true, but with the taint: see
   [taint_is_final] and the third example.)  A syntactic "contains no OP_TRY_EXCEPT" premise is not
   proved here: sub-tapes are decoded from data at run time (EVAL, definitions), so the premise
   would have to be a dynamic one anyway. *)

Theorem soft_fork_run_script fuel script vals fr st :
  run_script_f orc cfg fcode pred fuel script vals = Done tt fr st ->
  ~ tainted st ->
  run_script orc cfg fuel script vals = Done tt fr st.
Proof.
  unfold run_script_f, run_script. intros H NT.
  destruct (run_tape_sim fuel 0 0 (init_state cfg script vals)) as [E|D].
  - rewrite <- E. exact H.
  - rewrite H in D. simpl in D. contradiction.
Qed.

Definition auth_div (r : auth_result) : Prop :=
  match r with AuthVerdict _ s => tainted s | AuthFuel | AuthUnmod _ => True end.

Lemma auth_rest_f_tainted fuel scripts :
  forall prev st, tainted st -> auth_div (auth_rest_f orc cfg fcode pred fuel scripts prev st).
Proof.
  induction scripts as [|s rest IH]; intros prev st T; cbn [auth_rest_f].
  - destruct (st_stack st) as [|x [|y l]]; simpl; exact T.
  - unfold new_tape; cbv zeta.
    match goal with |- context [SoftFork.run_tape_f _ _ _ _ ?fu ?t ?p ?s] =>
      pose proof (run_tape_f_tainted fu t p s T) as H; destruct (SoftFork.run_tape_f orc cfg fcode pred fu t p s) end;
      simpl in *; auto.
Qed.

Lemma auth_rest_sim fuel scripts :
  forall prev st,
  auth_rest_f orc cfg fcode pred fuel scripts prev st = auth_rest orc cfg fuel scripts prev st \/
  auth_div (auth_rest_f orc cfg fcode pred fuel scripts prev st).
Proof.
  induction scripts as [|s rest IH]; intros prev st; cbn [auth_rest_f auth_rest]; [left; reflexivity|].
  unfold new_tape; cbv zeta.
  match goal with |- context [SoftFork.run_tape_f _ _ _ _ ?fu ?t ?p ?s] =>
    destruct (run_tape_sim fu t p s) as [E|D] end.
  - rewrite E. match goal with |- context [run_tape orc cfg ?fu ?t ?p ?s] =>
      destruct (run_tape orc cfg fu t p s) end; try (left; reflexivity). apply IH.
  - right. match goal with |- context [SoftFork.run_tape_f _ _ _ _ ?fu ?t ?p ?s] =>
      destruct (SoftFork.run_tape_f orc cfg fcode pred fu t p s) end; simpl in D |- *; auto.
    apply auth_rest_f_tainted. exact D.
Qed.

Lemma run_auth_sim fuel scripts vals :
  run_auth_scripts_f orc cfg fcode pred fuel scripts vals = run_auth_scripts orc cfg fuel scripts vals \/
  auth_div (run_auth_scripts_f orc cfg fcode pred fuel scripts vals).
Proof.
  destruct scripts as [|s rest]; [left; reflexivity|].
  unfold run_auth_scripts_f, run_auth_scripts, run_script_f, run_script.
  destruct (run_tape_sim fuel 0 0 (init_state cfg s vals)) as [E|D].
  - rewrite E. destruct (run_tape orc cfg fuel 0 0 (init_state cfg s vals)); try (left; reflexivity).
    apply auth_rest_sim.
  - right. destruct (run_tape_f fuel 0 0 (init_state cfg s vals)); simpl in D |- *; auto.
    apply auth_rest_f_tainted. exact D.
Qed.

Theorem soft_fork_auth fuel scripts vals st :
  run_auth_scripts_f orc cfg fcode pred fuel scripts vals = AuthVerdict true st ->
  ~ tainted st ->
  run_auth_scripts orc cfg fuel scripts vals = AuthVerdict true st.
Proof.
  intros H NT. destruct (run_auth_sim fuel scripts vals) as [E|D].
  - rewrite <- E. exact H.
  - rewrite H in D. simpl in D. contradiction.
Qed.

(* any verdict, not only true: an untainted upgraded run IS the old run *)
Theorem soft_fork_auth_any fuel scripts vals b st :
  run_auth_scripts_f orc cfg fcode pred fuel scripts vals = AuthVerdict b st ->
  ~ tainted st ->
  run_auth_scripts orc cfg fuel scripts vals = AuthVerdict b st.
Proof.
  intros H NT. destruct (run_auth_sim fuel scripts vals) as [E|D].
  - rewrite <- E. exact H.
  - rewrite H in D. simpl in D. contradiction.
Qed.

(* (c), the part that comes for free: once the fork op has raised, the taint stays to the end of the
   upgraded run, whatever TRY blocks do with the exception *)
Theorem taint_is_final fuel tid ptr st :
  tainted st ->
  match run_tape_f fuel tid ptr st with Done _ _ s | Raised _ _ s => tainted s | _ => True end.
Proof. apply run_tape_f_tainted. Qed.

End SoftForkProofs.

(* ================= 5. examples ================= *)

Module Ex.
Definition orc0 : oracle := fun _ _ => OErr OtherError.
Definition cfg0 : config := default_config 1000.
(* the forked op: "the single removed item must be true" *)
Definition pred0 (l : list bytes) : bool := match l with [x] => bytes_to_bool x | _ => true end.
Definition fc : nat := 200.

Lemma fc_unassigned : opcode_of_nat fc = None.
Proof. vm_compute. reflexivity. Qed.

Definition rf := run_script_f orc0 cfg0 fc pred0.
Definition rb := run_script orc0 cfg0.

Definition stack_of (o : outcome unit) : option (list bytes) :=
  match o with Done _ _ s => Some (st_stack s) | _ => None end.
Definition log_of (o : outcome unit) : list event :=
  match o with Done _ _ s | Raised _ _ s => st_log s | _ => [] end.
Definition raised (o : outcome unit) : option exn :=
  match o with Raised e _ _ => Some e | _ => None end.

Definition verdict (r : auth_result) : option bool :=
  match r with AuthVerdict b _ => Some b | _ => None end.

Definition op_push0 : byte := x02.
Definition op_true : byte := x01.
Definition op_try : byte := x3d.
Lemma op_bytes_ok :
  opcode_of_nat (N.to_nat (Byte.to_N op_push0)) = Some O_PUSH0 /\
  opcode_of_nat (N.to_nat (Byte.to_N op_true)) = Some O_TRUE /\
  opcode_of_nat (N.to_nat (Byte.to_N op_try)) = Some O_TRY_EXCEPT.
Proof. vm_compute. repeat split; reflexivity. Qed.

(* push x01 ; FORK 1 ; true *)
Definition s_ok : bytes := [op_push0; x01; xc8; x01; op_true].
(* push x00 ; FORK 1 ; true *)
Definition s_bad : bytes := [op_push0; x00; xc8; x01; op_true].
(* try { push x00 ; FORK 1 ; true } except { } ; true *)
Definition s_try : bytes := [op_try; x00; x05; op_push0; x00; xc8; x01; op_true; x00; x00; op_true].
(* try { push x00 ; FORK 1 } except { } ; true *)
Definition s_try2 : bytes := [op_try; x00; x04; op_push0; x00; xc8; x01; x00; x00; op_true].
(* try { push x00 ; FORK 1 } except { true ; true ; true } ; true *)
Definition s_try_long : bytes :=
  [op_try; x00; x04; op_push0; x00; xc8; x01; x00; x03; op_true; op_true; op_true; op_true].

(* the check passes: identical runs, stack [xff], empty log *)
Example ex_same :
  rf 10 s_ok [] = rb 10 s_ok [] /\ stack_of (rf 10 s_ok []) = Some [[xff]] /\ log_of (rf 10 s_ok []) = [].
Proof. vm_compute. repeat split; reflexivity. Qed.

(* the check fails outside a TRY: the upgraded VM raises (tainted), the old VM ends normally *)
Example ex_raise :
  raised (rf 10 s_bad []) = Some ScriptExecutionError /\ log_of (rf 10 s_bad []) = [EvEnter 200] /\
  stack_of (rb 10 s_bad []) = Some [[xff]] /\ log_of (rb 10 s_bad []) = [].
Proof. vm_compute. repeat split; reflexivity. Qed.

(* the check fails inside a TRY: both VMs end normally, the upgraded run is tainted, and the final
   stacks differ (the old VM went on inside the TRY body, the upgraded VM left it): without the
   [~ tainted] premise nothing relates the two final states *)
Example ex_try :
  stack_of (rf 10 s_try []) = Some [[xff]] /\ log_of (rf 10 s_try []) = [EvEnter 200] /\
  stack_of (rb 10 s_try []) = Some [[xff]; [xff]] /\ log_of (rb 10 s_try []) = [].
Proof. vm_compute. repeat split; reflexivity. Qed.

(* the same with the fork op last in the TRY body: equal stacks, but still different final states
   (the upgraded VM ran the EXCEPT path and left the exception name in the cache) *)
Example ex_try_cache :
  stack_of (rf 10 s_try2 []) = Some [[xff]] /\ stack_of (rb 10 s_try2 []) = Some [[xff]] /\
  log_of (rf 10 s_try2 []) = [EvEnter 200] /\ rf 10 s_try2 [] <> rb 10 s_try2 [].
Proof. vm_compute. repeat split; try reflexivity. discriminate. Qed.

(* why [sim] must allow OutOfFuel on the fork side: the EXCEPT clause, which only the upgraded VM
   runs, needs more fuel than is left; the old VM ends normally with the same fuel *)
Example ex_fuel_divergence :
  rf 4 s_try_long [] = OutOfFuel /\ stack_of (rb 4 s_try_long []) = Some [[xff]].
Proof. vm_compute. split; reflexivity. Qed.

(* authorization: the passing script authorizes on both VMs with the same final state; the TRY
   script authorizes on both, but the upgraded run is tainted and the final states differ *)
Example ex_auth :
  run_auth_scripts_f orc0 cfg0 fc pred0 10 [s_ok] [] = run_auth_scripts orc0 cfg0 10 [s_ok] [] /\
  verdict (run_auth_scripts_f orc0 cfg0 fc pred0 10 [s_ok] []) = Some true /\
  verdict (run_auth_scripts_f orc0 cfg0 fc pred0 10 [s_bad] []) = Some false /\
  verdict (run_auth_scripts orc0 cfg0 10 [s_bad] []) = Some true /\
  verdict (run_auth_scripts_f orc0 cfg0 fc pred0 10 [s_try2] []) = Some true /\
  verdict (run_auth_scripts orc0 cfg0 10 [s_try2] []) = Some true /\
  run_auth_scripts_f orc0 cfg0 fc pred0 10 [s_try2] [] <> run_auth_scripts orc0 cfg0 10 [s_try2] [].
Proof. vm_compute. repeat split; try reflexivity. discriminate. Qed.

(* the corollaries applied: an untainted successful upgraded run is a run of the old VM *)
Example ex_corollary : rb 10 s_ok [] = rf 10 s_ok [].
Proof.
  destruct (rf 10 s_ok []) as [[] fr st| | |] eqn:E; try (vm_compute in E; discriminate).
  apply (soft_fork_run_script orc0 cfg0 fc pred0 fc_unassigned 10 s_ok [] fr st E).
  vm_compute in E. injection E as _ <-. intros [n H]. exact H.
Qed.

End Ex.

Print Assumptions run_tape_sim.
Print Assumptions soft_fork_run_script.
Print Assumptions soft_fork_auth.
Print Assumptions fork_op_sim.
Print Assumptions run_tape_f_keeps_taint.
Print Assumptions Ex.ex_fuel_divergence.
