(* C10, float part: the binary32 codec round-trips bit-exactly in both directions and is total on 4-byte strings. *)
From Coq Require Import ZArith List Bool Lia.
From Coq.Strings Require Import Byte.
From Flocq Require Import IEEE754.Binary IEEE754.Bits.
From TS Require Import Bytes BytesLemmas FloatCodec.
Import ListNotations.
Open Scope Z_scope.

Lemma bits_range (x : binary32) : 0 <= bits_of_b32 x < 2 ^ 32.
Proof. exact (bits_of_binary_float_range 23 8 eq_refl eq_refl x). Qed.

Lemma float_to_bytes_length x : List.length (float_to_bytes x) = 4%nat.
Proof. apply length_Z_to_be. Qed.

Lemma be_float_to_bytes x : be_to_Z (float_to_bytes x) = bits_of_b32 x.
Proof.
  unfold float_to_bytes. rewrite be_to_Z_Z_to_be.
  apply Z.mod_small. pose proof (bits_range x). change (256 ^ Z.of_nat 4) with (2 ^ 32). lia.
Qed.

(* decode (encode x) = x for EVERY binary32 value: zeros of both signs, subnormals, normals, infinities, NaNs with
   their sign and payload *)
Theorem float_roundtrip (x : binary32) : bytes_to_float (float_to_bytes x) = Some x.
Proof.
  unfold bytes_to_float. rewrite float_to_bytes_length. cbn [Nat.eqb].
  rewrite be_float_to_bytes. f_equal.
  exact (binary_float_of_bits_of_binary_float 23 8 eq_refl eq_refl eq_refl x).
Qed.

(* encode (decode b) = b for EVERY 4-byte string; decoding is total on them *)
Theorem bytes_roundtrip (b : bytes) :
  List.length b = 4%nat -> exists x, bytes_to_float b = Some x /\ float_to_bytes x = b.
Proof.
  intro Hl. unfold bytes_to_float. rewrite Hl. cbn [Nat.eqb]. eexists. split; [reflexivity|].
  apply be_to_Z_inj; [rewrite float_to_bytes_length; symmetry; exact Hl|].
  rewrite be_float_to_bytes. unfold b32_of_bits, bits_of_b32.
  apply (bits_of_binary_float_of_bits 23 8 eq_refl eq_refl eq_refl).
  pose proof (be_to_Z_range b) as H. unfold blen in H. rewrite Hl in H.
  change (256 ^ Z.of_nat 4) with (2 ^ 32) in H. exact H.
Qed.

Theorem bytes_to_float_total (b : bytes) : bytes_to_float b <> None <-> List.length b = 4%nat.
Proof.
  unfold bytes_to_float. destruct (Nat.eqb (List.length b) 4) eqn:E.
  - apply Nat.eqb_eq in E. split; [intros _; exact E|discriminate].
  - apply Nat.eqb_neq in E. split; [intro H; exfalso; apply H; reflexivity|intro H; contradiction].
Qed.

Theorem float_to_bytes_injective (x y : binary32) : float_to_bytes x = float_to_bytes y -> x = y.
Proof.
  intro H. assert (E : bytes_to_float (float_to_bytes x) = bytes_to_float (float_to_bytes y)) by (rewrite H; reflexivity).
  rewrite !float_roundtrip in E. injection E as E. exact E.
Qed.

(* concrete patterns: +0, -0, 1.0, the smallest subnormal, +inf, a NaN with payload *)
Example float_examples :
  classify_bytes [x00;x00;x00;x00] = Some (FZero false) /\
  classify_bytes [x80;x00;x00;x00] = Some (FZero true) /\
  classify_bytes [x3f;x80;x00;x00] = Some (FFin false 8388608 (-23)) /\
  classify_bytes [x00;x00;x00;x01] = Some (FFin false 1 (-149)) /\
  classify_bytes [x7f;x80;x00;x00] = Some (FInf false) /\
  classify_bytes [xff;xc0;x00;x01] = Some (FNan true 4194305) /\
  roundtrip_bytes [xff;xc0;x00;x01] = Some [xff;xc0;x00;x01] /\
  classify_bytes [x00] = None.
Proof. vm_compute. repeat split; reflexivity. Qed.

Print Assumptions float_roundtrip.
Print Assumptions bytes_roundtrip.
Print Assumptions bytes_to_float_total.
Print Assumptions float_to_bytes_injective.
