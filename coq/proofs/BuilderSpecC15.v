(* C15: make_ptlc_lock / make_htlc_sha256_lock / make_htlc_shake256_lock with their witnesses — the
   authorisation verdict, exactly, at the level of the bytes the builders emit (Builders.v).
   New infrastructure: OP_IF_ELSE run by the real fetch/dispatch loop (sub-tape object, definitions copy,
   propagate_return), the two arm bodies run on the fresh tape object, the closing OP_CHECK_SIG. *)
From Coq Require Import ZArith List Bool Lia.
From Coq.Strings Require Import Byte String.
From TS Require Import Bytes Codec State Prog Ops Interp StateLemmas InterpLemmas NopSpec StackLemmas
  BytesLemmas TapeLemmas SigSpec ConfigSpec AuthSpec TimeSpec Asm Builders BuilderSpec.
Import ListNotations.
Local Open Scope nat_scope.

(* ---------- the emitted bytes, in a shape convenient for stepping ---------- *)

Definition ifelse_ops (b1 b2 : bytes) : bytes := len2 b1 ++ b1 ++ len2 b2 ++ b2.
Definition claim_arm (rcv : bytes) : bytes := push1_bytes rcv.
Definition refund_arm_bytes (c refund : bytes) : bytes := push1_bytes c ++ x26 :: push1_bytes refund.

Definition ptlc_claim_witness (sig : bytes) : bytes := encode [P1 sig; IOp0 O_TRUE].
Definition ptlc_refund_witness (sig : bytes) : bytes := encode [P1 sig; IOp0 O_FALSE].
Definition htlc_witness (sig preimage : bytes) : bytes := encode [P1 sig; P1 preimage].

Lemma arms_encoding rcv c refund :
  encode [IIfElse [P1 rcv] (refund_arm c refund)] =
    x2c :: ifelse_ops (claim_arm rcv) (refund_arm_bytes c refund).
Proof.
  unfold encode, refund_arm, P1, ifelse_ops, claim_arm, refund_arm_bytes, push1_bytes, len1.
  cbn [flat_map encode1]. rewrite !app_nil_r.
  change (opcode_byte O_IF_ELSE) with x2c. change (opcode_byte O_PUSH1) with x03.
  change (opcode_byte O_CHECK_TIMESTAMP_VERIFY) with x26.
  reflexivity.
Qed.

Lemma ptlc_lock_bytes rcv c refund fl :
  ptlc_lock rcv c refund fl =
    [x2c] ++ ifelse_ops (claim_arm rcv) (refund_arm_bytes c refund) ++ [x23; fl].
Proof.
  unfold ptlc_lock.
  replace (encode [IIfElse [P1 rcv] (refund_arm c refund); IOp1 O_CHECK_SIG fl])
    with (encode [IIfElse [P1 rcv] (refund_arm c refund)] ++ [x23; fl])
    by (unfold encode; cbn [flat_map]; rewrite !app_nil_r; reflexivity).
  rewrite arms_encoding. reflexivity.
Qed.

Lemma htlc_sha256_lock_bytes digest rcv c refund fl :
  htlc_sha256_lock digest rcv c refund fl =
    (x1e :: push1_bytes digest ++ [x21; x2c]) ++
    ifelse_ops (claim_arm rcv) (refund_arm_bytes c refund) ++ [x23; fl].
Proof.
  unfold htlc_sha256_lock.
  replace (encode [IOp0 O_SHA256; P1 digest; IOp0 O_EQUAL; IIfElse [P1 rcv] (refund_arm c refund); IOp1 O_CHECK_SIG fl])
    with ((x1e :: push1_bytes digest ++ [x21]) ++ encode [IIfElse [P1 rcv] (refund_arm c refund)] ++ [x23; fl])
    by (unfold encode; cbn [flat_map]; rewrite !app_nil_r;
        set (E := encode1 (IIfElse _ _)); unfold P1, push1_bytes; cbn [encode1 app];
        rewrite <- ?app_assoc; cbn [app]; reflexivity).
  rewrite arms_encoding. cbn [app]. rewrite <- ?app_assoc. cbn [app]. reflexivity.
Qed.

Lemma htlc_shake256_lock_bytes n digest rcv c refund fl :
  htlc_shake256_lock n digest rcv c refund fl =
    (x1f :: n :: push1_bytes digest ++ [x21; x2c]) ++
    ifelse_ops (claim_arm rcv) (refund_arm_bytes c refund) ++ [x23; fl].
Proof.
  unfold htlc_shake256_lock.
  replace (encode [IOp1 O_SHAKE256 n; P1 digest; IOp0 O_EQUAL; IIfElse [P1 rcv] (refund_arm c refund); IOp1 O_CHECK_SIG fl])
    with ((x1f :: n :: push1_bytes digest ++ [x21]) ++ encode [IIfElse [P1 rcv] (refund_arm c refund)] ++ [x23; fl])
    by (unfold encode; cbn [flat_map]; rewrite !app_nil_r;
        set (E := encode1 (IIfElse _ _)); unfold P1, push1_bytes; cbn [encode1 app];
        rewrite <- ?app_assoc; cbn [app]; reflexivity).
  rewrite arms_encoding. cbn [app]. rewrite <- ?app_assoc. cbn [app]. reflexivity.
Qed.

Lemma ptlc_claim_witness_bytes sig : ptlc_claim_witness sig = push1_bytes sig ++ [x01].
Proof. unfold ptlc_claim_witness, encode. cbn [flat_map]. rewrite !app_nil_r. reflexivity. Qed.
Lemma ptlc_refund_witness_bytes sig : ptlc_refund_witness sig = push1_bytes sig ++ [x00].
Proof. unfold ptlc_refund_witness, encode. cbn [flat_map]. rewrite !app_nil_r. reflexivity. Qed.
Lemma htlc_witness_bytes sig pre : htlc_witness sig pre = push1_bytes sig ++ push1_bytes pre.
Proof. unfold htlc_witness, encode. cbn [flat_map]. rewrite !app_nil_r. reflexivity. Qed.

Lemma be_len2 (b : bytes) : (blen b < 65536)%Z -> be_to_Z (len2 b) = blen b.
Proof.
  intro H. unfold len2. rewrite be_to_Z_Z_to_be. apply Z.mod_small.
  split; [apply blen_nonneg|exact H].
Qed.
Lemma length_len2 (b : bytes) : List.length (len2 b) = 2.
Proof. apply length_Z_to_be. Qed.

(* ---------- the state in which the body of IF / IF_ELSE starts ---------- *)

Definition sub_start (st : state) (tid : nat) (body : bytes) : state :=
  with_tapes (with_defs st (st_defs st ++ [nth_defs st (to_defs (nth_tape st tid))]))
    (st_tapes st ++ [{| to_data := body; to_count := to_count (nth_tape st tid);
                        to_defs := List.length (st_defs st) |}]).

Lemma tdata_sub_new st tid body : tdata (sub_start st tid body) (List.length (st_tapes st)) = body.
Proof.
  unfold tdata, nth_tape, sub_start. cbn [st_tapes with_tapes].
  rewrite app_nth2 by lia. rewrite Nat.sub_diag. reflexivity.
Qed.

Lemma tdata_sub_old st tid body t :
  t < List.length (st_tapes st) -> tdata (sub_start st tid body) t = tdata st t.
Proof.
  intro H. unfold tdata, nth_tape, sub_start. cbn [st_tapes with_tapes with_defs].
  rewrite app_nth1 by exact H. reflexivity.
Qed.

Section Gen.
Variable orc : oracle.
Variable cfg : config.
Variable run : nat -> state -> outcome unit.

(* read of n bytes (n = 0 allowed) at a known position of the current tape *)
Lemma read_at A (k : bytes -> prog A) tid ptr st (P v rest : bytes) n :
  tdata st tid = P ++ v ++ rest -> ptr = List.length P -> Z.to_nat n = List.length v ->
  interp orc cfg run (Act (ARead n) k) {| fr_tid := tid; fr_ptr := ptr |} st =
    interp orc cfg run (k v) {| fr_tid := tid; fr_ptr := ptr + List.length v |} st.
Proof.
  intros Hd -> Hn. cbn [interp step]. unfold cur. cbn [fr_tid fr_ptr]. unfold tdata in Hd.
  rewrite Hd, Hn. rewrite !app_length.
  destruct (_ <? _) eqn:E; [apply Nat.ltb_lt in E; lia|].
  rewrite skipn_after. rewrite firstn_app, Nat.sub_diag, firstn_all. cbn [firstn]. rewrite app_nil_r.
  reflexivity.
Qed.

Lemma runsub_step A (k : unit -> prog A) tid ptr st data :
  interp orc cfg run (Act (ARunSub SubCopy data) k) {| fr_tid := tid; fr_ptr := ptr |} st =
    match run (List.length (st_tapes st)) (sub_start st tid data) with
    | Done _ _ st' => interp orc cfg run (k tt) {| fr_tid := tid; fr_ptr := ptr |} st'
    | Raised e _ st' => Raised e {| fr_tid := tid; fr_ptr := ptr |} st'
    | OutOfFuel => OutOfFuel
    | Unmodelled w => Unmodelled w
    end.
Proof.
  transitivity
    (match after_run {| fr_tid := tid; fr_ptr := ptr |} (run (List.length (st_tapes st)) (sub_start st tid data)) with
     | SOk x fr' st' => interp orc cfg run (k x) fr' st'
     | SRaise e fr' st' => Raised e fr' st'
     | SFuel => OutOfFuel
     | SUnmod w => Unmodelled w
     end).
  - reflexivity.
  - destruct (run _ _) as [[] fr' st'|e fr' st'| |w]; reflexivity.
Qed.

Lemma propagate_none fr st :
  cache_get (st_cache st) returned_key = None ->
  interp orc cfg run propagate_return fr st = Done tt fr st.
Proof. intro H. unfold propagate_return, act. cbn [bind interp step]. rewrite H. reflexivity. Qed.

(* OP_IF_ELSE, the pointer standing just behind the opcode: both bodies are read, the condition is popped,
   a NEW tape object holding the selected body (same call count, a NEW copy of the definition table) is
   run from offset 0, then the control flag is propagated *)
Lemma if_else_exec tid st ptr (pre b1 b2 tail : bytes) cond s :
  tdata st tid = pre ++ ifelse_ops b1 b2 ++ tail -> ptr = List.length pre ->
  (blen b1 < 65536)%Z -> (blen b2 < 65536)%Z ->
  st_stack st = cond :: s ->
  interp orc cfg run OP_IF_ELSE {| fr_tid := tid; fr_ptr := ptr |} st =
    let fr' := {| fr_tid := tid; fr_ptr := ptr + List.length (ifelse_ops b1 b2) |} in
    match run (List.length (st_tapes st))
              (sub_start (with_stack st s) tid (if bytes_to_bool cond then b1 else b2)) with
    | Done _ _ st' => interp orc cfg run propagate_return fr' st'
    | Raised e _ st' => Raised e fr' st'
    | OutOfFuel => OutOfFuel
    | Unmodelled w => Unmodelled w
    end.
Proof.
  intros Hd Hp H1 H2 Hs.
  assert (Hd' : tdata st tid = pre ++ len2 b1 ++ b1 ++ len2 b2 ++ b2 ++ tail).
  { rewrite Hd. unfold ifelse_ops. rewrite <- !app_assoc. reflexivity. }
  unfold OP_IF_ELSE, read_u16, read, get, act. cbn [bind].
  rewrite (read_at _ _ tid ptr st pre (len2 b1) (b1 ++ len2 b2 ++ b2 ++ tail) 2 Hd' Hp)
    by (rewrite length_len2; reflexivity).
  cbn [bind]. rewrite be_len2 by exact H1.
  rewrite (read_at _ _ tid _ st (pre ++ len2 b1) b1 (len2 b2 ++ b2 ++ tail) (blen b1))
    by (first [ rewrite Hd', <- !app_assoc; reflexivity | rewrite app_length; subst ptr; reflexivity
              | unfold blen; apply Nat2Z.id ]).
  cbn [bind].
  rewrite (read_at _ _ tid _ st (pre ++ len2 b1 ++ b1) (len2 b2) (b2 ++ tail) 2)
    by (first [ rewrite Hd', <- !app_assoc; reflexivity | rewrite !app_length; subst ptr; lia
              | rewrite length_len2; reflexivity ]).
  cbn [bind]. rewrite be_len2 by exact H2.
  rewrite (read_at _ _ tid _ st (pre ++ len2 b1 ++ b1 ++ len2 b2) b2 tail (blen b2))
    by (first [ rewrite Hd', <- !app_assoc; reflexivity | rewrite !app_length; subst ptr; lia
              | unfold blen; apply Nat2Z.id ]).
  cbn [bind].
  rewrite (get_step orc cfg run _ _ _ st cond s Hs).
  rewrite runsub_step. cbv zeta.
  replace (ptr + List.length (len2 b1) + List.length b1 + List.length (len2 b2) + List.length b2)
    with (ptr + List.length (ifelse_ops b1 b2)) by (unfold ifelse_ops; rewrite !app_length; lia).
  reflexivity.
Qed.

End Gen.

(* ---------- stepping run_tape with an explicit pointer ---------- *)
Section Run.
Variable orc : oracle.
Variable cfg : config.

Notation sub f := (fun t s0 => run_tape orc cfg f t 0 s0).

Lemma fetch_at f tid st ptr (pre : bytes) c tail :
  tdata st tid = pre ++ c :: tail -> ptr = List.length pre ->
  run_tape orc cfg (S f) tid ptr st =
    match interp orc cfg (sub f) (dispatch (N.to_nat (Byte.to_N c))) {| fr_tid := tid; fr_ptr := S ptr |} st with
    | Done _ fr' st' => run_tape orc cfg f tid (fr_ptr fr') st'
    | Raised e fr' st' => Raised e fr' st'
    | OutOfFuel => OutOfFuel
    | Unmodelled w => Unmodelled w
    end.
Proof. intros H ->. apply run_tape_fetch with (tail := tail). exact H. Qed.

Lemma push1_at run tid st ptr (pre v tail : bytes) s :
  tdata st tid = pre ++ z2b (blen v) :: v ++ tail -> ptr = List.length pre ->
  List.length v < 256 -> st_stack st = s -> fits cfg v -> space cfg s ->
  interp orc cfg run OP_PUSH1 {| fr_tid := tid; fr_ptr := ptr |} st =
    Done tt {| fr_tid := tid; fr_ptr := ptr + 1 + List.length v |} (with_stack st (v :: s)).
Proof. intros H -> H1 H2 H3 H4. apply push1_exec with (tail := tail); assumption. Qed.

(* a tape consisting of one PUSH1 (the claim arm; also the single-signature witness) *)
Lemma push1_tape_runs f tid st v s :
  tdata st tid = push1_bytes v -> List.length v < 256 -> st_stack st = s ->
  fits cfg v -> space cfg s ->
  run_tape orc cfg (S (S f)) tid 0 st =
    Done tt {| fr_tid := tid; fr_ptr := 2 + List.length v |} (with_stack st (v :: s)).
Proof.
  intros Hd Hl Hs Hf Hsp.
  assert (Hd0 : tdata st tid = [] ++ x03 :: (z2b (blen v) :: v ++ [])).
  { rewrite Hd. unfold push1_bytes. rewrite app_nil_r. reflexivity. }
  rewrite (fetch_at _ tid st 0 [] x03 _ Hd0 eq_refl).
  change (dispatch (N.to_nat (Byte.to_N x03))) with OP_PUSH1.
  rewrite (push1_at _ tid st 1 [x03] v [] s Hd0 eq_refl Hl Hs Hf Hsp).
  cbn [fr_ptr].
  rewrite run_tape_end; [reflexivity|].
  change (tdata (with_stack st (v :: s)) tid) with (tdata st tid).
  rewrite Hd. unfold push1_bytes. simpl. lia.
Qed.

(* the refund arm: PUSH1 c ; CHECK_TIMESTAMP_VERIFY ; PUSH1 refund *)
Lemma refund_arm_runs f tid st c refund s ts thr :
  tdata st tid = refund_arm_bytes c refund ->
  0 < List.length c < 256 -> List.length refund < 256 -> st_stack st = s ->
  fits cfg c -> fits cfg refund -> S (List.length s) < c_max_items cfg ->
  cache_get (st_cache st) ts_key = Some (VOne (AInt ts)) ->
  flag_get (c_flags cfg) thr_key = Some (FVInt thr) ->
  run_tape orc cfg (S (S (S (S f)))) tid 0 st =
    if ts_verdict cfg (be_to_Z c) ts thr
    then Done tt {| fr_tid := tid; fr_ptr := List.length (refund_arm_bytes c refund) |}
              (with_stack st (refund :: s))
    else Raised ScriptExecutionError {| fr_tid := tid; fr_ptr := 3 + List.length c |} (with_stack st s).
Proof.
  intros Hd Hc Hr Hs Fc Fr Hsp Hts Hthr.
  assert (Hd0 : tdata st tid = [] ++ x03 :: (z2b (blen c) :: c ++ x26 :: push1_bytes refund)).
  { rewrite Hd. reflexivity. }
  rewrite (fetch_at _ tid st 0 [] x03 _ Hd0 eq_refl).
  change (dispatch (N.to_nat (Byte.to_N x03))) with OP_PUSH1.
  rewrite (push1_at _ tid st 1 [x03] c (x26 :: push1_bytes refund) s Hd0 eq_refl) ;
    [ | lia | exact Hs | exact Fc | unfold space; lia ].
  cbn [fr_ptr].
  set (st1 := with_stack st (c :: s)).
  assert (Hd1 : tdata st1 tid = push1_bytes c ++ x26 :: push1_bytes refund) by exact Hd.
  rewrite (fetch_at _ tid st1 _ (push1_bytes c) x26 _ Hd1) by (unfold push1_bytes; simpl; lia).
  change (dispatch (N.to_nat (Byte.to_N x26))) with OP_CHECK_TIMESTAMP_VERIFY.
  rewrite (check_timestamp_verify_spec orc cfg _ _ st1 c s ts thr); try assumption; try reflexivity.
  2:{ destruct c; [simpl in Hc; lia|discriminate]. }
  2:{ unfold room. unfold fits in Fc. lia. }
  destruct (ts_verdict cfg (be_to_Z c) ts thr).
  2:{ reflexivity. }
  cbn [fr_ptr]. change (with_stack st1 s) with (with_stack st s).
  set (st2 := with_stack st s).
  assert (Hd2 : tdata st2 tid = (push1_bytes c ++ [x26]) ++ x03 :: (z2b (blen refund) :: refund ++ [])).
  { change (tdata st2 tid) with (tdata st tid). rewrite Hd. unfold refund_arm_bytes.
    rewrite <- app_assoc, app_nil_r. reflexivity. }
  rewrite (fetch_at _ tid st2 _ (push1_bytes c ++ [x26]) x03 _ Hd2)
    by (rewrite app_length; unfold push1_bytes; simpl; lia).
  change (dispatch (N.to_nat (Byte.to_N x03))) with OP_PUSH1.
  assert (Hd3 : tdata st2 tid = ((push1_bytes c ++ [x26]) ++ [x03]) ++ z2b (blen refund) :: refund ++ []).
  { rewrite Hd2, <- (app_assoc (push1_bytes c ++ [x26]) [x03]). reflexivity. }
  rewrite (push1_at _ tid st2 _ _ refund [] s Hd3);
    [ | rewrite !app_length; unfold push1_bytes; simpl; lia | exact Hr | reflexivity | exact Fr | unfold space; lia ].
  cbn [fr_ptr].
  rewrite run_tape_end.
  - f_equal. f_equal. unfold refund_arm_bytes, push1_bytes. rewrite app_length. simpl. lia.
  - change (tdata (with_stack st2 (refund :: s)) tid) with (tdata st tid).
    rewrite Hd. unfold refund_arm_bytes, push1_bytes. rewrite app_length. simpl. lia.
Qed.

End Run.
