(* C15: make_ptlc_lock / make_htlc_sha256_lock / make_htlc_shake256_lock with their witnesses — the
   authorisation verdict, exactly, at the level of the bytes the builders emit (Builders.v).
   New infrastructure: OP_IF_ELSE run by the real fetch/dispatch loop (sub-tape object, definitions copy,
   propagate_return), the two arm bodies run on the fresh tape object, the closing OP_CHECK_SIG. *)
From Coq Require Import ZArith List Bool Lia.
From Coq.Strings Require Import Byte String.
From TS Require Import Bytes Codec State Prog Ops Interp StateLemmas InterpLemmas NopSpec StackLemmas
  BytesLemmas TapeLemmas SigSpec ConfigSpec AuthSpec TimeSpec Asm Builders BuilderSpec.
Import ListNotations.
Local Open Scope nat_scope.

(* ---------- the emitted bytes, in a shape convenient for stepping ---------- *)

Definition ifelse_ops (b1 b2 : bytes) : bytes := len2 b1 ++ b1 ++ len2 b2 ++ b2.
Definition claim_arm (rcv : bytes) : bytes := push1_bytes rcv.
Definition refund_arm_bytes (c refund : bytes) : bytes := push1_bytes c ++ x26 :: push1_bytes refund.

Definition ptlc_claim_witness (sig : bytes) : bytes := encode [P1 sig; IOp0 O_TRUE].
Definition ptlc_refund_witness (sig : bytes) : bytes := encode [P1 sig; IOp0 O_FALSE].
Definition htlc_witness (sig preimage : bytes) : bytes := encode [P1 sig; P1 preimage].

Lemma arms_encoding rcv c refund :
  encode [IIfElse [P1 rcv] (refund_arm c refund)] =
    x2c :: ifelse_ops (claim_arm rcv) (refund_arm_bytes c refund).
Proof.
  unfold encode, refund_arm, P1, ifelse_ops, claim_arm, refund_arm_bytes, push1_bytes, len1.
  cbn [flat_map encode1]. rewrite !app_nil_r.
  change (opcode_byte O_IF_ELSE) with x2c. change (opcode_byte O_PUSH1) with x03.
  change (opcode_byte O_CHECK_TIMESTAMP_VERIFY) with x26.
  reflexivity.
Qed.

Lemma ptlc_lock_bytes rcv c refund fl :
  ptlc_lock rcv c refund fl =
    [x2c] ++ ifelse_ops (claim_arm rcv) (refund_arm_bytes c refund) ++ [x23; fl].
Proof.
  unfold ptlc_lock.
  replace (encode [IIfElse [P1 rcv] (refund_arm c refund); IOp1 O_CHECK_SIG fl])
    with (encode [IIfElse [P1 rcv] (refund_arm c refund)] ++ [x23; fl])
    by (unfold encode; cbn [flat_map]; rewrite !app_nil_r; reflexivity).
  rewrite arms_encoding. reflexivity.
Qed.

Lemma htlc_sha256_lock_bytes digest rcv c refund fl :
  htlc_sha256_lock digest rcv c refund fl =
    (x1e :: push1_bytes digest ++ [x21; x2c]) ++
    ifelse_ops (claim_arm rcv) (refund_arm_bytes c refund) ++ [x23; fl].
Proof.
  unfold htlc_sha256_lock.
  replace (encode [IOp0 O_SHA256; P1 digest; IOp0 O_EQUAL; IIfElse [P1 rcv] (refund_arm c refund); IOp1 O_CHECK_SIG fl])
    with ((x1e :: push1_bytes digest ++ [x21]) ++ encode [IIfElse [P1 rcv] (refund_arm c refund)] ++ [x23; fl])
    by (unfold encode; cbn [flat_map]; rewrite !app_nil_r;
        set (E := encode1 (IIfElse _ _)); unfold P1, push1_bytes; cbn [encode1 app];
        rewrite <- ?app_assoc; cbn [app]; reflexivity).
  rewrite arms_encoding. cbn [app]. rewrite <- ?app_assoc. cbn [app]. reflexivity.
Qed.

Lemma htlc_shake256_lock_bytes n digest rcv c refund fl :
  htlc_shake256_lock n digest rcv c refund fl =
    (x1f :: n :: push1_bytes digest ++ [x21; x2c]) ++
    ifelse_ops (claim_arm rcv) (refund_arm_bytes c refund) ++ [x23; fl].
Proof.
  unfold htlc_shake256_lock.
  replace (encode [IOp1 O_SHAKE256 n; P1 digest; IOp0 O_EQUAL; IIfElse [P1 rcv] (refund_arm c refund); IOp1 O_CHECK_SIG fl])
    with ((x1f :: n :: push1_bytes digest ++ [x21]) ++ encode [IIfElse [P1 rcv] (refund_arm c refund)] ++ [x23; fl])
    by (unfold encode; cbn [flat_map]; rewrite !app_nil_r;
        set (E := encode1 (IIfElse _ _)); unfold P1, push1_bytes; cbn [encode1 app];
        rewrite <- ?app_assoc; cbn [app]; reflexivity).
  rewrite arms_encoding. cbn [app]. rewrite <- ?app_assoc. cbn [app]. reflexivity.
Qed.

Lemma ptlc_claim_witness_bytes sig : ptlc_claim_witness sig = push1_bytes sig ++ [x01].
Proof. unfold ptlc_claim_witness, encode. cbn [flat_map]. rewrite !app_nil_r. reflexivity. Qed.
Lemma ptlc_refund_witness_bytes sig : ptlc_refund_witness sig = push1_bytes sig ++ [x00].
Proof. unfold ptlc_refund_witness, encode. cbn [flat_map]. rewrite !app_nil_r. reflexivity. Qed.
Lemma htlc_witness_bytes sig pre : htlc_witness sig pre = push1_bytes sig ++ push1_bytes pre.
Proof. unfold htlc_witness, encode. cbn [flat_map]. rewrite !app_nil_r. reflexivity. Qed.

Lemma be_len2 (b : bytes) : (blen b < 65536)%Z -> be_to_Z (len2 b) = blen b.
Proof.
  intro H. unfold len2. rewrite be_to_Z_Z_to_be. apply Z.mod_small.
  split; [apply blen_nonneg|exact H].
Qed.
Lemma length_len2 (b : bytes) : List.length (len2 b) = 2.
Proof. apply length_Z_to_be. Qed.

(* ---------- the state in which the body of IF / IF_ELSE starts ---------- *)

Definition sub_start (st : state) (tid : nat) (body : bytes) : state :=
  with_tapes (with_defs st (st_defs st ++ [nth_defs st (to_defs (nth_tape st tid))]))
    (st_tapes st ++ [{| to_data := body; to_count := to_count (nth_tape st tid);
                        to_defs := List.length (st_defs st) |}]).

Lemma tdata_sub_new st tid body : tdata (sub_start st tid body) (List.length (st_tapes st)) = body.
Proof.
  unfold tdata, nth_tape, sub_start. cbn [st_tapes with_tapes].
  rewrite app_nth2 by lia. rewrite Nat.sub_diag. reflexivity.
Qed.

Lemma tdata_sub_old st tid body t :
  t < List.length (st_tapes st) -> tdata (sub_start st tid body) t = tdata st t.
Proof.
  intro H. unfold tdata, nth_tape, sub_start. cbn [st_tapes with_tapes with_defs].
  rewrite app_nth1 by exact H. reflexivity.
Qed.

Section Gen.
Variable orc : oracle.
Variable cfg : config.
Variable run : nat -> state -> outcome unit.

(* read of n bytes (n = 0 allowed) at a known position of the current tape *)
Lemma read_at A (k : bytes -> prog A) tid ptr st (P v rest : bytes) n :
  tdata st tid = P ++ v ++ rest -> ptr = List.length P -> Z.to_nat n = List.length v ->
  interp orc cfg run (Act (ARead n) k) {| fr_tid := tid; fr_ptr := ptr |} st =
    interp orc cfg run (k v) {| fr_tid := tid; fr_ptr := ptr + List.length v |} st.
Proof.
  intros Hd -> Hn. cbn [interp step]. unfold cur. cbn [fr_tid fr_ptr]. unfold tdata in Hd.
  rewrite Hd, Hn. rewrite !app_length.
  destruct (_ <? _) eqn:E; [apply Nat.ltb_lt in E; lia|].
  rewrite skipn_after. rewrite firstn_app, Nat.sub_diag, firstn_all. cbn [firstn]. rewrite app_nil_r.
  reflexivity.
Qed.

Lemma runsub_step A (k : unit -> prog A) tid ptr st data :
  interp orc cfg run (Act (ARunSub SubCopy data) k) {| fr_tid := tid; fr_ptr := ptr |} st =
    match run (List.length (st_tapes st)) (sub_start st tid data) with
    | Done _ _ st' => interp orc cfg run (k tt) {| fr_tid := tid; fr_ptr := ptr |} st'
    | Raised e _ st' => Raised e {| fr_tid := tid; fr_ptr := ptr |} st'
    | OutOfFuel => OutOfFuel
    | Unmodelled w => Unmodelled w
    end.
Proof.
  transitivity
    (match after_run {| fr_tid := tid; fr_ptr := ptr |} (run (List.length (st_tapes st)) (sub_start st tid data)) with
     | SOk x fr' st' => interp orc cfg run (k x) fr' st'
     | SRaise e fr' st' => Raised e fr' st'
     | SFuel => OutOfFuel
     | SUnmod w => Unmodelled w
     end).
  - reflexivity.
  - destruct (run _ _) as [[] fr' st'|e fr' st'| |w]; reflexivity.
Qed.

Lemma propagate_none fr st :
  cache_get (st_cache st) returned_key = None ->
  interp orc cfg run propagate_return fr st = Done tt fr st.
Proof. intro H. unfold propagate_return, act. cbn [bind interp step]. rewrite H. reflexivity. Qed.

(* OP_IF_ELSE, the pointer standing just behind the opcode: both bodies are read, the condition is popped,
   a NEW tape object holding the selected body (same call count, a NEW copy of the definition table) is
   run from offset 0, then the control flag is propagated *)
Lemma if_else_exec tid st ptr (pre b1 b2 tail : bytes) cond s :
  tdata st tid = pre ++ ifelse_ops b1 b2 ++ tail -> ptr = List.length pre ->
  (blen b1 < 65536)%Z -> (blen b2 < 65536)%Z ->
  st_stack st = cond :: s ->
  interp orc cfg run OP_IF_ELSE {| fr_tid := tid; fr_ptr := ptr |} st =
    let fr' := {| fr_tid := tid; fr_ptr := ptr + List.length (ifelse_ops b1 b2) |} in
    match run (List.length (st_tapes st))
              (sub_start (with_stack st s) tid (if bytes_to_bool cond then b1 else b2)) with
    | Done _ _ st' => interp orc cfg run propagate_return fr' st'
    | Raised e _ st' => Raised e fr' st'
    | OutOfFuel => OutOfFuel
    | Unmodelled w => Unmodelled w
    end.
Proof.
  intros Hd Hp H1 H2 Hs.
  assert (Hd' : tdata st tid = pre ++ len2 b1 ++ b1 ++ len2 b2 ++ b2 ++ tail).
  { rewrite Hd. unfold ifelse_ops. rewrite <- !app_assoc. reflexivity. }
  unfold OP_IF_ELSE, read_u16, read, get, act. cbn [bind].
  rewrite (read_at _ _ tid ptr st pre (len2 b1) (b1 ++ len2 b2 ++ b2 ++ tail) 2 Hd' Hp)
    by (rewrite length_len2; reflexivity).
  cbn [bind]. rewrite be_len2 by exact H1.
  rewrite (read_at _ _ tid _ st (pre ++ len2 b1) b1 (len2 b2 ++ b2 ++ tail) (blen b1))
    by (first [ rewrite Hd', <- !app_assoc; reflexivity | rewrite app_length; subst ptr; reflexivity
              | unfold blen; apply Nat2Z.id ]).
  cbn [bind].
  rewrite (read_at _ _ tid _ st (pre ++ len2 b1 ++ b1) (len2 b2) (b2 ++ tail) 2)
    by (first [ rewrite Hd', <- !app_assoc; reflexivity | rewrite !app_length; subst ptr; lia
              | rewrite length_len2; reflexivity ]).
  cbn [bind]. rewrite be_len2 by exact H2.
  rewrite (read_at _ _ tid _ st (pre ++ len2 b1 ++ b1 ++ len2 b2) b2 tail (blen b2))
    by (first [ rewrite Hd', <- !app_assoc; reflexivity | rewrite !app_length; subst ptr; lia
              | unfold blen; apply Nat2Z.id ]).
  cbn [bind].
  rewrite (get_step orc cfg run _ _ _ st cond s Hs).
  rewrite runsub_step. cbv zeta.
  replace (ptr + List.length (len2 b1) + List.length b1 + List.length (len2 b2) + List.length b2)
    with (ptr + List.length (ifelse_ops b1 b2)) by (unfold ifelse_ops; rewrite !app_length; lia).
  reflexivity.
Qed.

End Gen.

(* ---------- stepping run_tape with an explicit pointer ---------- *)
Section Run.
Variable orc : oracle.
Variable cfg : config.

Notation sub f := (fun t s0 => run_tape orc cfg f t 0 s0).

Lemma fetch_at f tid st ptr (pre : bytes) c tail :
  tdata st tid = pre ++ c :: tail -> ptr = List.length pre ->
  run_tape orc cfg (S f) tid ptr st =
    match interp orc cfg (sub f) (dispatch (N.to_nat (Byte.to_N c))) {| fr_tid := tid; fr_ptr := S ptr |} st with
    | Done _ fr' st' => run_tape orc cfg f tid (fr_ptr fr') st'
    | Raised e fr' st' => Raised e fr' st'
    | OutOfFuel => OutOfFuel
    | Unmodelled w => Unmodelled w
    end.
Proof. intros H ->. apply run_tape_fetch with (tail := tail). exact H. Qed.

Lemma push1_at run tid st ptr (pre v tail : bytes) s :
  tdata st tid = pre ++ z2b (blen v) :: v ++ tail -> ptr = List.length pre ->
  List.length v < 256 -> st_stack st = s -> fits cfg v -> space cfg s ->
  interp orc cfg run OP_PUSH1 {| fr_tid := tid; fr_ptr := ptr |} st =
    Done tt {| fr_tid := tid; fr_ptr := ptr + 1 + List.length v |} (with_stack st (v :: s)).
Proof. intros H -> H1 H2 H3 H4. apply push1_exec with (tail := tail); assumption. Qed.

(* a tape consisting of one PUSH1 (the claim arm; also the single-signature witness) *)
Lemma push1_tape_runs f tid st v s :
  tdata st tid = push1_bytes v -> List.length v < 256 -> st_stack st = s ->
  fits cfg v -> space cfg s ->
  run_tape orc cfg (S (S f)) tid 0 st =
    Done tt {| fr_tid := tid; fr_ptr := 2 + List.length v |} (with_stack st (v :: s)).
Proof.
  intros Hd Hl Hs Hf Hsp.
  assert (Hd0 : tdata st tid = [] ++ x03 :: (z2b (blen v) :: v ++ [])).
  { rewrite Hd. unfold push1_bytes. rewrite app_nil_r. reflexivity. }
  rewrite (fetch_at _ tid st 0 [] x03 _ Hd0 eq_refl).
  change (dispatch (N.to_nat (Byte.to_N x03))) with OP_PUSH1.
  rewrite (push1_at _ tid st 1 [x03] v [] s Hd0 eq_refl Hl Hs Hf Hsp).
  cbn [fr_ptr].
  rewrite run_tape_end; [reflexivity|].
  change (tdata (with_stack st (v :: s)) tid) with (tdata st tid).
  rewrite Hd. unfold push1_bytes. simpl. lia.
Qed.

(* the refund arm: PUSH1 c ; CHECK_TIMESTAMP_VERIFY ; PUSH1 refund *)
Lemma refund_arm_runs f tid st c refund s ts thr :
  tdata st tid = refund_arm_bytes c refund ->
  0 < List.length c < 256 -> List.length refund < 256 -> st_stack st = s ->
  fits cfg c -> fits cfg refund -> S (List.length s) < c_max_items cfg ->
  cache_get (st_cache st) ts_key = Some (VOne (AInt ts)) ->
  flag_get (c_flags cfg) thr_key = Some (FVInt thr) ->
  run_tape orc cfg (S (S (S (S f)))) tid 0 st =
    if ts_verdict cfg (be_to_Z c) ts thr
    then Done tt {| fr_tid := tid; fr_ptr := List.length (refund_arm_bytes c refund) |}
              (with_stack st (refund :: s))
    else Raised ScriptExecutionError {| fr_tid := tid; fr_ptr := 3 + List.length c |} (with_stack st s).
Proof.
  intros Hd Hc Hr Hs Fc Fr Hsp Hts Hthr.
  assert (Hd0 : tdata st tid = [] ++ x03 :: (z2b (blen c) :: c ++ x26 :: push1_bytes refund)).
  { rewrite Hd. reflexivity. }
  rewrite (fetch_at _ tid st 0 [] x03 _ Hd0 eq_refl).
  change (dispatch (N.to_nat (Byte.to_N x03))) with OP_PUSH1.
  rewrite (push1_at _ tid st 1 [x03] c (x26 :: push1_bytes refund) s Hd0 eq_refl) ;
    [ | lia | exact Hs | exact Fc | unfold space; lia ].
  cbn [fr_ptr].
  set (st1 := with_stack st (c :: s)).
  assert (Hd1 : tdata st1 tid = push1_bytes c ++ x26 :: push1_bytes refund) by exact Hd.
  rewrite (fetch_at _ tid st1 _ (push1_bytes c) x26 _ Hd1) by (unfold push1_bytes; simpl; lia).
  change (dispatch (N.to_nat (Byte.to_N x26))) with OP_CHECK_TIMESTAMP_VERIFY.
  rewrite (check_timestamp_verify_spec orc cfg _ _ st1 c s ts thr); try assumption; try reflexivity.
  2:{ destruct c; [simpl in Hc; lia|discriminate]. }
  2:{ unfold room. unfold fits in Fc. lia. }
  destruct (ts_verdict cfg (be_to_Z c) ts thr).
  2:{ reflexivity. }
  cbn [fr_ptr]. change (with_stack st1 s) with (with_stack st s).
  set (st2 := with_stack st s).
  assert (Hd2 : tdata st2 tid = (push1_bytes c ++ [x26]) ++ x03 :: (z2b (blen refund) :: refund ++ [])).
  { change (tdata st2 tid) with (tdata st tid). rewrite Hd. unfold refund_arm_bytes.
    rewrite <- app_assoc, app_nil_r. reflexivity. }
  rewrite (fetch_at _ tid st2 _ (push1_bytes c ++ [x26]) x03 _ Hd2)
    by (rewrite app_length; unfold push1_bytes; simpl; lia).
  change (dispatch (N.to_nat (Byte.to_N x03))) with OP_PUSH1.
  assert (Hd3 : tdata st2 tid = ((push1_bytes c ++ [x26]) ++ [x03]) ++ z2b (blen refund) :: refund ++ []).
  { rewrite Hd2, <- (app_assoc (push1_bytes c ++ [x26]) [x03]). reflexivity. }
  rewrite (push1_at _ tid st2 _ _ refund [] s Hd3);
    [ | rewrite !app_length; unfold push1_bytes; simpl; lia | exact Hr | reflexivity | exact Fr | unfold space; lia ].
  cbn [fr_ptr].
  rewrite run_tape_end.
  - f_equal. f_equal. unfold refund_arm_bytes, push1_bytes. rewrite app_length. simpl. lia.
  - change (tdata (with_stack st2 (refund :: s)) tid) with (tdata st tid).
    rewrite Hd. unfold refund_arm_bytes, push1_bytes. rewrite app_length. simpl. lia.
Qed.

End Run.

(* ---------- the lock tail: IF_ELSE { PUSH1 rcv } { PUSH1 c ; CTV ; PUSH1 refund } ; CHECK_SIG fl ---------- *)
Section B.
Variable orc : oracle.
Variable cfg : config.
Hypothesis Hsize : 65 <= c_max_item_size cfg.
Hypothesis Hitems : 4 <= c_max_items cfg.

Notation sub f := (fun t s0 => run_tape orc cfg f t 0 s0).

(* the PVerify oracle answered with a list that is not exactly one item: outside the model *)
Definition bad_arity (pk sig : bytes) (c0 : cache) : Prop :=
  exists m l, msg_of (sig_flag sig) c0 = Some m /\
              orc PVerify [pk; m; firstn 64 sig] = OOk l /\ List.length l <> 1.

Definition verdict_spec (r : auth_result) (P U : Prop) : Prop :=
  match r with AuthVerdict b _ => b = true <-> P | AuthFuel => False | AuthUnmod _ => U end.

Lemma verdict_spec_iff r (P P' U U' : Prop) :
  (P <-> P') -> (U -> U') -> verdict_spec r P U -> verdict_spec r P' U'.
Proof. intros H1 H2. destruct r; simpl; tauto. Qed.

(* what auth_rest does with the outcome of the last script *)
Definition finish (F prev : nat) (o : outcome unit) : auth_result :=
  match o with
  | Done _ _ st' => auth_rest orc cfg F [] prev st'
  | Raised _ _ st' => AuthVerdict false st'
  | OutOfFuel => AuthFuel
  | Unmodelled w => AuthUnmod w
  end.

Lemma auth_rest_one F s prev st :
  auth_rest orc cfg F [s] prev st =
    finish F (fst (next_start st prev s))
           (run_tape orc cfg F (fst (next_start st prev s)) 0 (snd (next_start st prev s))).
Proof. reflexivity. Qed.

Lemma arms_small rcv c refund :
  List.length rcv = 32 -> List.length refund = 32 -> List.length c <= 255 ->
  (blen (claim_arm rcv) < 65536)%Z /\ (blen (refund_arm_bytes c refund) < 65536)%Z.
Proof.
  intros H1 H2 H3. unfold blen, claim_arm, refund_arm_bytes, push1_bytes.
  rewrite app_length. cbn [List.length]. rewrite H1, H2. lia.
Qed.

Lemma lock_ifelse_claim f tid st ptr pre tail cond s rcv c refund :
  tdata st tid = pre ++ ifelse_ops (claim_arm rcv) (refund_arm_bytes c refund) ++ tail ->
  ptr = List.length pre -> st_stack st = cond :: s -> bytes_to_bool cond = true ->
  cache_get (st_cache st) returned_key = None ->
  List.length rcv = 32 -> List.length refund = 32 -> List.length c <= 255 ->
  List.length s < c_max_items cfg ->
  interp orc cfg (sub (S (S f))) OP_IF_ELSE {| fr_tid := tid; fr_ptr := ptr |} st =
    Done tt {| fr_tid := tid;
               fr_ptr := ptr + List.length (ifelse_ops (claim_arm rcv) (refund_arm_bytes c refund)) |}
         (with_stack (sub_start st tid (claim_arm rcv)) (rcv :: s)).
Proof.
  intros Hd Hp Hs Hb Hret L1 L2 L3 Hsp.
  destruct (arms_small rcv c refund L1 L2 L3) as [S1 S2].
  rewrite (if_else_exec orc cfg _ tid st ptr pre _ _ tail cond s Hd Hp S1 S2 Hs).
  cbv zeta beta. rewrite Hb.
  rewrite (push1_tape_runs orc cfg f _ _ rcv s).
  - rewrite propagate_none by exact Hret. reflexivity.
  - exact (tdata_sub_new (with_stack st s) tid (claim_arm rcv)).
  - lia.
  - reflexivity.
  - unfold fits. lia.
  - exact Hsp.
Qed.

Lemma lock_ifelse_refund f tid st ptr pre tail cond s rcv c refund ts thr :
  tdata st tid = pre ++ ifelse_ops (claim_arm rcv) (refund_arm_bytes c refund) ++ tail ->
  ptr = List.length pre -> st_stack st = cond :: s -> bytes_to_bool cond = false ->
  cache_get (st_cache st) returned_key = None ->
  List.length rcv = 32 -> List.length refund = 32 ->
  0 < List.length c <= 255 -> List.length c <= c_max_item_size cfg ->
  S (List.length s) < c_max_items cfg ->
  cache_get (st_cache st) ts_key = Some (VOne (AInt ts)) ->
  flag_get (c_flags cfg) thr_key = Some (FVInt thr) ->
  interp orc cfg (sub (S (S (S (S f))))) OP_IF_ELSE {| fr_tid := tid; fr_ptr := ptr |} st =
    let fr' := {| fr_tid := tid;
                  fr_ptr := ptr + List.length (ifelse_ops (claim_arm rcv) (refund_arm_bytes c refund)) |} in
    if ts_verdict cfg (be_to_Z c) ts thr
    then Done tt fr' (with_stack (sub_start st tid (refund_arm_bytes c refund)) (refund :: s))
    else Raised ScriptExecutionError fr' (with_stack (sub_start st tid (refund_arm_bytes c refund)) s).
Proof.
  intros Hd Hp Hs Hb Hret L1 L2 L3 Fc Hsp Hts Hthr.
  destruct (arms_small rcv c refund L1 L2) as [S1 S2]; [lia|].
  rewrite (if_else_exec orc cfg _ tid st ptr pre _ _ tail cond s Hd Hp S1 S2 Hs).
  cbv zeta beta. rewrite Hb.
  rewrite (refund_arm_runs orc cfg f _ _ c refund s ts thr).
  - destruct (ts_verdict cfg (be_to_Z c) ts thr); [|reflexivity].
    rewrite propagate_none by exact Hret. reflexivity.
  - exact (tdata_sub_new (with_stack st s) tid (refund_arm_bytes c refund)).
  - lia.
  - lia.
  - reflexivity.
  - exact Fc.
  - unfold fits. lia.
  - exact Hsp.
  - exact Hts.
  - exact Hthr.
Qed.

(* the closing OP_CHECK_SIG fl of the last script, then the verdict *)
Lemma check_sig_final F prev f tid st ptr pre fl pk sig c0 :
  tdata st tid = pre ++ [x23; fl] -> ptr = List.length pre ->
  st_stack st = [pk; sig] -> List.length pk = 32 -> (List.length sig = 64 \/ List.length sig = 65) ->
  (forall g, msg_of g (st_cache st) = msg_of g c0) ->
  verdict_spec (finish F prev (run_tape orc cfg (S (S f)) tid ptr st))
    (sig_accepts orc cfg pk sig (b2z fl) c0) (bad_arity pk sig c0).
Proof.
  intros Hd Hp Hs Hpk Hsig Hmsg.
  assert (Hd1 : tdata st tid = pre ++ x23 :: [fl]) by exact Hd.
  rewrite (fetch_at orc cfg _ tid st ptr pre x23 [fl] Hd1 Hp).
  change (dispatch (N.to_nat (Byte.to_N x23))) with OP_CHECK_SIG.
  assert (Hda : data_at {| fr_tid := tid; fr_ptr := S ptr |} st = [fl]).
  { unfold data_at, cur. cbn [fr_tid fr_ptr]. fold (tdata st tid). rewrite Hd. subst ptr.
    replace (S (List.length pre)) with (List.length (pre ++ [x23])) by (rewrite app_length; simpl; lia).
    replace (pre ++ [x23; fl]) with ((pre ++ [x23]) ++ [fl]) by (rewrite <- app_assoc; reflexivity).
    apply skipn_after. }
  rewrite (check_sig_decomposed orc cfg _ _ st fl [] Hda).
  rewrite (check_sig_body_exact orc cfg _ (b2z fl) _ (sigext_log cfg st) pk sig []) by exact Hs.
  cbv zeta. unfold blen. rewrite Hpk. change (Z.of_nat 32 =? 32)%Z with true. cbn [negb].
  assert (Hs2 : ((Z.of_nat (List.length sig) =? 64) || (Z.of_nat (List.length sig) =? 65))%Z = true).
  { destruct Hsig as [->| ->]; reflexivity. }
  rewrite Hs2. cbn [negb].
  change (st_cache (sigext_log cfg st)) with (st_cache st). rewrite Hmsg.
  unfold sig_accepts, bad_arity.
  destruct (flags_permitted (sig_flag sig) (b2z fl)) eqn:Ef; cbn [negb].
  2:{ simpl. split; [discriminate|]. intros [H _]. discriminate. }
  destruct (msg_of (sig_flag sig) c0) as [m|] eqn:Em.
  2:{ simpl. split; [discriminate|]. intros (_ & m & x & H & _). discriminate. }
  cbn [List.length].
  replace (c_max_items cfg <=? 0) with false by (symmetry; apply Nat.leb_gt; lia).
  rewrite orb_false_r.
  destruct (c_max_item_size cfg <? List.length m) eqn:El.
  { apply Nat.ltb_lt in El. simpl. split; [discriminate|]. intros (_ & m' & x & H & Hlen & _).
    injection H as <-. lia. }
  apply Nat.ltb_ge in El.
  match goal with |- context [orc PVerify ?a] => destruct (orc PVerify a) as [[|x [|y l]]|e] eqn:Eo end.
  - simpl. exists m, []. split; [reflexivity|]. split; [exact Eo|]. simpl. lia.
  - replace (c_max_item_size cfg <? 1) with false by (symmetry; apply Nat.ltb_ge; lia).
    cbn [fr_ptr].
    rewrite run_tape_end.
    2:{ match goal with |- List.length (tdata ?s tid) <= _ => change (tdata s tid) with (tdata st tid) end.
        rewrite Hd, app_length. unfold adv. cbn [fr_ptr]. subst ptr. simpl. lia. }
    unfold finish. cbn [auth_rest st_stack with_stack verdict_spec].
    destruct (bytes_to_bool x) eqn:Eb.
    + split; [intros _|reflexivity]. split; [reflexivity|]. exists m, x.
      split; [reflexivity|]. split; [exact El|]. split; [exact Eo|exact Eb].
    + split; [discriminate|]. intros (_ & m' & x' & H1 & _ & H2 & H3).
      injection H1 as <-. assert (Hx : OOk [x'] = OOk [x]) by (rewrite <- H2; exact Eo).
      injection Hx as <-. congruence.
  - simpl. exists m, (x :: y :: l). split; [reflexivity|]. split; [exact Eo|]. simpl. lia.
  - simpl. split; [discriminate|]. intros (_ & m' & x & H1 & _ & H2 & _).
    injection H1 as <-. assert (Hx : OOk [x] = OErr e) by (rewrite <- H2; exact Eo). discriminate.
Qed.

(* IF_ELSE ... ; CHECK_SIG fl   run on a stack [cond; sig] *)
Lemma lock_tail F prev f tid st ptr pre cond sig rcv c refund fl ts thr c0 :
  tdata st tid = pre ++ x2c :: ifelse_ops (claim_arm rcv) (refund_arm_bytes c refund) ++ [x23; fl] ->
  ptr = List.length pre -> tid < List.length (st_tapes st) ->
  st_stack st = [cond; sig] ->
  cache_get (st_cache st) returned_key = None ->
  (forall g, msg_of g (st_cache st) = msg_of g c0) ->
  List.length rcv = 32 -> List.length refund = 32 -> List.length c <= 255 ->
  (List.length sig = 64 \/ List.length sig = 65) ->
  (bytes_to_bool cond = false ->
     0 < List.length c /\ List.length c <= c_max_item_size cfg /\
     cache_get (st_cache st) ts_key = Some (VOne (AInt ts)) /\
     flag_get (c_flags cfg) thr_key = Some (FVInt thr)) ->
  verdict_spec (finish F prev (run_tape orc cfg (S (S (S (S (S f))))) tid ptr st))
    (if bytes_to_bool cond then sig_accepts orc cfg rcv sig (b2z fl) c0
     else ts_verdict cfg (be_to_Z c) ts thr = true /\ sig_accepts orc cfg refund sig (b2z fl) c0)
    (if bytes_to_bool cond then bad_arity rcv sig c0
     else ts_verdict cfg (be_to_Z c) ts thr = true /\ bad_arity refund sig c0).
Proof.
  intros Hd Hp Hlt Hs Hret Hmsg L1 L2 L3 Lsig Hts.
  rewrite (fetch_at orc cfg _ tid st ptr pre x2c _ Hd Hp).
  change (dispatch (N.to_nat (Byte.to_N x2c))) with OP_IF_ELSE.
  set (ops := ifelse_ops (claim_arm rcv) (refund_arm_bytes c refund)) in *.
  assert (Hd1 : tdata st tid = (pre ++ [x2c]) ++ ops ++ [x23; fl]).
  { rewrite Hd, <- app_assoc. reflexivity. }
  assert (Hp1 : S ptr = List.length (pre ++ [x2c])) by (rewrite app_length; simpl; lia).
  assert (Hfin : forall body stk, tdata (with_stack (sub_start st tid body) stk) tid = ((pre ++ [x2c]) ++ ops) ++ [x23; fl]).
  { intros body stk. change (tdata (with_stack (sub_start st tid body) stk) tid) with (tdata (sub_start st tid body) tid).
    rewrite tdata_sub_old by exact Hlt. rewrite Hd1, (app_assoc (pre ++ [x2c]) ops). reflexivity. }
  assert (Hp2 : S ptr + List.length ops = List.length ((pre ++ [x2c]) ++ ops)).
  { rewrite (app_length (pre ++ [x2c])). lia. }
  destruct (bytes_to_bool cond) eqn:Eb.
  - unfold ops in Hd1.
    rewrite (lock_ifelse_claim _ tid st (S ptr) (pre ++ [x2c]) [x23; fl] cond [sig] rcv c refund Hd1 Hp1 Hs Eb Hret L1 L2 L3)
      by (simpl; lia).
    cbn [fr_ptr]. fold ops.
    apply (check_sig_final F prev _ tid _ _ ((pre ++ [x2c]) ++ ops) fl rcv sig c0); try assumption.
    + apply Hfin.
    + reflexivity.
  - destruct (Hts eq_refl) as (C1 & C2 & C3 & C4). unfold ops in Hd1.
    rewrite (lock_ifelse_refund _ tid st (S ptr) (pre ++ [x2c]) [x23; fl] cond [sig] rcv c refund ts thr
               Hd1 Hp1 Hs Eb Hret L1 L2); try assumption; try lia.
    2:{ simpl. lia. }
    cbv zeta. fold ops.
    destruct (ts_verdict cfg (be_to_Z c) ts thr) eqn:Etv.
    + cbn [fr_ptr].
      eapply verdict_spec_iff;
        [ | | apply (check_sig_final F prev _ tid _ _ ((pre ++ [x2c]) ++ ops) fl refund sig c0); try assumption ].
      * tauto.
      * tauto.
      * apply Hfin.
      * reflexivity.
    + simpl. split; [discriminate|]. intros [H _]. discriminate.
Qed.

(* ---------- the witnesses ---------- *)

Lemma flag_witness_runs f sig op v vals :
  dispatch (N.to_nat (Byte.to_N op)) = put [v] ->
  (List.length sig = 64 \/ List.length sig = 65) ->
  run_script orc cfg (S (S (S f))) (push1_bytes sig ++ [op]) vals =
    Done tt {| fr_tid := 0; fr_ptr := 3 + List.length sig |}
         (with_stack (init_state cfg (push1_bytes sig ++ [op]) vals) [[v]; sig]).
Proof.
  intros Hop Hl. unfold run_script.
  set (st0 := init_state cfg (push1_bytes sig ++ [op]) vals).
  assert (Hd0 : tdata st0 0 = [] ++ x03 :: (z2b (blen sig) :: sig ++ [op])) by reflexivity.
  rewrite (fetch_at orc cfg _ 0 st0 0 [] x03 _ Hd0 eq_refl).
  change (dispatch (N.to_nat (Byte.to_N x03))) with OP_PUSH1.
  rewrite (push1_at orc cfg _ 0 st0 1 [x03] sig [op] [] Hd0 eq_refl);
    [ | lia | reflexivity | unfold fits; lia | unfold space; simpl; lia ].
  cbn [fr_ptr].
  set (st1 := with_stack st0 [sig]).
  assert (Hd1 : tdata st1 0 = push1_bytes sig ++ op :: []) by reflexivity.
  rewrite (fetch_at orc cfg _ 0 st1 _ (push1_bytes sig) op [] Hd1) by reflexivity.
  rewrite Hop. unfold put, act.
  rewrite (put_step orc cfg _ _ _ _ st1 [v] [sig]);
    [ | reflexivity | unfold fits; simpl; lia | unfold space; simpl; lia ].
  cbn [interp fr_ptr].
  rewrite run_tape_end.
  - reflexivity.
  - match goal with |- List.length (tdata ?s 0) <= _ => change (tdata s 0) with (push1_bytes sig ++ [op]) end.
    rewrite app_length. simpl. lia.
Qed.

Lemma htlc_witness_runs f sig pre vals :
  (List.length sig = 64 \/ List.length sig = 65) ->
  List.length pre < 256 -> List.length pre <= c_max_item_size cfg ->
  run_script orc cfg (S (S (S f))) (push1_bytes sig ++ push1_bytes pre) vals =
    Done tt {| fr_tid := 0; fr_ptr := 4 + List.length sig + List.length pre |}
         (with_stack (init_state cfg (push1_bytes sig ++ push1_bytes pre) vals) [pre; sig]).
Proof.
  intros Hl Hp1 Hp2. unfold run_script.
  set (st0 := init_state cfg (push1_bytes sig ++ push1_bytes pre) vals).
  assert (Hd0 : tdata st0 0 = [] ++ x03 :: (z2b (blen sig) :: sig ++ push1_bytes pre)) by reflexivity.
  rewrite (fetch_at orc cfg _ 0 st0 0 [] x03 _ Hd0 eq_refl).
  change (dispatch (N.to_nat (Byte.to_N x03))) with OP_PUSH1.
  rewrite (push1_at orc cfg _ 0 st0 1 [x03] sig (push1_bytes pre) [] Hd0 eq_refl);
    [ | lia | reflexivity | unfold fits; lia | unfold space; simpl; lia ].
  cbn [fr_ptr].
  set (st1 := with_stack st0 [sig]).
  assert (Hd1 : tdata st1 0 = push1_bytes sig ++ x03 :: (z2b (blen pre) :: pre ++ [])).
  { rewrite app_nil_r. reflexivity. }
  rewrite (fetch_at orc cfg _ 0 st1 _ (push1_bytes sig) x03 _ Hd1) by reflexivity.
  change (dispatch (N.to_nat (Byte.to_N x03))) with OP_PUSH1.
  assert (Hd2 : tdata st1 0 = (push1_bytes sig ++ [x03]) ++ z2b (blen pre) :: pre ++ []).
  { rewrite Hd1, <- app_assoc. reflexivity. }
  rewrite (push1_at orc cfg _ 0 st1 _ _ pre [] [sig] Hd2);
    [ | rewrite app_length; simpl; lia | exact Hp1 | reflexivity | exact Hp2 | unfold space; simpl; lia ].
  cbn [fr_ptr].
  rewrite run_tape_end.
  - f_equal. f_equal. lia.
  - match goal with |- List.length (tdata ?s 0) <= _ =>
      change (tdata s 0) with (push1_bytes sig ++ push1_bytes pre) end.
    rewrite app_length. simpl. lia.
Qed.

(* ---------- SHA256 / SHAKE256 / EQUAL with known operands ---------- *)

Lemma sha256_exec run fr st x s h :
  st_stack st = x :: s -> orc PSha256 [x] = OOk [h] -> fits cfg h -> space cfg s ->
  interp orc cfg run OP_SHA256 fr st = Done tt fr (with_stack st (h :: s)).
Proof.
  intros Hs Ho Hf Hsp. unfold OP_SHA256, get, put, act. cbn [bind].
  rewrite (get_step orc cfg run _ _ fr st x s Hs).
  rewrite (prim1_step orc cfg run _ _ PSha256 [x] h _ _ Ho).
  rewrite (put_step orc cfg run _ _ _ _ h s); [reflexivity|reflexivity|exact Hf|exact Hsp].
Qed.

Lemma shake256_exec run tid ptr st (pre : bytes) n tail x s h :
  tdata st tid = pre ++ n :: tail -> ptr = List.length pre ->
  st_stack st = x :: s -> orc PShake256 [x; [n]] = OOk [h] -> fits cfg h -> space cfg s ->
  interp orc cfg run OP_SHAKE256 {| fr_tid := tid; fr_ptr := ptr |} st =
    Done tt {| fr_tid := tid; fr_ptr := ptr + 1 |} (with_stack st (h :: s)).
Proof.
  intros Hd Hp Hs Ho Hf Hsp. unfold OP_SHAKE256, read_u8, read, get, put, act. cbn [bind].
  assert (Hd' : tdata st tid = pre ++ [n] ++ tail) by exact Hd.
  rewrite (read_at orc cfg run _ _ tid ptr st pre [n] tail 1 Hd' Hp eq_refl).
  cbn [bind List.length]. rewrite be1, z2b_b2z.
  rewrite (get_step orc cfg run _ _ _ st x s Hs).
  rewrite (prim1_step orc cfg run _ _ PShake256 [x; [n]] h _ _ Ho).
  rewrite (put_step orc cfg run _ _ _ _ h s); [reflexivity|reflexivity|exact Hf|exact Hsp].
Qed.

Lemma equal_exec run fr st a b s :
  st_stack st = a :: b :: s -> room cfg s ->
  interp orc cfg run OP_EQUAL fr st =
    Done tt fr (with_stack st ((if bytes_eqb a b then [xff] else [x00]) :: s)).
Proof.
  intros Hs Hr. unfold OP_EQUAL, put_bool, get, put, act. cbn [bind].
  rewrite (get_step orc cfg run _ _ fr st a (b :: s) Hs).
  rewrite (get_step orc cfg run _ _ fr (with_stack st (b :: s)) b s eq_refl).
  destruct (bytes_eqb a b);
    (rewrite (put1 orc cfg run) with (rest := s); [reflexivity|exact Hr|reflexivity]).
Qed.

(* PUSH1 digest ; EQUAL ; IF_ELSE ... ; CHECK_SIG fl   run on a stack [h; sig] *)
Lemma htlc_tail F prev f tid st ptr pre0 h digest sig rcv c refund fl ts thr c0 :
  tdata st tid = pre0 ++ push1_bytes digest ++
                 x21 :: x2c :: ifelse_ops (claim_arm rcv) (refund_arm_bytes c refund) ++ [x23; fl] ->
  ptr = List.length pre0 -> tid < List.length (st_tapes st) ->
  st_stack st = [h; sig] ->
  cache_get (st_cache st) returned_key = None ->
  (forall g, msg_of g (st_cache st) = msg_of g c0) ->
  List.length rcv = 32 -> List.length refund = 32 ->
  0 < List.length c <= 255 -> List.length c <= c_max_item_size cfg ->
  (List.length sig = 64 \/ List.length sig = 65) ->
  List.length digest < 256 -> List.length digest <= c_max_item_size cfg ->
  cache_get (st_cache st) ts_key = Some (VOne (AInt ts)) ->
  flag_get (c_flags cfg) thr_key = Some (FVInt thr) ->
  verdict_spec (finish F prev (run_tape orc cfg (S (S (S (S (S (S (S f))))))) tid ptr st))
    ((h = digest /\ sig_accepts orc cfg rcv sig (b2z fl) c0) \/
     (h <> digest /\ ts_verdict cfg (be_to_Z c) ts thr = true /\ sig_accepts orc cfg refund sig (b2z fl) c0))
    ((h = digest /\ bad_arity rcv sig c0) \/
     (h <> digest /\ ts_verdict cfg (be_to_Z c) ts thr = true /\ bad_arity refund sig c0)).
Proof.
  intros Hd Hp Hlt Hs Hret Hmsg L1 L2 L3 Fc Lsig Ld Fd Hts Hthr.
  set (ops := ifelse_ops (claim_arm rcv) (refund_arm_bytes c refund)) in *.
  assert (Hd0 : tdata st tid = pre0 ++ x03 :: (z2b (blen digest) :: digest ++ x21 :: x2c :: ops ++ [x23; fl]))
    by exact Hd.
  rewrite (fetch_at orc cfg _ tid st ptr pre0 x03 _ Hd0 Hp).
  change (dispatch (N.to_nat (Byte.to_N x03))) with OP_PUSH1.
  assert (Hd1 : tdata st tid = (pre0 ++ [x03]) ++ z2b (blen digest) :: digest ++ x21 :: x2c :: ops ++ [x23; fl]).
  { rewrite Hd0, <- app_assoc. reflexivity. }
  rewrite (push1_at orc cfg _ tid st (S ptr) _ digest _ [h; sig] Hd1);
    [ | rewrite app_length; simpl; lia | exact Ld | exact Hs | exact Fd | unfold space; simpl; lia ].
  cbn [fr_ptr].
  set (st1 := with_stack st [digest; h; sig]).
  assert (Hd2 : tdata st1 tid = (pre0 ++ push1_bytes digest) ++ x21 :: (x2c :: ops ++ [x23; fl])).
  { change (tdata st1 tid) with (tdata st tid). rewrite Hd, (app_assoc pre0 (push1_bytes digest)). reflexivity. }
  rewrite (fetch_at orc cfg _ tid st1 _ (pre0 ++ push1_bytes digest) x21 _ Hd2)
    by (rewrite app_length; simpl; lia).
  change (dispatch (N.to_nat (Byte.to_N x21))) with OP_EQUAL.
  rewrite (equal_exec _ _ st1 digest h [sig] eq_refl) by (unfold room; simpl; lia).
  cbn [fr_ptr].
  set (cond := if bytes_eqb digest h then [xff] else [x00]).
  change (with_stack st1 [cond; sig]) with (with_stack st [cond; sig]).
  set (st2 := with_stack st [cond; sig]).
  assert (Hd3 : tdata st2 tid = (pre0 ++ push1_bytes digest ++ [x21]) ++ x2c :: ops ++ [x23; fl]).
  { change (tdata st2 tid) with (tdata st tid). rewrite Hd, <- !app_assoc. reflexivity. }
  eapply verdict_spec_iff;
    [ | | apply (lock_tail F prev f tid st2 _ (pre0 ++ push1_bytes digest ++ [x21]) cond sig rcv c refund fl ts thr c0 Hd3);
          try assumption ].
  - unfold cond. destruct (bytes_eqb digest h) eqn:E.
    + apply bytes_eqb_eq in E. change (bytes_to_bool [xff]) with true. cbv iota. symmetry in E. tauto.
    + assert (h <> digest) by (intro Heq; subst h; rewrite bytes_eqb_refl in E; discriminate).
      change (bytes_to_bool [x00]) with false. cbv iota. tauto.
  - unfold cond. destruct (bytes_eqb digest h) eqn:E.
    + apply bytes_eqb_eq in E. change (bytes_to_bool [xff]) with true. cbv iota. symmetry in E. tauto.
    + assert (h <> digest) by (intro Heq; subst h; rewrite bytes_eqb_refl in E; discriminate).
      change (bytes_to_bool [x00]) with false. cbv iota. tauto.
  - rewrite !app_length. unfold push1_bytes. simpl. lia.
  - reflexivity.
  - lia.
  - intros _. repeat split; try assumption; lia.
Qed.

(* ---------- the start of the lock script (second script of the pair) ---------- *)

Lemma lock_start (w lock : bytes) vals stk :
  let st1 := with_stack (init_state cfg w vals) stk in
  let tid := fst (next_start st1 0 lock) in
  let st2 := snd (next_start st1 0 lock) in
  tdata st2 tid = lock /\ tid < List.length (st_tapes st2) /\ st_stack st2 = stk /\
  cache_get (st_cache st2) returned_key = None /\
  (forall g, msg_of g (st_cache st2) = msg_of g (init_cache cfg vals)) /\
  (forall ts, cache_get (init_cache cfg vals) ts_key = Some (VOne (AInt ts)) ->
              cache_get (st_cache st2) ts_key = Some (VOne (AInt ts))).
Proof.
  cbv zeta. split; [reflexivity|]. split; [simpl; lia|]. split; [reflexivity|].
  split; [apply cache_get_del_same|]. split.
  - intro g. apply msg_of_del_returned.
  - intros ts H. cbn [next_start snd st_cache with_cache with_tapes with_stack init_state].
    rewrite cache_get_del_other by reflexivity. exact H.
Qed.

(* ---------- the theorems ---------- *)

(* 1. PTLC, claim path: witness PUSH1 sig ; TRUE  —  at any time *)
Theorem ptlc_claim_exact f rcv c refund sig fl vals :
  List.length rcv = 32 -> List.length refund = 32 -> List.length c <= 255 ->
  (List.length sig = 64 \/ List.length sig = 65) ->
  verdict_spec
    (run_auth_scripts orc cfg (S (S (S (S (S f))))) [ptlc_claim_witness sig; ptlc_lock rcv c refund fl] vals)
    (sig_accepts orc cfg rcv sig (b2z fl) (init_cache cfg vals))
    (bad_arity rcv sig (init_cache cfg vals)).
Proof.
  intros L1 L2 L3 Lsig.
  unfold run_auth_scripts. rewrite ptlc_claim_witness_bytes, ptlc_lock_bytes.
  rewrite (flag_witness_runs (S (S f)) sig x01 xff vals eq_refl Lsig).
  rewrite auth_rest_one.
  destruct (lock_start (push1_bytes sig ++ [x01])
              ([x2c] ++ ifelse_ops (claim_arm rcv) (refund_arm_bytes c refund) ++ [x23; fl]) vals [[xff]; sig])
    as (Hd & Hlt & Hs & Hret & Hmsg & _).
  set (tid := fst (next_start _ 0 _)) in *. set (st2 := snd (next_start _ 0 _)) in *.
  pose proof (lock_tail (S (S (S (S (S f))))) tid f tid st2 0 [] [xff] sig rcv c refund fl 0%Z 0%Z
                (init_cache cfg vals) Hd eq_refl Hlt Hs Hret Hmsg L1 L2 L3 Lsig) as H.
  change (bytes_to_bool [xff]) with true in H. cbv iota in H.
  apply H. intro E. discriminate E.
Qed.

(* 2. PTLC, refund path: witness PUSH1 sig ; FALSE *)
Theorem ptlc_refund_exact f rcv c refund sig fl vals ts thr :
  List.length rcv = 32 -> List.length refund = 32 ->
  2 <= List.length c <= 255 -> List.length c <= c_max_item_size cfg ->
  (List.length sig = 64 \/ List.length sig = 65) ->
  cache_get (init_cache cfg vals) ts_key = Some (VOne (AInt ts)) ->
  flag_get (c_flags cfg) thr_key = Some (FVInt thr) ->
  verdict_spec
    (run_auth_scripts orc cfg (S (S (S (S (S f))))) [ptlc_refund_witness sig; ptlc_lock rcv c refund fl] vals)
    (ts_verdict cfg (be_to_Z c) ts thr = true /\ sig_accepts orc cfg refund sig (b2z fl) (init_cache cfg vals))
    (ts_verdict cfg (be_to_Z c) ts thr = true /\ bad_arity refund sig (init_cache cfg vals)).
Proof.
  intros L1 L2 L3 Fc Lsig Hts Hthr.
  unfold run_auth_scripts. rewrite ptlc_refund_witness_bytes, ptlc_lock_bytes.
  rewrite (flag_witness_runs (S (S f)) sig x00 x00 vals eq_refl Lsig).
  rewrite auth_rest_one.
  destruct (lock_start (push1_bytes sig ++ [x00])
              ([x2c] ++ ifelse_ops (claim_arm rcv) (refund_arm_bytes c refund) ++ [x23; fl]) vals [[x00]; sig])
    as (Hd & Hlt & Hs & Hret & Hmsg & Hts2).
  set (tid := fst (next_start _ 0 _)) in *. set (st2 := snd (next_start _ 0 _)) in *.
  assert (L3' : List.length c <= 255) by lia.
  pose proof (lock_tail (S (S (S (S (S f))))) tid f tid st2 0 [] [x00] sig rcv c refund fl ts thr
                (init_cache cfg vals) Hd eq_refl Hlt Hs Hret Hmsg L1 L2 L3' Lsig) as H.
  change (bytes_to_bool [x00]) with false in H. cbv iota in H.
  apply H. intros _. split; [lia|]. split; [exact Fc|]. split; [apply Hts2; exact Hts|exact Hthr].
Qed.

(* 3. HTLC (sha256): witness PUSH1 sig ; PUSH1 preimage *)
Theorem htlc_sha256_exact f digest rcv c refund sig preimage h fl vals ts thr :
  List.length rcv = 32 -> List.length refund = 32 ->
  2 <= List.length c <= 255 -> List.length c <= c_max_item_size cfg ->
  (List.length sig = 64 \/ List.length sig = 65) ->
  List.length digest = 32 -> List.length h = 32 ->
  List.length preimage < 256 -> List.length preimage <= c_max_item_size cfg ->
  orc PSha256 [preimage] = OOk [h] ->
  cache_get (init_cache cfg vals) ts_key = Some (VOne (AInt ts)) ->
  flag_get (c_flags cfg) thr_key = Some (FVInt thr) ->
  let c0 := init_cache cfg vals in
  verdict_spec
    (run_auth_scripts orc cfg (S (S (S (S (S (S (S (S f))))))))
       [htlc_witness sig preimage; htlc_sha256_lock digest rcv c refund fl] vals)
    ((h = digest /\ sig_accepts orc cfg rcv sig (b2z fl) c0) \/
     (h <> digest /\ ts_verdict cfg (be_to_Z c) ts thr = true /\ sig_accepts orc cfg refund sig (b2z fl) c0))
    ((h = digest /\ bad_arity rcv sig c0) \/
     (h <> digest /\ ts_verdict cfg (be_to_Z c) ts thr = true /\ bad_arity refund sig c0)).
Proof.
  intros L1 L2 L3 Fc Lsig Ld Lh Lp Fp Ho Hts Hthr c0.
  unfold run_auth_scripts. rewrite htlc_witness_bytes, htlc_sha256_lock_bytes.
  rewrite (htlc_witness_runs _ sig preimage vals Lsig Lp Fp).
  rewrite auth_rest_one.
  destruct (lock_start (push1_bytes sig ++ push1_bytes preimage)
              ((x1e :: push1_bytes digest ++ [x21; x2c]) ++
               ifelse_ops (claim_arm rcv) (refund_arm_bytes c refund) ++ [x23; fl])
              vals [preimage; sig]) as (Hd & Hlt & Hs & Hret & Hmsg & Hts2).
  set (tid := fst (next_start _ 0 _)) in *. set (st2 := snd (next_start _ 0 _)) in *.
  set (ops := ifelse_ops (claim_arm rcv) (refund_arm_bytes c refund)) in *.
  assert (Hd0 : tdata st2 tid = [] ++ x1e :: (push1_bytes digest ++ x21 :: x2c :: ops ++ [x23; fl])).
  { rewrite Hd. cbn [app]. rewrite <- app_assoc. reflexivity. }
  rewrite (fetch_at orc cfg _ tid st2 0 [] x1e _ Hd0 eq_refl).
  change (dispatch (N.to_nat (Byte.to_N x1e))) with OP_SHA256.
  rewrite (sha256_exec _ _ st2 preimage [sig] h Hs Ho) by (unfold fits, space; simpl; lia).
  cbn [fr_ptr].
  apply (htlc_tail _ _ f tid _ 1 [x1e] h digest sig rcv c refund fl ts thr c0); try assumption;
    try reflexivity; try lia.
  all: first [ exact Hd0 | apply Hts2; exact Hts ].
Qed.

(* 4. HTLC (shake256, digest size n) *)
Theorem htlc_shake256_exact f n digest rcv c refund sig preimage h fl vals ts thr :
  List.length rcv = 32 -> List.length refund = 32 ->
  2 <= List.length c <= 255 -> List.length c <= c_max_item_size cfg ->
  (List.length sig = 64 \/ List.length sig = 65) ->
  List.length digest < 256 -> List.length digest <= c_max_item_size cfg ->
  List.length h <= c_max_item_size cfg ->
  List.length preimage < 256 -> List.length preimage <= c_max_item_size cfg ->
  orc PShake256 [preimage; [n]] = OOk [h] ->
  cache_get (init_cache cfg vals) ts_key = Some (VOne (AInt ts)) ->
  flag_get (c_flags cfg) thr_key = Some (FVInt thr) ->
  let c0 := init_cache cfg vals in
  verdict_spec
    (run_auth_scripts orc cfg (S (S (S (S (S (S (S (S f))))))))
       [htlc_witness sig preimage; htlc_shake256_lock n digest rcv c refund fl] vals)
    ((h = digest /\ sig_accepts orc cfg rcv sig (b2z fl) c0) \/
     (h <> digest /\ ts_verdict cfg (be_to_Z c) ts thr = true /\ sig_accepts orc cfg refund sig (b2z fl) c0))
    ((h = digest /\ bad_arity rcv sig c0) \/
     (h <> digest /\ ts_verdict cfg (be_to_Z c) ts thr = true /\ bad_arity refund sig c0)).
Proof.
  intros L1 L2 L3 Fc Lsig Ld Fd Fh Lp Fp Ho Hts Hthr c0.
  unfold run_auth_scripts. rewrite htlc_witness_bytes, htlc_shake256_lock_bytes.
  rewrite (htlc_witness_runs _ sig preimage vals Lsig Lp Fp).
  rewrite auth_rest_one.
  destruct (lock_start (push1_bytes sig ++ push1_bytes preimage)
              ((x1f :: n :: push1_bytes digest ++ [x21; x2c]) ++
               ifelse_ops (claim_arm rcv) (refund_arm_bytes c refund) ++ [x23; fl])
              vals [preimage; sig]) as (Hd & Hlt & Hs & Hret & Hmsg & Hts2).
  set (tid := fst (next_start _ 0 _)) in *. set (st2 := snd (next_start _ 0 _)) in *.
  set (ops := ifelse_ops (claim_arm rcv) (refund_arm_bytes c refund)) in *.
  assert (Hd0 : tdata st2 tid = [] ++ x1f :: (n :: push1_bytes digest ++ x21 :: x2c :: ops ++ [x23; fl])).
  { rewrite Hd. cbn [app]. rewrite <- app_assoc. reflexivity. }
  rewrite (fetch_at orc cfg _ tid st2 0 [] x1f _ Hd0 eq_refl).
  change (dispatch (N.to_nat (Byte.to_N x1f))) with OP_SHAKE256.
  assert (Hd1 : tdata st2 tid = [x1f] ++ n :: (push1_bytes digest ++ x21 :: x2c :: ops ++ [x23; fl])) by exact Hd0.
  rewrite (shake256_exec _ tid 1 st2 [x1f] n _ preimage [sig] h Hd1 eq_refl Hs Ho)
    by (unfold fits, space; simpl; lia).
  cbn [fr_ptr].
  apply (htlc_tail _ _ f tid _ 2 [x1f; n] h digest sig rcv c refund fl ts thr c0); try assumption;
    try reflexivity; try lia.
  all: first [ exact Hd0 | apply Hts2; exact Hts ].
Qed.

End B.

(* ---------- restatements without the auxiliary definitions (used by props/C15.v) ---------- *)

Lemma if_else_exec_explicit orc cfg (run : nat -> state -> outcome unit) tid st ptr (pre b1 b2 tail : bytes) cond s :
  tdata st tid = pre ++ (Z_to_be 2 (blen b1) ++ b1 ++ Z_to_be 2 (blen b2) ++ b2) ++ tail ->
  ptr = List.length pre ->
  (blen b1 < 65536)%Z -> (blen b2 < 65536)%Z ->
  st_stack st = cond :: s ->
  interp orc cfg run OP_IF_ELSE {| fr_tid := tid; fr_ptr := ptr |} st =
    let fr' := {| fr_tid := tid; fr_ptr := ptr + (2 + List.length b1 + 2 + List.length b2) |} in
    let body := if bytes_to_bool cond then b1 else b2 in
    let c := nth_tape st tid in
    let st2 :=
      {| st_stack := s; st_cache := st_cache st;
         st_tapes := st_tapes st ++ [{| to_data := body; to_count := to_count c; to_defs := List.length (st_defs st) |}];
         st_defs := st_defs st ++ [nth_defs st (to_defs c)];
         st_log := st_log st; st_rand := st_rand st |} in
    match run (List.length (st_tapes st)) st2 with
    | Done _ _ st' => interp orc cfg run propagate_return fr' st'
    | Raised e _ st' => Raised e fr' st'
    | OutOfFuel => OutOfFuel
    | Unmodelled w => Unmodelled w
    end.
Proof.
  intros Hd Hp H1 H2 Hs.
  rewrite (if_else_exec orc cfg run tid st ptr pre b1 b2 tail cond s Hd Hp H1 H2 Hs).
  cbv zeta. unfold ifelse_ops. rewrite !app_length, !length_len2.
  replace (ptr + (2 + (List.length b1 + (2 + List.length b2))))
    with (ptr + (2 + List.length b1 + 2 + List.length b2)) by lia.
  reflexivity.
Qed.

Lemma sig_accepts_meaning orc cfg pk sig allowed c :
  sig_accepts orc cfg pk sig allowed c <->
  (flags_permitted (sig_flag sig) allowed = true /\
   exists m x, msg_of (sig_flag sig) c = Some m /\ List.length m <= c_max_item_size cfg /\
               orc PVerify [pk; m; firstn 64 sig] = OOk [x] /\ bytes_to_bool x = true).
Proof. reflexivity. Qed.
