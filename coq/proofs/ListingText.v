(* C12 end to end, on the model of the REAL compiler front end: the TEXT of the decompiler's listing
   (the lines of decompile_script joined with newline characters) goes through str.split(), the pop
   loop of get_symbols and assemble (compile_text = parsing.compile_script) to the original bytes.

     - [listing_text_tokens]  str.split() of the joined text = the tokens of the listing
     - [listing_tokens_ltok]  what the printed tokens are (names, NOPn, OP_TRY, braces, ELSE, EXCEPT,
                              d<int>, x<hex>, a bare number): no quotes, no comment characters
     - [listing_tokens_posts] the pop loop maps the tokens to [map norm_token] of themselves; every
                              token is unchanged EXCEPT d<negative> which becomes D<negative>
                              ([norm_ltok]); the statement "the loop leaves the listing unchanged" is
                              FALSE ([listing_tokens_not_stable], same behaviour in the Python)
     - [listing_spells_norm]  the normalised tokens are still a spelling of the program
     - [listing_text_ascii], [listing_text_compiles], [listing_text_compiles_bytes],
       [decompile_compile_text], and the layout-independent versions [listing_layout_compiles],
       [listing_rend_compiles]. *)
From Coq Require Import ZArith List Bool Lia NArith String Ascii DecimalString DecimalZ.
From Coq.Strings Require Import Byte.
From TS Require Import Bytes Codec Ops Names Asm Tables BytesLemmas CodecProofs AsmProofs Tokenizer Assembler
  AssemblerProofs TokenizerProofs.
Import ListNotations.
Open Scope string_scope.
Open Scope list_scope.

(* ====================================================================================== *)
(* 1. joining lines, str.split() of the joined text                                         *)
(* ====================================================================================== *)

Definition lf : ascii := ascii_of_nat 10.
Definition cr : ascii := ascii_of_nat 13.

(* sep.join(lines) *)
Fixpoint join_with (sep : string) (ls : list string) : string :=
  match ls with
  | [] => ""
  | [l] => l
  | l :: t => (l ++ sep ++ join_with sep t)%string
  end.

Definition join_lines : list string -> string := join_with (String lf "").        (* '\n'.join *)
Definition join_lines_crlf : list string -> string := join_with (String cr (String lf "")).
Definition join_lines_nl (ls : list string) : string := (join_lines ls ++ String lf "")%string.   (* + final newline *)

Definition listing_text (fl2 : Z -> Z) (p : list instr) : string := join_lines (print fl2 0 p).

Lemma join_with_cons2 : forall sep l m t, join_with sep (l :: m :: t) = (l ++ sep ++ join_with sep (m :: t))%string.
Proof. reflexivity. Qed.

Lemma cons_tok_app : forall w ts l, cons_tok w ts ++ l = cons_tok w (ts ++ l).
Proof. intros [|c w] ts l; reflexivity. Qed.

(* str.split() of  a <whitespace character> b *)
Lemma split_go_sep : forall a c b, is_ws c = true ->
  split_go (a ++ String c b)%string = (fst (split_go a), snd (split_go a) ++ split_py b).
Proof.
  induction a as [|x a IH]; intros c b H.
  - cbn [append split_go fst snd app]. unfold split_py. destruct (split_go b) as [w ts]. rewrite H. reflexivity.
  - cbn [append split_go]. rewrite (IH c b H). destruct (split_go a) as [wa tsa]. cbn [fst snd].
    destruct (is_ws x); cbn [fst snd]; [rewrite cons_tok_app|]; reflexivity.
Qed.
Lemma split_py_sep1 : forall a c b, is_ws c = true -> split_py (a ++ String c b)%string = split_py a ++ split_py b.
Proof.
  intros a c b H. unfold split_py at 1 2. rewrite (split_go_sep a c b H). destruct (split_go a) as [wa tsa].
  cbn [fst snd]. rewrite cons_tok_app. reflexivity.
Qed.
Lemma split_py_sep : forall a sep b, nonempty sep = true -> sall is_ws sep = true ->
  split_py (a ++ sep ++ b)%string = split_py a ++ split_py b.
Proof.
  intros a [|c w] b N H; [discriminate N|]. cbn [sall] in H. apply andb_prop in H as [H1 H2].
  cbn [append]. rewrite split_py_sep1 by exact H1. rewrite split_py_ws by exact H2. reflexivity.
Qed.
Lemma split_py_trail : forall a w, sall is_ws w = true -> split_py (a ++ w)%string = split_py a.
Proof.
  intros a [|c w] H; [rewrite AsmProofs.append_nil_r; reflexivity|].
  cbn [sall] in H. apply andb_prop in H as [H1 H2]. rewrite split_py_sep1 by exact H1.
  rewrite (split_py_allws w H2). apply app_nil_r.
Qed.

Lemma split_py_join : forall sep ls, nonempty sep = true -> sall is_ws sep = true ->
  split_py (join_with sep ls) = flat_map split_py ls.
Proof.
  intros sep ls N H. induction ls as [|l ls IH]; [reflexivity|]. destruct ls as [|m t].
  - cbn [join_with flat_map]. rewrite app_nil_r. reflexivity.
  - rewrite join_with_cons2, split_py_sep by assumption. rewrite IH. reflexivity.
Qed.

(* the characters of a listing: printable ASCII and the blank *)
Definition lchar (c : ascii) : bool := let n := N_of_ascii c in (32 <=? n)%N && (n <? 127)%N.

(* str.split() (model: split_py) also splits at \x1c..\x1f, the listing reader's split_ws does not:
   they agree on the texts without these four characters *)
Lemma lchar_ws : forall c, lchar c = true -> is_ws c = is_space c.
Proof. intros c. destruct c as [[] [] [] [] [] [] [] []]; intros H; try discriminate H; reflexivity. Qed.
Lemma lchar_ascii : forall c, lchar c = true -> (N_of_ascii c <? 128)%N = true.
Proof. intros c. destruct c as [[] [] [] [] [] [] [] []]; intros H; try discriminate H; reflexivity. Qed.

Lemma split_go_aux : forall s, sall (fun c => Bool.eqb (is_ws c) (is_space c)) s = true -> split_go s = split_aux s.
Proof.
  induction s as [|c s IH]; intros H; [reflexivity|]. cbn [sall] in H. apply andb_prop in H as [H1 H2].
  apply eqb_prop in H1. cbn [split_go split_aux]. rewrite (IH H2), H1. destruct (split_aux s) as [w ts].
  destruct (is_space c); reflexivity.
Qed.
Theorem split_py_split_ws : forall s, sall (fun c => Bool.eqb (is_ws c) (is_space c)) s = true ->
  split_py s = split_ws s.
Proof.
  intros s H. unfold split_py, split_ws. rewrite (split_go_aux s H). destruct (split_aux s) as [w ts].
  destruct w; reflexivity.
Qed.
(* ... and they DO differ on the others *)
Example split_py_ws_differ :
  let s := String "a" (String (ascii_of_nat 28) "b") in split_py s = ["a"; "b"] /\ split_ws s = [s].
Proof. split; reflexivity. Qed.

Lemma split_py_lchar : forall s, sall lchar s = true -> split_py s = split_ws s.
Proof.
  intros s H. apply split_py_split_ws. revert H. apply sall_imp. intros c H. rewrite (lchar_ws c H).
  apply eqb_reflx.
Qed.

Lemma all_ascii_join : forall sep ls, all_ascii sep = true -> Forall (fun l => all_ascii l = true) ls ->
  all_ascii (join_with sep ls) = true.
Proof.
  intros sep ls S F. induction F as [|l ls Hl Fl IH]; [reflexivity|]. destruct ls as [|m t]; [exact Hl|].
  rewrite join_with_cons2, !all_ascii_app, Hl, S, IH. reflexivity.
Qed.

(* ====================================================================================== *)
(* 2. the characters of the listing's lines                                                 *)
(* ====================================================================================== *)

Lemma lchar_nib : forall a b c d, lchar (nib a b c d) = true.
Proof. intros [] [] [] []; reflexivity. Qed.
Lemma lchar_hex : forall v, sall lchar (hex v) = true.
Proof.
  induction v as [|x t IH]; [reflexivity|]. cbn [hex].
  destruct (Byte.to_bits x) as (b0 & b1 & b2 & b3 & b4 & b5 & b6 & b7).
  cbn [sall]. rewrite !lchar_nib, IH. reflexivity.
Qed.
Lemma lchar_uint : forall d, sall lchar (NilEmpty.string_of_uint d) = true.
Proof. induction d; cbn [NilEmpty.string_of_uint sall]; try rewrite IHd; reflexivity. Qed.
Lemma lchar_dec : forall z, sall lchar (dec z) = true.
Proof.
  intros z. unfold dec. destruct (Z.to_int z); cbn [NilEmpty.string_of_int sall]; rewrite lchar_uint; reflexivity.
Qed.
Lemma lchar_tok_d : forall z, sall lchar (tok_d z) = true.
Proof. intros. unfold tok_d. cbn [sall]. rewrite lchar_dec. reflexivity. Qed.
Lemma lchar_tok_x : forall v, sall lchar (tok_x v) = true.
Proof. intros. unfold tok_x. cbn [sall]. rewrite lchar_hex. reflexivity. Qed.
Lemma lchar_name : forall o, sall lchar (opcode_name o) = true.
Proof. destruct o; reflexivity. Qed.
Lemma lchar_nop : forall c, sall lchar (nop_name c) = true.
Proof. intros. unfold nop_name. cbn [append sall]. rewrite lchar_dec. reflexivity. Qed.

Lemma lchar_pad : forall ind s, sall lchar (pad ind s) = sall lchar s.
Proof. induction ind; intros s; cbn [pad sall]; [reflexivity|]. rewrite IHind. reflexivity. Qed.
Definition lwords (ws : list string) : Prop := Forall (fun w => sall lchar w = true) ws.
Lemma lchar_unwords : forall ws, lwords ws -> sall lchar (unwords ws) = true.
Proof.
  induction 1 as [|w ws Hw Hws IH]; [reflexivity|]. destruct ws as [|w2 ws]; [exact Hw|].
  change (unwords (w :: w2 :: ws)) with (w ++ String " " (unwords (w2 :: ws)))%string.
  rewrite sall_app, Hw. cbn [sall]. rewrite IH. reflexivity.
Qed.
Lemma lchar_line : forall ind ws, lwords ws -> sall lchar (line ind ws) = true.
Proof. intros. unfold line. rewrite lchar_pad. apply lchar_unwords. assumption. Qed.

Section Lines.
  Variable fl2 : Z -> Z.

  Lemma lchar_int_tok : forall v, sall lchar (int_tok fl2 v) = true.
  Proof.
    intros v. unfold int_tok. destruct v; [apply lchar_tok_x|].
    destruct (bytes_to_int _); [|apply lchar_tok_x].
    destruct (int_to_bytes _ _); [|apply lchar_tok_x].
    destruct (bytes_eqb _ _); [apply lchar_tok_d|apply lchar_tok_x].
  Qed.

  Lemma lwords_simple : forall i, lwords (simple_toks fl2 i).
  Proof.
    intros i. unfold lwords.
    destruct i; cbn [simple_toks]; try (destruct (shape_of o));
      repeat (first [apply Forall_nil | apply Forall_cons]);
      first [apply lchar_name | apply lchar_tok_d | apply lchar_tok_x | apply lchar_int_tok | apply lchar_nop].
  Qed.

  Definition llines (ls : list string) : Prop := Forall (fun l => sall lchar l = true) ls.

  Lemma llines_flat : forall (f : instr -> list string) p, Forall (fun i => llines (f i)) p -> llines (flat_map f p).
  Proof.
    intros f p F. induction F as [|i p Hi _ IH]; [apply Forall_nil|]. cbn [flat_map]. apply Forall_app. split; assumption.
  Qed.

  Local Ltac lw := unfold lwords; repeat (apply Forall_cons; [first [reflexivity | apply lchar_dec]|]); apply Forall_nil.

  Lemma llines_print1 : forall i ind, llines (print1 fl2 ind i).
  Proof.
    assert (L : forall p, Forall (fun i => forall ind, llines (print1 fl2 ind i)) p ->
                forall ind, llines (flat_map (print1 fl2 ind) p)).
    { intros p F ind. apply llines_flat. revert F. apply Forall_impl. intros i H. apply H. }
    assert (W : forall ind ws, lwords ws -> llines [line ind ws]).
    { intros. apply Forall_cons; [apply lchar_line; assumption|apply Forall_nil]. }
    assert (W1 : forall ind ws rest, lwords ws -> llines rest -> llines (line ind ws :: rest)).
    { intros. apply Forall_cons; [apply lchar_line; assumption|assumption]. }
    induction i using instr_ind'; intros ind;
      try (cbn [print1]; apply W; apply lwords_simple).
    - cbn [print1]. apply Forall_app. split; [apply W1; [lw|apply L; assumption]|apply W; lw].
    - cbn [print1]. apply Forall_app. split; [apply W1; [lw|apply L; assumption]|apply W; lw].
    - cbn [print1]. apply Forall_app. split; [apply W1; [lw|apply L; assumption]|].
      apply Forall_app. split; [apply W1; [lw|apply L; assumption]|apply W; lw].
    - cbn [print1]. apply Forall_app. split; [apply W1; [lw|apply L; assumption]|].
      apply Forall_app. split; [|apply W; lw].
      pose proof (L _ H0 (S ind)) as E. destruct (flat_map (print1 fl2 (S ind)) b2); [apply Forall_nil|].
      apply W1; [lw|exact E].
    - cbn [print1]. apply Forall_app. split; [apply W1; [lw|apply L; assumption]|apply W; lw].
  Qed.

  Lemma llines_print : forall p ind, llines (print fl2 ind p).
  Proof.
    intros p ind. unfold print. apply llines_flat. apply Forall_forall. intros i _. apply llines_print1.
  Qed.

  (* str.split() of the joined text = the tokens the listing reader sees *)
  Lemma split_py_listing_sep : forall sep p ind, nonempty sep = true -> sall is_ws sep = true ->
    split_py (join_with sep (print fl2 ind p)) = tokens_of (print fl2 ind p).
  Proof.
    intros sep p ind N H. rewrite split_py_join by assumption. unfold tokens_of.
    pose proof (llines_print p ind) as L. induction L as [|l ls Hl _ IH]; [reflexivity|].
    cbn [flat_map]. rewrite IH, (split_py_lchar l Hl). reflexivity.
  Qed.

  Theorem listing_text_tokens : forall p, split_py (listing_text fl2 p) = tokens_of (print fl2 0 p).
  Proof. intros p. apply split_py_listing_sep; reflexivity. Qed.

  Lemma all_ascii_listing_sep : forall sep p ind, all_ascii sep = true ->
    all_ascii (join_with sep (print fl2 ind p)) = true.
  Proof.
    intros sep p ind S. apply all_ascii_join; [exact S|]. pose proof (llines_print p ind) as L. revert L.
    apply Forall_impl. intros l. apply sall_imp. exact lchar_ascii.
  Qed.

  Theorem listing_text_ascii : forall p, all_ascii (listing_text fl2 p) = true.
  Proof. intros p. apply all_ascii_listing_sep. reflexivity. Qed.
End Lines.

(* ====================================================================================== *)
(* 3. the tokens of the listing and the pop loop of get_symbols                             *)
(* ====================================================================================== *)

(* what the decompiler prints: no quote, no comment character, no string value, no "@" / "!" *)
Inductive ltok : string -> Prop :=
| lt_name : forall o, ltok (opcode_name o)
| lt_kw : forall s, In s ["OP_TRY"; "{"; "}"; "ELSE"; "EXCEPT"] -> ltok s
| lt_nop : forall code, ltok (nop_name code)
| lt_num : forall z, (0 <= z)%Z -> ltok (dec z)          (* the number of a DEF *)
| lt_d : forall z, ltok (tok_d z)
| lt_x : forall v, ltok (tok_x v).

Lemma upper_uint : forall d, upper_s (NilEmpty.string_of_uint d) = NilEmpty.string_of_uint d.
Proof. unfold upper_s. induction d; cbn [NilEmpty.string_of_uint smap]; try rewrite IHd; reflexivity. Qed.
Lemma upper_dec : forall z, upper_s (dec z) = dec z.
Proof.
  intros z. unfold dec. destruct (Z.to_int z); cbn [NilEmpty.string_of_int]; [apply upper_uint|].
  unfold upper_s. cbn [smap]. fold (upper_s (NilEmpty.string_of_uint d)). rewrite upper_uint. reflexivity.
Qed.

Lemma norm_name : forall o, norm_token (opcode_name o) = opcode_name o.
Proof. destruct o; reflexivity. Qed.
Lemma plain_name : forall o, plain_tok (opcode_name o).
Proof. destruct o; repeat split. Qed.
Lemma stable_name : forall o, stable_tok (opcode_name o).
Proof. intros o. split; [apply plain_name|apply norm_name]. Qed.

Lemma stable_kw : forall s, In s ["OP_TRY"; "{"; "}"; "ELSE"; "EXCEPT"] -> stable_tok s.
Proof. intros s H. cbn [In] in H. destruct H as [<-|[<-|[<-|[<-|[<-|[]]]]]]; repeat split. Qed.

Lemma stable_nop : forall code, stable_tok (nop_name code).
Proof.
  intros code. unfold nop_name. cbn [append]. apply stable_upper; try reflexivity.
  unfold upper_s. cbn [smap]. fold (upper_s (dec (Z.of_nat code))). rewrite upper_dec. reflexivity.
Qed.

Lemma stable_num : forall z, (0 <= z)%Z -> stable_tok (dec z).
Proof.
  intros z H. pose proof (dec_nonempty z) as N. pose proof (upper_dec z) as U.
  destruct (dec_nonneg z H) as (u & E & _). rewrite E in *.
  destruct u; cbn [NilEmpty.string_of_uint] in *; try congruence; apply stable_upper; try reflexivity; exact U.
Qed.

Lemma isnumeric_dec : forall z, (0 <= z)%Z -> isnumeric (dec z) = true.
Proof. intros z H. unfold isnumeric. rewrite nonempty_dec, dec_digits by exact H. reflexivity. Qed.
Lemma isnumeric_dec_neg : forall z, (z < 0)%Z -> isnumeric (dec z) = false.
Proof. intros z H. rewrite (dec_neg z H). reflexivity. Qed.

Lemma plain_tok_d : forall z, plain_tok (tok_d z).
Proof.
  intros z. unfold tok_d. pose proof (dec_nonempty z) as N. destruct (dec z) as [|c r]; [congruence|].
  repeat split.
Qed.
Lemma stable_tok_d : forall z, (0 <= z)%Z -> stable_tok (tok_d z).
Proof. intros z H. apply stable_d. apply isnumeric_dec. exact H. Qed.
(* the one token the loop changes: d<negative> becomes D<negative> (token.upper(), as "-5" is not numeric) *)
Lemma norm_tok_d_neg : forall z, (z < 0)%Z -> norm_token (tok_d z) = String "D" (dec z).
Proof.
  intros z H. unfold tok_d, norm_token. change (Ascii.eqb "d" "d") with true. cbv iota.
  rewrite (isnumeric_dec_neg z H). unfold upper_s. cbn [smap]. fold (upper_s (dec z)). rewrite upper_dec. reflexivity.
Qed.
Lemma norm_tok_d : forall z, exists c, dD c /\ norm_token (tok_d z) = String c (dec z).
Proof.
  intros z. destruct (Z.ltb_spec z 0) as [H|H].
  - exists "D"%char. split; [right; reflexivity|apply norm_tok_d_neg; exact H].
  - exists "d"%char. split; [left; reflexivity|apply (stable_tok_d z H)].
Qed.

Lemma is_hex_hex : forall v, is_hex_s (hex v) = true.
Proof.
  intros v. pose proof (hex_hexlow v) as K. rewrite <- (lower_hex v) in K. unfold lower_s in K.
  rewrite sall_smap in K. exact K.
Qed.
Lemma stable_tok_x : forall v, stable_tok (tok_x v).
Proof. intros v. apply stable_x. apply is_hex_hex. Qed.
Lemma norm_tok_x : forall v, norm_token (tok_x v) = tok_x v.
Proof. intros v. apply (stable_tok_x v). Qed.

(* every printed token is an ordinary token for the loop ... *)
Lemma ltok_plain : forall t, ltok t -> plain_tok t.
Proof.
  intros t [o|s H|code|z H|z|v].
  - apply plain_name.
  - apply (stable_kw s H).
  - apply stable_nop.
  - apply (stable_num z H).
  - apply plain_tok_d.
  - apply stable_tok_x.
Qed.
(* ... and is left unchanged, except d<negative> *)
Lemma norm_ltok : forall t, ltok t ->
  norm_token t = t \/ exists z, (z < 0)%Z /\ t = tok_d z /\ norm_token t = String "D" (dec z).
Proof.
  intros t [o|s H|code|z H|z|v].
  - left. apply norm_name.
  - left. apply (stable_kw s H).
  - left. apply stable_nop.
  - left. apply (stable_num z H).
  - destruct (Z.ltb_spec z 0) as [H|H].
    + right. exists z. split; [exact H|]. split; [reflexivity|apply norm_tok_d_neg; exact H].
    + left. apply (stable_tok_d z H).
  - left. apply norm_tok_x.
Qed.

Lemma posts_plain : forall l, Forall plain_tok l -> posts l (map norm_token l).
Proof. induction 1 as [|t l Ht _ IH]; [apply ps_nil|]. cbn [map]. apply ps_tok; assumption. Qed.

Lemma map_fixed : forall l, Forall (fun t => norm_token t = t) l -> map norm_token l = l.
Proof. induction 1 as [|t l Ht _ IH]; [reflexivity|]. cbn [map]. rewrite Ht, IH. reflexivity. Qed.

Section Tokens.
  Variable fl2 : Z -> Z.

  Lemma ltok_int_tok : forall v, ltok (int_tok fl2 v).
  Proof.
    intros v. unfold int_tok. destruct v; [apply lt_x|].
    destruct (bytes_to_int _); [|apply lt_x].
    destruct (int_to_bytes _ _); [|apply lt_x].
    destruct (bytes_eqb _ _); [apply lt_d|apply lt_x].
  Qed.

  Lemma ltok_simple : forall i, Forall ltok (simple_toks fl2 i).
  Proof.
    intros i. destruct i; cbn [simple_toks]; try (destruct (shape_of o));
      repeat (first [apply Forall_nil | apply Forall_cons]);
      first [apply lt_name | apply lt_d | apply lt_x | apply ltok_int_tok | apply lt_nop].
  Qed.

  Lemma ltok_flat : forall p, Forall (fun i => Forall ltok (ptoks1 fl2 i)) p -> Forall ltok (flat_map (ptoks1 fl2) p).
  Proof.
    intros p F. induction F as [|i p Hi _ IH]; [apply Forall_nil|]. cbn [flat_map]. apply Forall_app. split; assumption.
  Qed.

  Local Ltac kw := apply lt_kw; cbn [In]; tauto.

  Lemma ltok_ptoks1 : forall i, Forall ltok (ptoks1 fl2 i).
  Proof.
    induction i using instr_ind'; try (cbn [ptoks1]; apply ltok_simple).
    - cbn [ptoks1]. apply Forall_cons; [apply lt_name|]. apply Forall_cons; [apply lt_num; apply b2z_nonneg|].
      apply Forall_cons; [kw|]. apply Forall_app. split; [apply ltok_flat; assumption|].
      apply Forall_cons; [kw|apply Forall_nil].
    - cbn [ptoks1]. apply Forall_cons; [apply lt_name|]. apply Forall_cons; [kw|].
      apply Forall_app. split; [apply ltok_flat; assumption|]. apply Forall_cons; [kw|apply Forall_nil].
    - cbn [ptoks1]. apply Forall_cons; [apply lt_name|]. apply Forall_cons; [kw|].
      apply Forall_app. split; [apply ltok_flat; assumption|].
      apply Forall_cons; [kw|]. apply Forall_cons; [kw|]. apply Forall_cons; [kw|].
      apply Forall_app. split; [apply ltok_flat; assumption|]. apply Forall_cons; [kw|apply Forall_nil].
    - cbn [ptoks1]. apply Forall_cons; [kw|]. apply Forall_cons; [kw|].
      apply Forall_app. split; [apply ltok_flat; assumption|].
      apply Forall_app. split; [|apply Forall_cons; [kw|apply Forall_nil]].
      pose proof (ltok_flat _ H0) as E. destruct (flat_map (ptoks1 fl2) b2); [apply Forall_nil|].
      apply Forall_cons; [kw|]. apply Forall_cons; [kw|]. apply Forall_cons; [kw|]. exact E.
    - cbn [ptoks1]. apply Forall_cons; [apply lt_name|]. apply Forall_cons; [kw|].
      apply Forall_app. split; [apply ltok_flat; assumption|]. apply Forall_cons; [kw|apply Forall_nil].
  Qed.

  Theorem listing_tokens_ltok : forall p ind, Forall ltok (tokens_of (print fl2 ind p)).
  Proof.
    intros p ind. rewrite tokens_print. unfold ptoks. apply ltok_flat. apply Forall_forall. intros i _.
    apply ltok_ptoks1.
  Qed.

  (* the symbols get_symbols makes of the listing's tokens *)
  Theorem listing_tokens_posts : forall p ind,
    posts (tokens_of (print fl2 ind p)) (map norm_token (tokens_of (print fl2 ind p))).
  Proof.
    intros p ind. apply posts_plain. pose proof (listing_tokens_ltok p ind) as L. revert L.
    apply Forall_impl. exact ltok_plain.
  Qed.

  (* when no d-operand is negative the symbols are the tokens themselves *)
  Theorem listing_tokens_posts_stable : forall p ind,
    Forall (fun t => norm_token t = t) (tokens_of (print fl2 ind p)) ->
    posts (tokens_of (print fl2 ind p)) (tokens_of (print fl2 ind p)).
  Proof.
    intros p ind S. pose proof (listing_tokens_posts p ind) as P.
    rewrite (map_fixed _ S) in P. exact P.
  Qed.
End Tokens.

(* FINDING (statement 2 of the task as first written is false): the loop does NOT leave every token
   of a listing unchanged.  OP_PUSH0 with the operand byte ff is listed "OP_PUSH0 d-1"; get_symbols
   gives the symbols OP_PUSH0 D-1 (the same in the Python: parsing.get_symbols('OP_PUSH0 d-1') ==
   ['OP_PUSH0', 'D-1']).  The compiler accepts the upper-case prefix, so the round trip still holds. *)
Theorem listing_tokens_not_stable :
  let p := [IOp1 O_PUSH0 xff] in
  tokens_of (print fl2_exact 0 p) = ["OP_PUSH0"; "d-1"] /\
  get_symbols (listing_text fl2_exact p) = Ok ["OP_PUSH0"; "D-1"] /\
  ~ posts (tokens_of (print fl2_exact 0 p)) (tokens_of (print fl2_exact 0 p)).
Proof.
  cbv zeta. split; [reflexivity|]. split; [vm_compute; reflexivity|].
  change (tokens_of (print fl2_exact 0 [IOp1 O_PUSH0 xff])) with ["OP_PUSH0"; "d-1"].
  intros P. apply gs_posts in P. vm_compute in P. discriminate P.
Qed.

(* ====================================================================================== *)
(* 4. the symbols of the listing (d<negative> in upper case) are a spelling of the program  *)
(* ====================================================================================== *)

Lemma name_not_kw : forall o, opcode_name o <> "ELSE" /\ opcode_name o <> "EXCEPT".
Proof. destruct o; split; discriminate. Qed.
Lemma nop_not_kw : forall code, nop_name code <> "ELSE" /\ nop_name code <> "EXCEPT".
Proof. intros code. unfold nop_name. cbn [append]. split; discriminate. Qed.
Lemma norm_d_nonneg : forall z, (0 <= z)%Z -> norm_token (tok_d z) = tok_d z.
Proof. intros z H. apply (stable_tok_d z H). Qed.
Lemma norm_num : forall z, (0 <= z)%Z -> norm_token (dec z) = dec z.
Proof. intros z H. apply (stable_num z H). Qed.

Section Spelling.
  Variable fl2 : Z -> Z.
  Variable ct : bytes -> res (option bytes).
  Hypothesis F : fl2_small fl2.

  Definition ntoks1 (i : instr) : list string := map norm_token (ptoks1 fl2 i).
  Definition ntoks (p : list instr) : list string := map norm_token (ptoks fl2 p).

  Lemma ntoks_cons : forall i p, ntoks (i :: p) = ntoks1 i ++ ntoks p.
  Proof. intros. unfold ntoks, ntoks1, ptoks. cbn [flat_map]. apply map_app. Qed.

  Lemma ptoks1_head_stable : forall i, exists t r0,
    ptoks1 fl2 i = t :: r0 /\ norm_token t = t /\ t <> "ELSE" /\ t <> "EXCEPT".
  Proof.
    intros i. destruct i; cbn [ptoks1 simple_toks]; try destruct (shape_of o);
      do 2 eexists; (split; [reflexivity|]);
      first [ split; [apply norm_name|apply name_not_kw]
            | split; [apply stable_nop|apply nop_not_kw]
            | split; [reflexivity|split; discriminate] ].
  Qed.

  Lemma nxok_head_norm : forall p nx, nxok nx -> nxok (hd_or nx (ntoks p)).
  Proof.
    intros [|i p] nx N; [exact N|]. rewrite ntoks_cons.
    destruct (ptoks1_head_stable i) as (t & r0 & E & S & A & B). unfold ntoks1. rewrite E. cbn [map app hd_or].
    rewrite S. split; intros Q; injection Q as Q; [exact (A Q)|exact (B Q)].
  Qed.

  Definition NLP (i : instr) : Prop := forall c nx, wf i = true -> ldef_ok (is_direct c) i = true -> nxok nx ->
    stmt fl2 c nx [i] (ntoks1 i).
  Definition NLPs (p : list instr) : Prop := forall c nx, wf_prog p = true ->
    forallb (ldef_ok (is_direct c)) p = true -> nxok nx -> seq fl2 c nx p (ntoks p).

  Lemma NLPs_of : forall p, Forall NLP p -> NLPs p.
  Proof.
    induction 1 as [|i p Hi Hp IH]; intros c nx W D N.
    - apply sq_nil.
    - rewrite wf_prog_cons in W. apply andb_prop in W as [Wi Wp].
      cbn [forallb] in D. apply andb_prop in D as [Di Dp].
      rewrite ntoks_cons. apply (sq_cons fl2 c nx [i] (ntoks1 i) p (ntoks p)); [|apply IH; assumption].
      apply Hi; try assumption. apply nxok_head_norm; assumption.
  Qed.

  Lemma sp_byte_norm_d : forall b, sp_byte fl2 b (norm_token (tok_d (s8 b))).
  Proof.
    intros b. destruct (norm_tok_d (s8 b)) as (c & C & ->).
    apply (sb_d fl2 b c _ (s8 b)); [exact C|apply sp_snum_dec|apply i2b_s8; exact F].
  Qed.
  Lemma sp_size_norm_d : forall z, sp_size z (norm_token (tok_d z)).
  Proof. intros z. destruct (norm_tok_d z) as (c & C & ->). apply sz_d; [exact C|apply sp_snum_dec]. Qed.
  Lemma sp_var1_norm_int : forall v, sp_var1 fl2 v (norm_token (int_tok fl2 v)).
  Proof.
    intros v. unfold int_tok. destruct v as [|x t]; [rewrite norm_tok_x; apply sp_var1_tok_x|].
    destruct (bytes_to_int (x :: t)) as [z|]; [|rewrite norm_tok_x; apply sp_var1_tok_x].
    destruct (int_to_bytes fl2 z) as [v'|] eqn:E; [|rewrite norm_tok_x; apply sp_var1_tok_x].
    destruct (bytes_eqb v' (x :: t)) eqn:B; [|rewrite norm_tok_x; apply sp_var1_tok_x].
    apply bytes_eqb_eq in B. subst v'. destruct (norm_tok_d z) as (c & C & ->).
    apply (sv_d fl2 _ c _ z); [exact C| |exact E]. apply fn_int. apply sp_snum_dec.
  Qed.

  Local Ltac nmap := repeat (progress (cbn [map]; rewrite ?map_app)).
  Local Ltac nkw :=
    change (norm_token "{") with "{"; change (norm_token "}") with "}";
    change (norm_token "ELSE") with "ELSE"; change (norm_token "EXCEPT") with "EXCEPT";
    change (norm_token "OP_TRY") with "OP_TRY".

  Lemma NLP_all : forall i, NLP i.
  Proof.
    induction i using instr_ind'; intros cx nx W D N; cbn [wf] in W; unfold ntoks1; cbn [ptoks1 simple_toks].
    - (* IOp0 *) cbn [map]. rewrite norm_name. destruct (shape_of o) eqn:S; try discriminate W.
      apply st_op0; [apply name_self|exact S].
    - (* IOp1 *)
      destruct (shape_of o) eqn:S; try discriminate W; cbn [map]; rewrite norm_name, ?norm_tok_x;
        apply st_op1; try apply name_self; try (rewrite S; reflexivity).
      + apply sp_byte_norm_d.
      + apply sp_byte_tok_x.
    - (* IVar1 *)
      apply andb_prop in W as [W1 W2]. destruct (shape_of o) eqn:S; try discriminate W1;
        cbn [map]; rewrite norm_name, ?norm_tok_x.
      + pose proof (shape_push1 o S) as ->.
        apply st_push1_2; [apply name_self|apply sp_size_norm_d|apply sp_var1_tok_x|apply oplike_x].
      + apply st_var1; [apply name_self|left; exact S|apply sp_var1_tok_x].
      + apply st_var1; [apply name_self|right; exact S|apply sp_var1_norm_int].
    - (* IWriteCache *)
      cbn [map]. rewrite norm_name, norm_tok_x, norm_d_nonneg by apply b2z_nonneg.
      apply st_wc; [apply name_self|apply sk_x; [left; reflexivity|apply sp_hex_hex]|].
      apply sc_d; [left; reflexivity|]. apply num_dec. apply b2z_nonneg.
    - (* IPush2 *)
      cbn [map]. rewrite norm_name, norm_tok_x.
      apply st_push2_2; [apply name_self|apply sp_size_norm_d| |apply oplike_x].
      apply s2_x; [left; reflexivity|apply sp_hex_hex].
    - (* IFix *) cbn [map]. rewrite norm_name, norm_tok_x.
      apply st_fix; [apply name_self|]. apply sx_x; [left; reflexivity|apply sp_hex_hex].
    - (* ISwap *) cbn [map]. rewrite norm_name, !norm_d_nonneg by apply b2z_nonneg.
      apply st_swap; [apply name_self|apply sp_index_tok_d|apply sp_index_tok_d].
    - (* IMultisig *) cbn [map]. rewrite norm_name, norm_tok_x, !norm_d_nonneg by apply b2z_nonneg.
      apply st_ms; [apply name_self|apply sp_index_tok_x|apply sp_index_tok_d|apply sp_index_tok_d].
    - (* IDef *)
      apply andb_prop in W as [W _]. cbn [ldef_ok] in D. apply andb_prop in D as [D1 D2].
      apply negb_true_iff in D1.
      nmap. nkw. rewrite norm_name, norm_num by apply b2z_nonneg.
      change (map norm_token (flat_map (ptoks1 fl2) body)) with (ntoks body). rewrite braces_eq.
      apply st_def_b.
      + intros ->. discriminate D1.
      + apply name_self.
      + apply sh_bare. apply num_dec. apply b2z_nonneg.
      + apply (NLPs_of _ H DefDirect); [exact W|exact D2|split; discriminate].
    - (* IIf *)
      apply andb_prop in W as [W _]. cbn [ldef_ok] in D.
      nmap. nkw. rewrite norm_name.
      change (map norm_token (flat_map (ptoks1 fl2) body)) with (ntoks body). rewrite braces_eq.
      apply st_if; [apply name_self|]. apply it_b; [|apply N].
      apply (NLPs_of _ H (sub_ctx cx)); [exact W|rewrite is_direct_sub; exact D|split; discriminate].
    - (* IIfElse *)
      apply andb_prop in W as [W _]. apply andb_prop in W as [W W3]. apply andb_prop in W as [W1 _].
      cbn [ldef_ok] in D. apply andb_prop in D as [D1 D2].
      nmap. nkw. rewrite norm_name.
      change (map norm_token (flat_map (ptoks1 fl2) b1)) with (ntoks b1).
      change (map norm_token (flat_map (ptoks1 fl2) b2)) with (ntoks b2).
      replace ("{" :: ntoks b1 ++ "}" :: "ELSE" :: "{" :: ntoks b2 ++ ["}"])
        with (braces (ntoks b1) ++ "ELSE" :: braces (ntoks b2))
        by (unfold braces; cbn [app]; rewrite <- app_assoc; reflexivity).
      apply st_if; [apply name_self|]. apply ite_bb.
      + apply (NLPs_of _ H (sub_ctx cx)); [exact W1|rewrite is_direct_sub; exact D1|split; discriminate].
      + apply (NLPs_of _ H0 (sub_ctx cx)); [exact W3|rewrite is_direct_sub; exact D2|split; discriminate].
    - (* ITry *)
      apply andb_prop in W as [W _]. apply andb_prop in W as [W W3]. apply andb_prop in W as [W1 _].
      cbn [ldef_ok] in D. apply andb_prop in D as [D1 D2].
      pose proof (NLPs_of _ H (sub_ctx cx) (Some "}") W1 ltac:(rewrite is_direct_sub; exact D1)
                    ltac:(split; discriminate)) as S1.
      pose proof (NLPs_of _ H0 (sub_ctx cx) (Some "}") W3 ltac:(rewrite is_direct_sub; exact D2)
                    ltac:(split; discriminate)) as S2.
      destruct (flat_map (ptoks1 fl2) b2) as [|t2 ts2] eqn:E2.
      + assert (b2 = []) as ->.
        { destruct b2 as [|i2 b2']; [reflexivity|]. exfalso. cbn [flat_map] in E2.
          apply app_eq_nil in E2 as [E2 _]. exact (ptoks1_nonempty _ _ E2). }
        cbn [app]. nmap. nkw.
        change (map norm_token (flat_map (ptoks1 fl2) b1)) with (ntoks b1). rewrite braces_eq.
        apply st_try_b; [right; reflexivity|exact S1|apply N].
      + rewrite <- E2. nmap. nkw.
        change (map norm_token (flat_map (ptoks1 fl2) b1)) with (ntoks b1).
        change (map norm_token (flat_map (ptoks1 fl2) b2)) with (ntoks b2).
        replace ("OP_TRY" :: "{" :: ntoks b1 ++ ("}" :: "EXCEPT" :: "{" :: ntoks b2) ++ ["}"])
          with ("OP_TRY" :: braces (ntoks b1) ++ "EXCEPT" :: braces (ntoks b2))
          by (unfold braces; cbn [app]; rewrite <- app_assoc; reflexivity).
        apply st_try_bb; [right; reflexivity|exact S1|exact S2].
    - (* ILoop *)
      apply andb_prop in W as [W _]. cbn [ldef_ok] in D.
      nmap. nkw. rewrite norm_name.
      change (map norm_token (flat_map (ptoks1 fl2) body)) with (ntoks body). rewrite braces_eq.
      apply st_loop_b; [apply name_self|].
      apply (NLPs_of _ H (sub_ctx cx)); [exact W|rewrite is_direct_sub; exact D|split; discriminate].
    - (* INop *) cbn [map]. rewrite (proj2 (stable_nop code)). apply st_nop. apply sp_byte_norm_d.
  Qed.

  Theorem listing_spells_norm : forall p, wf_prog p = true -> forallb (ldef_ok false) p = true ->
    spells fl2 p (map norm_token (ptoks fl2 p)).
  Proof.
    intros p W D. apply (NLPs_of p); [|exact W|exact D|split; discriminate].
    apply Forall_forall. intros i _. apply NLP_all.
  Qed.
End Spelling.

(* ====================================================================================== *)
(* 5. compile_script on the text of the listing                                             *)
(* ====================================================================================== *)

Section Main.
  Variable fl2 : Z -> Z.
  Variable ct : bytes -> res (option bytes).
  Hypothesis F : fl2_small fl2.

  (* every ASCII text whose str.split() gives the listing's tokens compiles to the program's code *)
  Theorem listing_tokens_compile : forall p ind text, wf_prog p = true -> forallb (ldef_ok false) p = true ->
    all_ascii text = true -> split_py text = tokens_of (print fl2 ind p) ->
    compile_text fl2 ct text = Ok (encode p).
  Proof.
    intros p ind text W D A E. unfold compile_text.
    rewrite (tokenise_split text (map norm_token (tokens_of (print fl2 ind p))) A)
      by (rewrite E; apply listing_tokens_posts).
    cbn [rbind]. rewrite tokens_print. apply assemble_r_spells; [|exact W].
    apply listing_spells_norm; assumption.
  Qed.

  (* the symbols the compiler sees *)
  Theorem listing_text_symbols : forall p,
    get_symbols (listing_text fl2 p) = Ok (map norm_token (tokens_of (print fl2 0 p))).
  Proof.
    intros p. apply tokenise_split; [apply listing_text_ascii|]. rewrite listing_text_tokens.
    apply listing_tokens_posts.
  Qed.

  (* MAIN: '\n'.join(decompile_script(code)) compiles to code *)
  Theorem listing_text_compiles : forall p, wf_prog p = true -> forallb (ldef_ok false) p = true ->
    compile_text fl2 ct (listing_text fl2 p) = Ok (encode p).
  Proof.
    intros p W D. apply (listing_tokens_compile p 0); try assumption;
      [apply listing_text_ascii|apply listing_text_tokens].
  Qed.

  (* MAIN, on bytes: whatever byte string decompiles, the text of its listing compiles back to it *)
  Theorem listing_text_compiles_bytes : forall b p, decode b = Some p -> forallb (ldef_ok false) p = true ->
    compile_text fl2 ct (listing_text fl2 p) = Ok b.
  Proof.
    intros b p E D. apply decode_sound in E as [E W]. rewrite <- E. apply listing_text_compiles; assumption.
  Qed.

  Corollary decompile_compile_text_bytes : forall b ls, decompile fl2 b = Some ls ->
    (forall p, decode b = Some p -> forallb (ldef_ok false) p = true) ->
    compile_text fl2 ct (join_lines ls) = Ok b.
  Proof.
    intros b ls H D. unfold decompile in H. destruct (decode b) as [p|] eqn:E; [|discriminate H].
    injection H as <-. apply (listing_text_compiles_bytes b p E). apply D. reflexivity.
  Qed.

  (* for the output of the compiler / of the builders (the encoding of a well-formed program) *)
  Corollary decompile_compile_text : forall p, wf_prog p = true -> forallb (ldef_ok false) p = true ->
    option_map (fun ls => compile_text fl2 ct (join_lines ls)) (decompile fl2 (encode p)) = Some (Ok (encode p)).
  Proof.
    intros p W D. unfold decompile. rewrite (decode_encode p W). cbn [option_map]. f_equal.
    apply listing_text_compiles; assumption.
  Qed.

  (* 6. the layout does not matter: any indentation, any whitespace separator between the lines
     (newline, CR LF, several newlines = blank lines), whitespace before and after *)
  Theorem listing_layout_compiles : forall p ind sep w1 w2,
    wf_prog p = true -> forallb (ldef_ok false) p = true ->
    nonempty sep = true -> sall is_ws sep = true -> all_ascii sep = true ->
    sall is_ws w1 = true -> all_ascii w1 = true -> sall is_ws w2 = true -> all_ascii w2 = true ->
    compile_text fl2 ct (w1 ++ join_with sep (print fl2 ind p) ++ w2)%string = Ok (encode p).
  Proof.
    intros p ind sep w1 w2 W D N S A S1 A1 S2 A2. apply (listing_tokens_compile p ind); try assumption.
    - rewrite !all_ascii_app, A1, A2, all_ascii_listing_sep by exact A. reflexivity.
    - rewrite split_py_ws by exact S1. rewrite split_py_trail by exact S2. apply split_py_listing_sep; assumption.
  Qed.

  Corollary listing_text_nl_compiles : forall p ind, wf_prog p = true -> forallb (ldef_ok false) p = true ->
    compile_text fl2 ct (join_lines_nl (print fl2 ind p)) = Ok (encode p).
  Proof.
    intros p ind W D. apply (listing_layout_compiles p ind (String lf "") "" (String lf "")); try assumption; reflexivity.
  Qed.
  Corollary listing_text_crlf_compiles : forall p ind, wf_prog p = true -> forallb (ldef_ok false) p = true ->
    compile_text fl2 ct (join_lines_crlf (print fl2 ind p)) = Ok (encode p).
  Proof.
    intros p ind W D. unfold join_lines_crlf.
    rewrite <- (AsmProofs.append_nil_r (join_with _ _)).
    apply (listing_layout_compiles p ind (String cr (String lf "")) "" ""); try assumption; reflexivity.
  Qed.

  (* any rendering (TokenizerProofs.rend: tokens separated by arbitrary non-empty whitespace, e.g.
     with blank lines, tabs, everything on one line) of the listing's tokens *)
  Theorem listing_rend_compiles : forall p ind text, wf_prog p = true -> forallb (ldef_ok false) p = true ->
    rend (tokens_of (print fl2 ind p)) text -> all_ascii text = true ->
    compile_text fl2 ct text = Ok (encode p).
  Proof.
    intros p ind text W D R A. apply (listing_tokens_compile p ind); try assumption. apply split_rend. exact R.
  Qed.

  (* and all these texts have the same symbols as the listing text itself *)
  Corollary listing_whitespace_irrelevant : forall p text,
    rend (tokens_of (print fl2 0 p)) text -> all_ascii text = true ->
    get_symbols text = get_symbols (listing_text fl2 p).
  Proof.
    intros p text R A. unfold get_symbols. rewrite A, (listing_text_ascii fl2 p), (split_rend _ _ R), listing_text_tokens.
    reflexivity.
  Qed.
End Main.

(* the premise [ldef_ok] is necessary (AssemblerProofs.assemble_listing_needs_ldef_ok, now on the text):
   a DEF directly in a DEF body decompiles, but the compiler refuses the listing *)
Theorem listing_text_needs_ldef_ok :
  let p := [IDef x00 [IDef x01 [IOp0 O_TRUE]]] in
  wf_prog p = true /\ decode (encode p) = Some p /\
  compile_text fl2_exact ct0 (listing_text fl2_exact p) = Err.
Proof. cbv zeta. split; [reflexivity|]. split; vm_compute; reflexivity. Qed.

(* ====================================================================================== *)
(* 6. examples (computed)                                                                   *)
(* ====================================================================================== *)

Definition ex1 : list instr :=
  [IOp0 O_TRUE;
   IIfElse [IOp1 O_PUSH0 xff; IVar1 O_PUSH1 []] [IVar1 O_PUSH1 [x01]; INop 200 x05];
   ITry [IOp0 O_FALSE; IOp0 O_VERIFY] [IIf [IOp1 O_PUSH0 x01]];
   ITry [IOp0 O_DUP] []].

Definition ex2 : list instr :=
  [IDef x03 [IOp0 O_DUP; ILoop [IOp1 O_ADD_INTS x02; IIf [IDef x04 [IOp0 O_NOT]]]];
   IOp1 O_CALL x03;
   IPush2 (List.repeat x07 300);
   IVar1 O_DIV_INT [xff; x7f]; IVar1 O_MOD_INT [x00; x01]; IVar1 O_DIV_INT [x80];
   INop 200 x80; INop 255 x7f].

Definition ex3 : list instr :=
  [IWriteCache [x6b] x02; IVar1 O_READ_CACHE [x6b]; ISwap x00 xff;
   IMultisig O_CHECK_MULTISIG x00 x02 x03; IFix O_DIV_FLOAT [x3f; x80; x00; x00];
   IFix O_MERKLEVAL (List.repeat xab 32);
   ILoop [ITry [IIfElse [IOp1 O_CHECK_SIG x00] [IOp1 O_POP1 x80]] [ILoop [IOp0 O_RETURN]]];
   IOp1 O_TAPROOT x01].

Example ex1_text :
  listing_text fl2_exact [IOp0 O_TRUE; IIfElse [IOp1 O_PUSH0 xff] [INop 200 x05]] =
  ("OP_TRUE" ++ String lf "OP_IF {" ++ String lf "    OP_PUSH0 d-1" ++ String lf "} ELSE {" ++ String lf
   "    NOP200 d5" ++ String lf "}")%string.
Proof. vm_compute. reflexivity. Qed.

Example ex1_compiles :
  wf_prog ex1 = true /\ compile_text fl2_exact ct0 (listing_text fl2_exact ex1) = Ok (encode ex1).
Proof. split; vm_compute; reflexivity. Qed.
Example ex2_compiles :
  wf_prog ex2 = true /\ compile_text fl2_exact ct0 (listing_text fl2_exact ex2) = Ok (encode ex2).
Proof. split; vm_compute; reflexivity. Qed.
Example ex3_compiles :
  wf_prog ex3 = true /\ compile_text fl2_exact ct0 (listing_text fl2_exact ex3) = Ok (encode ex3).
Proof. split; vm_compute; reflexivity. Qed.
(* the same by the theorem *)
Example ex2_compiles_thm : forall ct, compile_text fl2_exact ct (listing_text fl2_exact ex2) = Ok (encode ex2).
Proof. intros ct. apply listing_text_compiles; [apply fl2_exact_small|vm_compute; reflexivity|reflexivity]. Qed.

Print Assumptions split_py_split_ws.
Print Assumptions listing_text_tokens.
Print Assumptions listing_tokens_ltok.
Print Assumptions listing_tokens_posts.
Print Assumptions listing_tokens_not_stable.
Print Assumptions listing_spells_norm.
Print Assumptions listing_text_ascii.
Print Assumptions listing_text_symbols.
Print Assumptions listing_text_compiles.
Print Assumptions listing_text_compiles_bytes.
Print Assumptions decompile_compile_text_bytes.
Print Assumptions decompile_compile_text.
Print Assumptions listing_layout_compiles.
Print Assumptions listing_text_nl_compiles.
Print Assumptions listing_text_crlf_compiles.
Print Assumptions listing_rend_compiles.
Print Assumptions listing_whitespace_irrelevant.
Print Assumptions listing_text_needs_ldef_ok.
Print Assumptions ex1_compiles.
Print Assumptions ex2_compiles.
Print Assumptions ex3_compiles.
