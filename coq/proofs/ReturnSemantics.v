(* C01 / C06: what OP_RETURN ends — the exact semantics of OP_RETURN and of its propagation through the
   block instructions, as equations about [interp] for an arbitrary runner [run] (the parameter through
   which the block instructions execute their bodies).

   Discipline.v proves the *discipline* of the control flag (no stale flag).  This file is the positive
   statement: what each instruction does with a RETURN that happened inside its body.

     OP_RETURN                 pointer of the current tape to its end, flag set, nothing else changes
     OP_IF / OP_IF_ELSE        HAND ON  (pointer of the enclosing tape to its end, flag set again)
     OP_TRY_EXCEPT             HAND ON, from the TRY body and from the EXCEPT body alike
     OP_CALL / OP_LOOP         ABSORB   (flag deleted, pointer just after the instruction)
     OP_EVAL (eval_body)       ABSORB, or HAND ON when the flag 'eval_return' of the configuration is on
     whole scripts             the bytes behind an IF { RETURN } / TRY { fails } EXCEPT { RETURN } never run *)
From Coq Require Import ZArith List Bool Lia.
From Coq.Strings Require Import Byte String.
From TS Require Import Bytes Codec State Prog Ops Interp StateLemmas InterpLemmas NopSpec StackLemmas
  BytesLemmas TapeLemmas TapeSteps Asm BuilderSpecC15 Discipline TablesCheck.
Import ListNotations.
Local Open Scope nat_scope.

(* ------------------------------------------------------------------------------------------ *)
(* Definitions                                                                                *)
(* ------------------------------------------------------------------------------------------ *)

(* the control flag is in the cache (Discipline.flag_clear is its negation) *)
Definition returned (st : state) : Prop := cache_get (st_cache st) returned_key <> None.

(* the test made by AReturnedTest *)
Definition flagged (st : state) : bool :=
  match cache_get (st_cache st) returned_key with Some _ => true | None => false end.

(* cache['returned'] = True / del cache['returned'] *)
Definition set_flag (st : state) : state :=
  with_cache st (cache_set (st_cache st) returned_key (VOne (ABool true))).
Definition clear_flag (st : state) : state :=
  with_cache st (cache_del (st_cache st) returned_key).

(* the frame [fr] with its pointer moved to the end of its tape, as the tape is in [st] *)
Definition end_of (fr : frame) (st : state) : frame :=
  {| fr_tid := fr_tid fr; fr_ptr := List.length (to_data (nth_tape st (fr_tid fr))) |}.

(* what propagate_return does in the frame of the block instruction *)
Definition hand_on (fr : frame) (st : state) : outcome unit :=
  if flagged st then Done tt (end_of fr st) (set_flag st) else Done tt fr st.

(* a block instruction standing in frame [fr], seen after its body ended with outcome [o] *)
Definition after_body (fr : frame) (o : outcome unit) : outcome unit :=
  match o with
  | Done _ _ st' => hand_on fr st'
  | Raised e _ st' => Raised e fr st'
  | OutOfFuel => OutOfFuel
  | Unmodelled w => Unmodelled w
  end.

(* operand bytes of OP_IF / OP_LOOP (OP_IF_ELSE / OP_TRY_EXCEPT: BuilderSpecC15.ifelse_ops) *)
Definition block_ops (body : bytes) : bytes := len2 body ++ body.

(* the state in which the body of OP_EVAL starts: as sub_start, the call count one higher *)
Definition eval_start (st : state) (tid : nat) (body : bytes) : state :=
  with_tapes (with_defs st (st_defs st ++ [nth_defs st (to_defs (nth_tape st tid))]))
    (st_tapes st ++ [{| to_data := body; to_count := (to_count (nth_tape st tid) + 1)%Z;
                        to_defs := List.length (st_defs st) |}]).

(* the state in which the body of OP_LOOP runs first: a new tape object that SHARES the definitions *)
Definition loop_start (st : state) (tid : nat) (body : bytes) : state :=
  with_tapes st
    (st_tapes st ++ [{| to_data := body; to_count := to_count (nth_tape st tid);
                        to_defs := to_defs (nth_tape st tid) |}]).

(* OP_CALL: the call count of the calling tape goes up by one and is copied to the definition tape *)
Definition count_up (st : state) (tid : nat) : state :=
  with_tapes st (list_set (st_tapes st) tid
    {| to_data := to_data (nth_tape st tid); to_count := (to_count (nth_tape st tid) + 1)%Z;
       to_defs := to_defs (nth_tape st tid) |}).
Definition call_start (st : state) (tid dt : nat) : state :=
  let st1 := count_up st tid in
  with_tapes st1 (list_set (st_tapes st1) dt
    {| to_data := to_data (nth_tape st1 dt); to_count := to_count (nth_tape st1 tid);
       to_defs := to_defs (nth_tape st1 dt) |}).

(* OP_TRY_EXCEPT: cache[b'E'] = [ (class name + '|').encode() ] *)
Definition write_E (e : exn) (st : state) : state :=
  with_cache st (cache_set (st_cache st) (KBytes (str "E")) (VMany [ABytes (exn_name e ++ str "|")])).

(* ------------------------------------------------------------------------------------------ *)
(* Facts about the flag                                                                       *)
(* ------------------------------------------------------------------------------------------ *)

Lemma flagged_true st : flagged st = true <-> returned st.
Proof.
  unfold flagged, returned. destruct (cache_get _ _); split; intro H; congruence.
Qed.

Lemma flagged_false st : flagged st = false <-> flag_clear st.
Proof.
  unfold flagged, flag_clear. destruct (cache_get _ _); split; intro H; congruence.
Qed.

Lemma returned_not_clear st : returned st <-> ~ flag_clear st.
Proof. unfold returned, flag_clear. tauto. Qed.

Lemma set_flag_returned st : returned (set_flag st).
Proof.
  unfold returned, set_flag. cbn [st_cache with_cache]. rewrite cache_get_set_same. discriminate.
Qed.

Lemma set_flag_value st :
  cache_get (st_cache (set_flag st)) returned_key = Some (VOne (ABool true)).
Proof. unfold set_flag. cbn [st_cache with_cache]. apply cache_get_set_same. Qed.

Lemma set_flag_flagged st : flagged (set_flag st) = true.
Proof. apply flagged_true, set_flag_returned. Qed.

Lemma clear_flag_clear st : flag_clear (clear_flag st).
Proof. unfold flag_clear, clear_flag. cbn [st_cache with_cache]. apply cache_get_del_same. Qed.

(* everything except the flag entry is unchanged by set_flag / clear_flag *)
Lemma set_flag_rest st :
  st_stack (set_flag st) = st_stack st /\ st_tapes (set_flag st) = st_tapes st /\
  st_defs (set_flag st) = st_defs st /\ st_log (set_flag st) = st_log st /\
  st_rand (set_flag st) = st_rand st /\
  forall k, ckey_eqb returned_key k = false ->
    cache_get (st_cache (set_flag st)) k = cache_get (st_cache st) k.
Proof.
  repeat split. intros k Hk. unfold set_flag. cbn [st_cache with_cache].
  apply cache_get_set_other. exact Hk.
Qed.

Lemma clear_flag_rest st :
  st_stack (clear_flag st) = st_stack st /\ st_tapes (clear_flag st) = st_tapes st /\
  st_defs (clear_flag st) = st_defs st /\ st_log (clear_flag st) = st_log st /\
  st_rand (clear_flag st) = st_rand st /\
  forall k, ckey_eqb returned_key k = false ->
    cache_get (st_cache (clear_flag st)) k = cache_get (st_cache st) k.
Proof.
  repeat split. intros k Hk. unfold clear_flag. cbn [st_cache with_cache].
  apply cache_get_del_other. exact Hk.
Qed.

Lemma cache_del_absent (c : cache) k : cache_get c k = None -> cache_del c k = c.
Proof.
  induction c as [|[k0 v0] c IH]; simpl; [reflexivity|].
  destruct (ckey_eqb k0 k); [discriminate|]. intro H. rewrite IH by exact H. reflexivity.
Qed.

(* deleting an absent flag changes nothing *)
Lemma clear_flag_id st : flag_clear st -> clear_flag st = st.
Proof.
  intro H. unfold clear_flag. rewrite cache_del_absent by exact H. destruct st; reflexivity.
Qed.

Lemma cache_set_twice (c : cache) k v : cache_set (cache_set c k v) k v = cache_set c k v.
Proof.
  induction c as [|[k0 v0] c IH]; simpl.
  - rewrite ckey_eqb_refl. reflexivity.
  - destruct (ckey_eqb k0 k) eqn:E; simpl.
    + rewrite ckey_eqb_refl. reflexivity.
    + rewrite E, IH. reflexivity.
Qed.

Lemma set_flag_twice st : set_flag (set_flag st) = set_flag st.
Proof. unfold set_flag. cbn [st_cache with_cache]. rewrite cache_set_twice. reflexivity. Qed.

Lemma end_of_at_end fr st : at_end (end_of fr st) st.
Proof. reflexivity. Qed.

Lemma end_of_at_end_set fr st : at_end (end_of fr st) (set_flag st).
Proof. reflexivity. Qed.

Lemma hand_on_returned fr st : returned st -> hand_on fr st = Done tt (end_of fr st) (set_flag st).
Proof. intro H. unfold hand_on. apply flagged_true in H. rewrite H. reflexivity. Qed.

Lemma hand_on_clear fr st : flag_clear st -> hand_on fr st = Done tt fr st.
Proof. intro H. unfold hand_on. apply flagged_false in H. rewrite H. reflexivity. Qed.

(* list_set at a valid / an invalid index *)
Lemma nth_list_set_same {A} (l : list A) i x d : i < List.length l -> nth i (list_set l i x) d = x.
Proof.
  revert i. induction l as [|h t IH]; intros [|i] H; simpl in *; try lia; [reflexivity|].
  apply IH. lia.
Qed.

Lemma list_set_oob {A} (l : list A) i x : List.length l <= i -> list_set l i x = l.
Proof.
  revert i. induction l as [|h t IH]; intros [|i] H; simpl in *; try lia; try reflexivity.
  rewrite IH by lia. reflexivity.
Qed.

Lemma tdata_nonempty_valid st tid : tdata st tid <> [] -> tid < List.length (st_tapes st).
Proof.
  intro H. destruct (Nat.lt_ge_cases tid (List.length (st_tapes st))) as [Hl|Hg]; [exact Hl|].
  exfalso. apply H. unfold tdata, nth_tape. rewrite nth_overflow by exact Hg. reflexivity.
Qed.

(* count_up keeps the data and the definitions of every tape *)
Lemma count_up_defs st tid : to_defs (nth_tape (count_up st tid) tid) = to_defs (nth_tape st tid).
Proof.
  unfold count_up, nth_tape at 1. cbn [st_tapes with_tapes].
  destruct (Nat.lt_ge_cases tid (List.length (st_tapes st))) as [Hl|Hg].
  - rewrite nth_list_set_same by exact Hl. reflexivity.
  - rewrite list_set_oob by exact Hg. reflexivity.
Qed.

Lemma count_up_count st tid :
  tid < List.length (st_tapes st) ->
  to_count (nth_tape (count_up st tid) tid) = (to_count (nth_tape st tid) + 1)%Z.
Proof.
  intro Hl. unfold count_up, nth_tape at 1. cbn [st_tapes with_tapes].
  rewrite nth_list_set_same by exact Hl. reflexivity.
Qed.

(* ------------------------------------------------------------------------------------------ *)
(* The instructions, for every oracle, configuration and runner                               *)
(* ------------------------------------------------------------------------------------------ *)

Section Gen.
Variable orc : oracle.
Variable cfg : config.
Variable run : nat -> state -> outcome unit.

(* ---------- 1. OP_RETURN ---------- *)

Theorem op_return_exact fr st :
  interp orc cfg run OP_RETURN fr st = Done tt (end_of fr st) (set_flag st).
Proof. reflexivity. Qed.

(* the same in words: the pointer is at the end of the current tape, the flag is set (to True), and
   the stack, the tape objects, the definitions, the log, the random counter and every other cache
   entry are what they were *)
Theorem op_return_spec fr st :
  exists fr_end st',
    interp orc cfg run OP_RETURN fr st = Done tt fr_end st' /\
    fr_tid fr_end = fr_tid fr /\ at_end fr_end st' /\ returned st' /\
    cache_get (st_cache st') returned_key = Some (VOne (ABool true)) /\
    st_stack st' = st_stack st /\ st_tapes st' = st_tapes st /\ st_defs st' = st_defs st /\
    st_log st' = st_log st /\ st_rand st' = st_rand st /\
    (forall k, ckey_eqb returned_key k = false ->
       cache_get (st_cache st') k = cache_get (st_cache st) k).
Proof.
  exists (end_of fr st), (set_flag st).
  split; [reflexivity|]. split; [reflexivity|]. split; [reflexivity|].
  split; [apply set_flag_returned|]. split; [apply set_flag_value|]. apply set_flag_rest.
Qed.

(* propagate_return, exactly *)
Lemma propagate_exact fr st : interp orc cfg run propagate_return fr st = hand_on fr st.
Proof.
  unfold propagate_return, OP_RETURN, act, hand_on, flagged. cbn [bind interp step].
  destruct (cache_get (st_cache st) returned_key); reflexivity.
Qed.

(* ---------- 2. OP_IF ---------- *)

(* OP_IF, the pointer standing just behind the opcode: the body is read, the condition is popped; with a
   true condition a NEW tape object holding the body is run from offset 0 and the flag is handed on *)
Theorem op_if_exact tid st ptr (pfx body tail : bytes) cond s :
  tdata st tid = pfx ++ block_ops body ++ tail -> ptr = List.length pfx ->
  (blen body < 65536)%Z -> st_stack st = cond :: s ->
  interp orc cfg run OP_IF {| fr_tid := tid; fr_ptr := ptr |} st =
    let fr' := {| fr_tid := tid; fr_ptr := ptr + List.length (block_ops body) |} in
    if bytes_to_bool cond
    then after_body fr' (run (List.length (st_tapes st)) (sub_start (with_stack st s) tid body))
    else Done tt fr' (with_stack st s).
Proof.
  intros Hd Hp H1 Hs.
  assert (Hd' : tdata st tid = pfx ++ len2 body ++ body ++ tail).
  { rewrite Hd. unfold block_ops. rewrite <- !app_assoc. reflexivity. }
  unfold OP_IF, read_u16, read, get, act. cbn [bind].
  rewrite (read_at orc cfg run _ _ tid ptr st pfx (len2 body) (body ++ tail) 2 Hd' Hp)
    by (rewrite length_len2; reflexivity).
  cbn [bind]. rewrite be_len2 by exact H1.
  rewrite (read_at orc cfg run _ _ tid _ st (pfx ++ len2 body) body tail (blen body))
    by (first [ rewrite Hd', <- !app_assoc; reflexivity | rewrite app_length; subst ptr; reflexivity
              | unfold blen; apply Nat2Z.id ]).
  cbn [bind].
  rewrite (get_step orc cfg run _ _ _ st cond s Hs).
  replace (ptr + List.length (len2 body) + List.length body)
    with (ptr + List.length (block_ops body)) by (unfold block_ops; rewrite !app_length; lia).
  cbv zeta. destruct (bytes_to_bool cond).
  - cbn [bind]. rewrite runsub_step. unfold after_body.
    destruct (run _ _) as [[] frb st'|e frb st'| |w]; try reflexivity. apply propagate_exact.
  - reflexivity.
Qed.

Section IfCases.
Variables (tid ptr : nat) (st : state) (pfx body tail cond : bytes) (s : list bytes).
Hypothesis Hd : tdata st tid = pfx ++ block_ops body ++ tail.
Hypothesis Hp : ptr = List.length pfx.
Hypothesis Hb : (blen body < 65536)%Z.
Hypothesis Hs : st_stack st = cond :: s.

Let fr := {| fr_tid := tid; fr_ptr := ptr |}.
Let fr' := {| fr_tid := tid; fr_ptr := ptr + List.length (block_ops body) |}.   (* just after the instruction *)
Let body_run := run (List.length (st_tapes st)) (sub_start (with_stack st s) tid body).

(* true condition, the body ends with the flag set: the RETURN is handed on *)
Theorem op_if_true_returned frb st' :
  bytes_to_bool cond = true -> body_run = Done tt frb st' -> returned st' ->
  interp orc cfg run OP_IF fr st = Done tt (end_of fr' st') (set_flag st') /\
  at_end (end_of fr' st') (set_flag st') /\ returned (set_flag st').
Proof.
  intros Hc Hr Hf. split; [|split; [reflexivity|apply set_flag_returned]].
  unfold fr. rewrite (op_if_exact tid st ptr pfx body tail cond s Hd Hp Hb Hs). cbv zeta.
  rewrite Hc. fold body_run. rewrite Hr. apply hand_on_returned. exact Hf.
Qed.

(* true condition, the body ends with the flag clear: on to the next instruction *)
Theorem op_if_true_clear frb st' :
  bytes_to_bool cond = true -> body_run = Done tt frb st' -> flag_clear st' ->
  interp orc cfg run OP_IF fr st = Done tt fr' st'.
Proof.
  intros Hc Hr Hf.
  unfold fr. rewrite (op_if_exact tid st ptr pfx body tail cond s Hd Hp Hb Hs). cbv zeta.
  rewrite Hc. fold body_run. rewrite Hr. apply hand_on_clear. exact Hf.
Qed.

(* true condition, the body raises: the same exception, the state of the body *)
Theorem op_if_true_raises e frb st' :
  bytes_to_bool cond = true -> body_run = Raised e frb st' ->
  interp orc cfg run OP_IF fr st = Raised e fr' st'.
Proof.
  intros Hc Hr.
  unfold fr. rewrite (op_if_exact tid st ptr pfx body tail cond s Hd Hp Hb Hs). cbv zeta.
  rewrite Hc. fold body_run. rewrite Hr. reflexivity.
Qed.

(* false condition: the body does not run (no call of [run] at all: the result does not depend on it) *)
Theorem op_if_false :
  bytes_to_bool cond = false ->
  interp orc cfg run OP_IF fr st = Done tt fr' (with_stack st s).
Proof.
  intros Hc.
  unfold fr. rewrite (op_if_exact tid st ptr pfx body tail cond s Hd Hp Hb Hs). cbv zeta.
  rewrite Hc. reflexivity.
Qed.

End IfCases.

(* ---------- 3. OP_IF_ELSE ---------- *)

Theorem op_if_else_exact tid st ptr (pfx b1 b2 tail : bytes) cond s :
  tdata st tid = pfx ++ ifelse_ops b1 b2 ++ tail -> ptr = List.length pfx ->
  (blen b1 < 65536)%Z -> (blen b2 < 65536)%Z -> st_stack st = cond :: s ->
  interp orc cfg run OP_IF_ELSE {| fr_tid := tid; fr_ptr := ptr |} st =
    after_body {| fr_tid := tid; fr_ptr := ptr + List.length (ifelse_ops b1 b2) |}
      (run (List.length (st_tapes st))
           (sub_start (with_stack st s) tid (if bytes_to_bool cond then b1 else b2))).
Proof.
  intros Hd Hp H1 H2 Hs.
  rewrite (if_else_exec orc cfg run tid st ptr pfx b1 b2 tail cond s Hd Hp H1 H2 Hs). cbv zeta.
  unfold after_body. destruct (run _ _) as [[] frb st'|e frb st'| |w]; try reflexivity.
  apply propagate_exact.
Qed.

Section IfElseCases.
Variables (tid ptr : nat) (st : state) (pfx b1 b2 tail cond : bytes) (s : list bytes).
Hypothesis Hd : tdata st tid = pfx ++ ifelse_ops b1 b2 ++ tail.
Hypothesis Hp : ptr = List.length pfx.
Hypothesis Hb1 : (blen b1 < 65536)%Z.
Hypothesis Hb2 : (blen b2 < 65536)%Z.
Hypothesis Hs : st_stack st = cond :: s.

Let fr := {| fr_tid := tid; fr_ptr := ptr |}.
Let fr' := {| fr_tid := tid; fr_ptr := ptr + List.length (ifelse_ops b1 b2) |}.
(* the arm that runs: the first one exactly when the condition is true *)
Let arm_run := run (List.length (st_tapes st))
                   (sub_start (with_stack st s) tid (if bytes_to_bool cond then b1 else b2)).

Theorem op_if_else_returned frb st' :
  arm_run = Done tt frb st' -> returned st' ->
  interp orc cfg run OP_IF_ELSE fr st = Done tt (end_of fr' st') (set_flag st') /\
  at_end (end_of fr' st') (set_flag st') /\ returned (set_flag st').
Proof.
  intros Hr Hf. split; [|split; [reflexivity|apply set_flag_returned]].
  unfold fr. rewrite (op_if_else_exact tid st ptr pfx b1 b2 tail cond s Hd Hp Hb1 Hb2 Hs).
  fold arm_run. rewrite Hr. apply hand_on_returned. exact Hf.
Qed.

Theorem op_if_else_clear frb st' :
  arm_run = Done tt frb st' -> flag_clear st' ->
  interp orc cfg run OP_IF_ELSE fr st = Done tt fr' st'.
Proof.
  intros Hr Hf.
  unfold fr. rewrite (op_if_else_exact tid st ptr pfx b1 b2 tail cond s Hd Hp Hb1 Hb2 Hs).
  fold arm_run. rewrite Hr. apply hand_on_clear. exact Hf.
Qed.

Theorem op_if_else_raises e frb st' :
  arm_run = Raised e frb st' ->
  interp orc cfg run OP_IF_ELSE fr st = Raised e fr' st'.
Proof.
  intros Hr.
  unfold fr. rewrite (op_if_else_exact tid st ptr pfx b1 b2 tail cond s Hd Hp Hb1 Hb2 Hs).
  fold arm_run. rewrite Hr. reflexivity.
Qed.

End IfElseCases.

(* ---------- 4. OP_TRY_EXCEPT ---------- *)

Lemma trysub_step A (k : option exn -> prog A) tid ptr st data :
  interp orc cfg run (Act (ATrySub data) k) {| fr_tid := tid; fr_ptr := ptr |} st =
    match run (List.length (st_tapes st)) (sub_start st tid data) with
    | Done _ _ st' => interp orc cfg run (k None) {| fr_tid := tid; fr_ptr := ptr |} st'
    | Raised e _ st' => interp orc cfg run (k (Some e)) {| fr_tid := tid; fr_ptr := ptr |} st'
    | OutOfFuel => OutOfFuel
    | Unmodelled w => Unmodelled w
    end.
Proof.
  transitivity
    (match (match run (List.length (st_tapes st)) (sub_start st tid data) with
            | Done _ _ st' => SOk None {| fr_tid := tid; fr_ptr := ptr |} st'
            | Raised e _ st' => SOk (Some e) {| fr_tid := tid; fr_ptr := ptr |} st'
            | OutOfFuel => SFuel
            | Unmodelled w => SUnmod w
            end) with
     | SOk x fr' st' => interp orc cfg run (k x) fr' st'
     | SRaise e fr' st' => Raised e fr' st'
     | SFuel => OutOfFuel
     | SUnmod w => Unmodelled w
     end).
  - reflexivity.
  - destruct (run _ _) as [[] fr' st'|e fr' st'| |w]; reflexivity.
Qed.

Lemma cacheset_step A (k : unit -> prog A) fr st key v :
  interp orc cfg run (Act (ACacheSet key v) k) fr st =
    interp orc cfg run (k tt) fr (with_cache st (cache_set (st_cache st) (KBytes key) v)).
Proof. reflexivity. Qed.

(* OP_TRY_EXCEPT, the pointer standing just behind the opcode.  Both bodies are read.  The TRY body runs
   on a new tape object; if it ends normally the flag is handed on and the EXCEPT body does not run; if
   it raises [e], the record of [e] is written under the bytes key "E" (in the state the TRY body left),
   the EXCEPT body runs on another new tape object and ITS flag is handed on, ITS exception raised. *)
Theorem op_try_except_exact tid st ptr (pfx b1 b2 tail : bytes) :
  tdata st tid = pfx ++ ifelse_ops b1 b2 ++ tail -> ptr = List.length pfx ->
  (blen b1 < 65536)%Z -> (blen b2 < 65536)%Z ->
  interp orc cfg run OP_TRY_EXCEPT {| fr_tid := tid; fr_ptr := ptr |} st =
    let fr' := {| fr_tid := tid; fr_ptr := ptr + List.length (ifelse_ops b1 b2) |} in
    match run (List.length (st_tapes st)) (sub_start st tid b1) with
    | Done _ _ st1 => hand_on fr' st1
    | Raised e _ st1 =>
        after_body fr' (run (List.length (st_tapes (write_E e st1))) (sub_start (write_E e st1) tid b2))
    | OutOfFuel => OutOfFuel
    | Unmodelled w => Unmodelled w
    end.
Proof.
  intros Hd Hp H1 H2.
  assert (Hd' : tdata st tid = pfx ++ len2 b1 ++ b1 ++ len2 b2 ++ b2 ++ tail).
  { rewrite Hd. unfold ifelse_ops. rewrite <- !app_assoc. reflexivity. }
  unfold OP_TRY_EXCEPT, read_u16, read, act. cbn [bind].
  rewrite (read_at orc cfg run _ _ tid ptr st pfx (len2 b1) (b1 ++ len2 b2 ++ b2 ++ tail) 2 Hd' Hp)
    by (rewrite length_len2; reflexivity).
  cbn [bind]. rewrite be_len2 by exact H1.
  rewrite (read_at orc cfg run _ _ tid _ st (pfx ++ len2 b1) b1 (len2 b2 ++ b2 ++ tail) (blen b1))
    by (first [ rewrite Hd', <- !app_assoc; reflexivity | rewrite app_length; subst ptr; reflexivity
              | unfold blen; apply Nat2Z.id ]).
  cbn [bind].
  rewrite (read_at orc cfg run _ _ tid _ st (pfx ++ len2 b1 ++ b1) (len2 b2) (b2 ++ tail) 2)
    by (first [ rewrite Hd', <- !app_assoc; reflexivity | rewrite !app_length; subst ptr; lia
              | rewrite length_len2; reflexivity ]).
  cbn [bind]. rewrite be_len2 by exact H2.
  rewrite (read_at orc cfg run _ _ tid _ st (pfx ++ len2 b1 ++ b1 ++ len2 b2) b2 tail (blen b2))
    by (first [ rewrite Hd', <- !app_assoc; reflexivity | rewrite !app_length; subst ptr; lia
              | unfold blen; apply Nat2Z.id ]).
  cbn [bind].
  replace (ptr + List.length (len2 b1) + List.length b1 + List.length (len2 b2) + List.length b2)
    with (ptr + List.length (ifelse_ops b1 b2)) by (unfold ifelse_ops; rewrite !app_length; lia).
  rewrite trysub_step. cbv zeta.
  destruct (run _ _) as [[] fr1 st1|e fr1 st1| |w]; try reflexivity.
  - cbn [bind]. apply propagate_exact.
  - unfold cache_items, act. cbn [bind map].
    rewrite cacheset_step. fold (write_E e st1).
    rewrite runsub_step. unfold after_body.
    destruct (run _ _) as [[] fr3 st3|e3 fr3 st3| |w]; try reflexivity.
    apply propagate_exact.
Qed.

Section TryCases.
Variables (tid ptr : nat) (st : state) (pfx b1 b2 tail : bytes).
Hypothesis Hd : tdata st tid = pfx ++ ifelse_ops b1 b2 ++ tail.
Hypothesis Hp : ptr = List.length pfx.
Hypothesis Hb1 : (blen b1 < 65536)%Z.
Hypothesis Hb2 : (blen b2 < 65536)%Z.

Let fr := {| fr_tid := tid; fr_ptr := ptr |}.
Let fr' := {| fr_tid := tid; fr_ptr := ptr + List.length (ifelse_ops b1 b2) |}.
Let try_run := run (List.length (st_tapes st)) (sub_start st tid b1).
(* the run of the EXCEPT body after the TRY body raised [e] leaving state [st1] *)
Let except_run (e : exn) (st1 : state) :=
  run (List.length (st_tapes (write_E e st1))) (sub_start (write_E e st1) tid b2).

(* (a) TRY body Done, flag set: handed on; the EXCEPT body is not run *)
Theorem op_try_returned frb st1 :
  try_run = Done tt frb st1 -> returned st1 ->
  interp orc cfg run OP_TRY_EXCEPT fr st = Done tt (end_of fr' st1) (set_flag st1) /\
  at_end (end_of fr' st1) (set_flag st1) /\ returned (set_flag st1).
Proof.
  intros Hr Hf. split; [|split; [reflexivity|apply set_flag_returned]].
  unfold fr. rewrite (op_try_except_exact tid st ptr pfx b1 b2 tail Hd Hp Hb1 Hb2). cbv zeta.
  fold try_run. rewrite Hr. apply hand_on_returned. exact Hf.
Qed.

(* (b) TRY body Done, flag clear: on to the next instruction; the EXCEPT body is not run *)
Theorem op_try_clear frb st1 :
  try_run = Done tt frb st1 -> flag_clear st1 ->
  interp orc cfg run OP_TRY_EXCEPT fr st = Done tt fr' st1.
Proof.
  intros Hr Hf.
  unfold fr. rewrite (op_try_except_exact tid st ptr pfx b1 b2 tail Hd Hp Hb1 Hb2). cbv zeta.
  fold try_run. rewrite Hr. apply hand_on_clear. exact Hf.
Qed.

(* (c) TRY body raises, EXCEPT body Done with the flag set: HANDED ON *)
Theorem op_try_except_returned e frb st1 frc st3 :
  try_run = Raised e frb st1 -> except_run e st1 = Done tt frc st3 -> returned st3 ->
  interp orc cfg run OP_TRY_EXCEPT fr st = Done tt (end_of fr' st3) (set_flag st3) /\
  at_end (end_of fr' st3) (set_flag st3) /\ returned (set_flag st3).
Proof.
  intros Hr Hx Hf. split; [|split; [reflexivity|apply set_flag_returned]].
  unfold fr. rewrite (op_try_except_exact tid st ptr pfx b1 b2 tail Hd Hp Hb1 Hb2). cbv zeta.
  fold try_run. rewrite Hr. fold (except_run e st1). rewrite Hx. apply hand_on_returned. exact Hf.
Qed.

(* (d) TRY body raises, EXCEPT body Done with the flag clear: on to the next instruction *)
Theorem op_try_except_clear e frb st1 frc st3 :
  try_run = Raised e frb st1 -> except_run e st1 = Done tt frc st3 -> flag_clear st3 ->
  interp orc cfg run OP_TRY_EXCEPT fr st = Done tt fr' st3.
Proof.
  intros Hr Hx Hf.
  unfold fr. rewrite (op_try_except_exact tid st ptr pfx b1 b2 tail Hd Hp Hb1 Hb2). cbv zeta.
  fold try_run. rewrite Hr. fold (except_run e st1). rewrite Hx. apply hand_on_clear. exact Hf.
Qed.

(* (e) TRY body raises, EXCEPT body raises: the instruction raises the exception of the EXCEPT body *)
Theorem op_try_except_raises e frb st1 e' frc st3 :
  try_run = Raised e frb st1 -> except_run e st1 = Raised e' frc st3 ->
  interp orc cfg run OP_TRY_EXCEPT fr st = Raised e' fr' st3.
Proof.
  intros Hr Hx.
  unfold fr. rewrite (op_try_except_exact tid st ptr pfx b1 b2 tail Hd Hp Hb1 Hb2). cbv zeta.
  fold try_run. rewrite Hr. fold (except_run e st1). rewrite Hx. reflexivity.
Qed.

(* the EXCEPT body starts from the state the TRY body left, with the record of the exception under "E" *)
Theorem except_body_sees_E e st1 :
  cache_get (st_cache (sub_start (write_E e st1) tid b2)) (KBytes (str "E")) =
    Some (VMany [ABytes (exn_name e ++ str "|")]).
Proof. unfold sub_start, write_E. cbn [st_cache with_cache with_tapes with_defs]. apply cache_get_set_same. Qed.

End TryCases.

End Gen.

(* ------------------------------------------------------------------------------------------ *)
(* 5. The instructions that ABSORB a RETURN: OP_CALL, OP_LOOP, OP_EVAL                        *)
(* ------------------------------------------------------------------------------------------ *)

Section Absorb.
Variable orc : oracle.
Variable cfg : config.
Variable run : nat -> state -> outcome unit.

Lemma count_step A (k : Z -> prog A) fr st :
  interp orc cfg run (Act ACount k) fr st = interp orc cfg run (k (to_count (nth_tape st (fr_tid fr)))) fr st.
Proof. reflexivity. Qed.

Lemma countincr_step A (k : unit -> prog A) fr st :
  interp orc cfg run (Act ACountIncr k) fr st = interp orc cfg run (k tt) fr (count_up st (fr_tid fr)).
Proof. reflexivity. Qed.

Lemma defget_step A (k : option nat -> prog A) fr st h :
  interp orc cfg run (Act (ADefGet h) k) fr st =
    interp orc cfg run (k (defs_get (nth_defs st (to_defs (nth_tape st (fr_tid fr)))) h)) fr st.
Proof. reflexivity. Qed.

Lemma test_step A (k : bool -> prog A) fr st :
  interp orc cfg run (Act AReturnedTest k) fr st = interp orc cfg run (k (flagged st)) fr st.
Proof. reflexivity. Qed.

Lemma clear_step A (k : unit -> prog A) fr st :
  interp orc cfg run (Act AReturnedClear k) fr st = interp orc cfg run (k tt) fr (clear_flag st).
Proof. reflexivity. Qed.

Lemma calldef_step A (k : unit -> prog A) fr st dt :
  interp orc cfg run (Act (ACallDef dt) k) fr st =
    match run dt (set_count st dt (to_count (nth_tape st (fr_tid fr)))) with
    | Done _ _ st' => interp orc cfg run (k tt) fr st'
    | Raised e _ st' => Raised e fr st'
    | OutOfFuel => OutOfFuel
    | Unmodelled w => Unmodelled w
    end.
Proof.
  transitivity
    (match after_run fr (run dt (set_count st dt (to_count (nth_tape st (fr_tid fr))))) with
     | SOk x fr' st' => interp orc cfg run (k x) fr' st'
     | SRaise e fr' st' => Raised e fr' st'
     | SFuel => OutOfFuel
     | SUnmod w => Unmodelled w
     end).
  - reflexivity.
  - destruct (run _ _) as [[] fr' st'|e fr' st'| |w]; reflexivity.
Qed.

Lemma runloop_step A (k : unit -> prog A) fr st lt :
  interp orc cfg run (Act (ARunLoop lt) k) fr st =
    match run lt st with
    | Done _ _ st' => interp orc cfg run (k tt) fr st'
    | Raised e _ st' => Raised e fr st'
    | OutOfFuel => OutOfFuel
    | Unmodelled w => Unmodelled w
    end.
Proof.
  transitivity
    (match after_run fr (run lt st) with
     | SOk x fr' st' => interp orc cfg run (k x) fr' st'
     | SRaise e fr' st' => Raised e fr' st'
     | SFuel => OutOfFuel
     | SUnmod w => Unmodelled w
     end).
  - reflexivity.
  - destruct (run _ _) as [[] fr' st'|e fr' st'| |w]; reflexivity.
Qed.

Lemma loopnew_step A (k : nat -> prog A) tid ptr st data :
  interp orc cfg run (Act (ALoopNew data) k) {| fr_tid := tid; fr_ptr := ptr |} st =
    interp orc cfg run (k (List.length (st_tapes st))) {| fr_tid := tid; fr_ptr := ptr |} (loop_start st tid data).
Proof. reflexivity. Qed.

Lemma runsub_eval_step A (k : unit -> prog A) tid ptr st data :
  interp orc cfg run (Act (ARunSub SubEval data) k) {| fr_tid := tid; fr_ptr := ptr |} st =
    match run (List.length (st_tapes st)) (eval_start st tid data) with
    | Done _ _ st' => interp orc cfg run (k tt) {| fr_tid := tid; fr_ptr := ptr |} st'
    | Raised e _ st' => Raised e {| fr_tid := tid; fr_ptr := ptr |} st'
    | OutOfFuel => OutOfFuel
    | Unmodelled w => Unmodelled w
    end.
Proof.
  transitivity
    (match after_run {| fr_tid := tid; fr_ptr := ptr |} (run (List.length (st_tapes st)) (eval_start st tid data)) with
     | SOk x fr' st' => interp orc cfg run (k x) fr' st'
     | SRaise e fr' st' => Raised e fr' st'
     | SFuel => OutOfFuel
     | SUnmod w => Unmodelled w
     end).
  - reflexivity.
  - destruct (run _ _) as [[] fr' st'|e fr' st'| |w]; reflexivity.
Qed.

(* ---------- OP_CALL ---------- *)

(* OP_CALL <h>, the pointer standing just behind the opcode, the call count below the limit, the handle
   defined: the definition tape runs from offset 0 (runner [run]) and afterwards the flag is DELETED,
   whether or not it was set; the pointer is just after the handle byte *)
Theorem op_call_exact tid st ptr (pfx : bytes) h (tail : bytes) dt :
  tdata st tid = pfx ++ h :: tail -> ptr = List.length pfx ->
  (to_count (nth_tape st tid) < c_limit cfg)%Z ->
  defs_get (nth_defs st (to_defs (nth_tape st tid))) h = Some dt ->
  interp orc cfg run OP_CALL {| fr_tid := tid; fr_ptr := ptr |} st =
    let fr' := {| fr_tid := tid; fr_ptr := ptr + 1 |} in
    match run dt (call_start st tid dt) with
    | Done _ _ st' => Done tt fr' (clear_flag st')
    | Raised e _ st' => Raised e fr' st'
    | OutOfFuel => OutOfFuel
    | Unmodelled w => Unmodelled w
    end.
Proof.
  intros Hd Hp Hc Hh.
  unfold OP_CALL, config_, read, act. cbn [bind].
  rewrite config_step, count_step. cbn [fr_tid].
  apply Z.ltb_lt in Hc. rewrite Hc. cbn [sert bind].
  rewrite (read_at orc cfg run _ _ tid ptr st pfx [h] tail 1 Hd Hp) by reflexivity.
  cbn [bind List.length hd].
  rewrite countincr_step, defget_step. cbn [fr_tid].
  change (nth_defs (count_up st tid)) with (nth_defs st).
  rewrite count_up_defs, Hh.
  rewrite calldef_step. cbn [fr_tid]. cbv zeta.
  change (set_count (count_up st tid) dt (to_count (nth_tape (count_up st tid) tid)))
    with (call_start st tid dt).
  destruct (run _ _) as [[] frb st'|e frb st'| |w]; try reflexivity.
Qed.

(* the RETURN is absorbed: whatever the flag after the body, it is clear after the instruction and
   the pointer is just after the instruction; nothing but the flag entry differs from the body's state *)
Theorem op_call_absorbs tid st ptr (pfx : bytes) h (tail : bytes) dt frb st' :
  tdata st tid = pfx ++ h :: tail -> ptr = List.length pfx ->
  (to_count (nth_tape st tid) < c_limit cfg)%Z ->
  defs_get (nth_defs st (to_defs (nth_tape st tid))) h = Some dt ->
  run dt (call_start st tid dt) = Done tt frb st' ->
  interp orc cfg run OP_CALL {| fr_tid := tid; fr_ptr := ptr |} st =
    Done tt {| fr_tid := tid; fr_ptr := ptr + 1 |} (clear_flag st') /\
  flag_clear (clear_flag st') /\ (flag_clear st' -> clear_flag st' = st').
Proof.
  intros Hd Hp Hc Hh Hr. split; [|split; [apply clear_flag_clear|apply clear_flag_id]].
  rewrite (op_call_exact tid st ptr pfx h tail dt Hd Hp Hc Hh). cbv zeta. rewrite Hr. reflexivity.
Qed.

Theorem op_call_raises tid st ptr (pfx : bytes) h (tail : bytes) dt e frb st' :
  tdata st tid = pfx ++ h :: tail -> ptr = List.length pfx ->
  (to_count (nth_tape st tid) < c_limit cfg)%Z ->
  defs_get (nth_defs st (to_defs (nth_tape st tid))) h = Some dt ->
  run dt (call_start st tid dt) = Raised e frb st' ->
  interp orc cfg run OP_CALL {| fr_tid := tid; fr_ptr := ptr |} st =
    Raised e {| fr_tid := tid; fr_ptr := ptr + 1 |} st'.
Proof.
  intros Hd Hp Hc Hh Hr.
  rewrite (op_call_exact tid st ptr pfx h tail dt Hd Hp Hc Hh). cbv zeta. rewrite Hr. reflexivity.
Qed.

(* ---------- OP_EVAL ---------- *)

(* what eval_body does with the flag after its body *)
Definition eval_finish (fr : frame) (st : state) : outcome unit :=
  if flagged st then
    if flag_on (c_flags cfg) (FKStr (str "eval_return"))
    then Done tt (end_of fr st) (set_flag st)        (* handed on *)
    else Done tt fr (clear_flag st)                  (* absorbed *)
  else Done tt fr st.

(* eval_body (= OP_EVAL; also the tail of OP_MERKLEVAL and of the script path of OP_TAPROOT):
   no operand on the tape, the script is popped and run on a new tape object, call count + 1 *)
Theorem eval_body_exact tid ptr st script s :
  flag_get (c_flags cfg) (FKStr (str "disallow_OP_EVAL")) = None ->
  (to_count (nth_tape st tid) < c_limit cfg)%Z ->
  st_stack st = script :: s -> (0 < blen script)%Z ->
  interp orc cfg run eval_body {| fr_tid := tid; fr_ptr := ptr |} st =
    let fr := {| fr_tid := tid; fr_ptr := ptr |} in
    match run (List.length (st_tapes st)) (eval_start (with_stack st s) tid script) with
    | Done _ _ st' => eval_finish fr st'
    | Raised e _ st' => Raised e fr st'
    | OutOfFuel => OutOfFuel
    | Unmodelled w => Unmodelled w
    end.
Proof.
  intros Hdis Hc Hs Hl.
  unfold eval_body, config_, get, act. cbn [bind].
  rewrite config_step. rewrite Hdis. cbn [sert bind].
  rewrite count_step. cbn [fr_tid]. apply Z.ltb_lt in Hc. rewrite Hc. cbn [sert bind].
  rewrite (get_step orc cfg run _ _ _ st script s Hs).
  apply Z.ltb_lt in Hl. rewrite Hl. cbn [vert bind].
  rewrite runsub_eval_step. cbv zeta.
  destruct (run _ _) as [[] frb st'|e frb st'| |w]; try reflexivity.
  rewrite test_step. unfold eval_finish.
  destruct (flagged st'); [|reflexivity].
  destruct (flag_on _ _); reflexivity.
Qed.

Section EvalCases.
Variables (tid ptr : nat) (st : state) (script : bytes) (s : list bytes).
Hypothesis Hdis : flag_get (c_flags cfg) (FKStr (str "disallow_OP_EVAL")) = None.
Hypothesis Hc : (to_count (nth_tape st tid) < c_limit cfg)%Z.
Hypothesis Hs : st_stack st = script :: s.
Hypothesis Hl : (0 < blen script)%Z.

Let fr := {| fr_tid := tid; fr_ptr := ptr |}.
Let body_run := run (List.length (st_tapes st)) (eval_start (with_stack st s) tid script).

(* without the flag 'eval_return': ABSORBED — flag clear, pointer unchanged (just after the opcode) *)
Theorem op_eval_absorbs frb st' :
  flag_on (c_flags cfg) (FKStr (str "eval_return")) = false ->
  body_run = Done tt frb st' -> returned st' ->
  interp orc cfg run OP_EVAL fr st = Done tt fr (clear_flag st') /\ flag_clear (clear_flag st').
Proof.
  intros Hf Hr Hret. split; [|apply clear_flag_clear].
  unfold OP_EVAL, fr. rewrite (eval_body_exact tid ptr st script s Hdis Hc Hs Hl). cbv zeta.
  fold body_run. rewrite Hr. unfold eval_finish. apply flagged_true in Hret. rewrite Hret, Hf. reflexivity.
Qed.

(* with the flag 'eval_return': HANDED ON *)
Theorem op_eval_hands_on frb st' :
  flag_on (c_flags cfg) (FKStr (str "eval_return")) = true ->
  body_run = Done tt frb st' -> returned st' ->
  interp orc cfg run OP_EVAL fr st = Done tt (end_of fr st') (set_flag st') /\
  at_end (end_of fr st') (set_flag st') /\ returned (set_flag st').
Proof.
  intros Hf Hr Hret. split; [|split; [reflexivity|apply set_flag_returned]].
  unfold OP_EVAL, fr. rewrite (eval_body_exact tid ptr st script s Hdis Hc Hs Hl). cbv zeta.
  fold body_run. rewrite Hr. unfold eval_finish. apply flagged_true in Hret. rewrite Hret, Hf. reflexivity.
Qed.

Theorem op_eval_clear frb st' :
  body_run = Done tt frb st' -> flag_clear st' ->
  interp orc cfg run OP_EVAL fr st = Done tt fr st'.
Proof.
  intros Hr Hcl.
  unfold OP_EVAL, fr. rewrite (eval_body_exact tid ptr st script s Hdis Hc Hs Hl). cbv zeta.
  fold body_run. rewrite Hr. unfold eval_finish. apply flagged_false in Hcl. rewrite Hcl. reflexivity.
Qed.

Theorem op_eval_raises e frb st' :
  body_run = Raised e frb st' ->
  interp orc cfg run OP_EVAL fr st = Raised e fr st'.
Proof.
  intros Hr.
  unfold OP_EVAL, fr. rewrite (eval_body_exact tid ptr st script s Hdis Hc Hs Hl). cbv zeta.
  fold body_run. rewrite Hr. reflexivity.
Qed.

End EvalCases.

(* ---------- OP_MERKLEVAL: its tail is eval_body ---------- *)

Lemma interp_bind3 A B C (p : prog A) (f : A -> prog B) (g : B -> prog C) fr st :
  interp orc cfg run (bind (bind p f) g) fr st =
    match interp orc cfg run p fr st with
    | Done a fr' st' => interp orc cfg run (bind (f a) g) fr' st'
    | Raised e fr' st' => Raised e fr' st'
    | OutOfFuel => OutOfFuel
    | Unmodelled w => Unmodelled w
    end.
Proof.
  rewrite interp_bind. rewrite (interp_bind orc cfg run _ _ p f).
  destruct (interp orc cfg run p fr st); try reflexivity. rewrite interp_bind. reflexivity.
Qed.

(* everything OP_MERKLEVAL does before it evaluates the script *)
Definition merkle_prefix : prog unit :=
  root <- read 32 ;;
  OP_DUP ;; OP_SHA256 ;; OP_SHA256 ;; swap_core 1 2 ;; OP_SWAP2 ;; OP_SHA256 ;; OP_XOR ;;
  put root ;; OP_EQUAL_VERIFY.

(* OP_MERKLEVAL = its prefix (no sub-tape, no flag action: Discipline.simple), then eval_body in the
   frame and state the prefix left: eval_body_exact says what happens to a RETURN of the script *)
Theorem op_merkleval_tail fr st :
  interp orc cfg run OP_MERKLEVAL fr st =
    match interp orc cfg run merkle_prefix fr st with
    | Done _ fr' st' => interp orc cfg run eval_body fr' st'
    | Raised e fr' st' => Raised e fr' st'
    | OutOfFuel => OutOfFuel
    | Unmodelled w => Unmodelled w
    end.
Proof.
  rewrite <- (interp_bind orc cfg run _ _ merkle_prefix (fun _ => eval_body)).
  unfold OP_MERKLEVAL, merkle_prefix.
  rewrite interp_bind, interp_bind3.
  destruct (interp orc cfg run (read 32) fr st) as [root fr1 st1|e fr1 st1| |w]; try reflexivity.
  repeat (rewrite interp_bind, interp_bind3;
          match goal with |- match ?o with _ => _ end = _ => destruct o; try reflexivity end).
Qed.

(* ---------- OP_LOOP ---------- *)

(* one round of the loop, exactly.  [lt] is the loop's tape object, [cond] the condition item as it was
   PEEKED (never popped) before this round, [i] the number of rounds done. *)
Theorem loop_go_step n i limit lt cond fr st :
  interp orc cfg run (loop_go (S n) i limit lt cond) fr st =
    if bytes_to_bool cond then
      if (i <? limit)%Z then
        match run lt st with
        | Done _ _ st' =>
            if flagged st' then Done tt fr (clear_flag st')       (* RETURN in the body: the loop stops *)
            else match st_stack st' with
                 | [] => Raised IndexError fr st'
                 | c :: _ => interp orc cfg run (loop_go n (i + 1)%Z limit lt c) fr st'
                 end
        | Raised e _ st' => Raised e fr st'
        | OutOfFuel => OutOfFuel
        | Unmodelled w => Unmodelled w
        end
      else Raised ScriptExecutionError fr st
    else Done tt fr st.
Proof.
  cbn [loop_go]. destruct (bytes_to_bool cond); [|reflexivity].
  destruct (i <? limit)%Z; cbn [sert bind]; [|reflexivity].
  unfold act. cbn [bind]. rewrite runloop_step.
  destruct (run lt st) as [[] frb st'|e frb st'| |w]; try reflexivity.
  rewrite test_step. destruct (flagged st'); [reflexivity|].
  cbn [interp step]. destruct (st_stack st'); reflexivity.
Qed.

(* a RETURN in the body of ANY round ends the loop — and only the loop: flag deleted, frame unchanged *)
Theorem loop_go_returned n i limit lt cond fr st frb st' :
  bytes_to_bool cond = true -> (i < limit)%Z ->
  run lt st = Done tt frb st' -> returned st' ->
  interp orc cfg run (loop_go (S n) i limit lt cond) fr st = Done tt fr (clear_flag st').
Proof.
  intros Hc Hi Hr Hret. rewrite loop_go_step, Hc.
  apply Z.ltb_lt in Hi. rewrite Hi, Hr. apply flagged_true in Hret. rewrite Hret. reflexivity.
Qed.

(* no RETURN in the body: the next round, with the item now on top of the stack as condition *)
Theorem loop_go_continues n i limit lt cond fr st frb st' c' s' :
  bytes_to_bool cond = true -> (i < limit)%Z ->
  run lt st = Done tt frb st' -> flag_clear st' -> st_stack st' = c' :: s' ->
  interp orc cfg run (loop_go (S n) i limit lt cond) fr st =
    interp orc cfg run (loop_go n (i + 1)%Z limit lt c') fr st'.
Proof.
  intros Hc Hi Hr Hcl Hs. rewrite loop_go_step, Hc.
  apply Z.ltb_lt in Hi. rewrite Hi, Hr. apply flagged_false in Hcl. rewrite Hcl, Hs. reflexivity.
Qed.

(* OP_LOOP, the pointer standing just behind the opcode: the body is read, the top item is PEEKED as the
   condition, a new tape object for the body is created (sharing the definitions), then the rounds *)
Theorem op_loop_exact tid st ptr (pfx body tail : bytes) c s :
  tdata st tid = pfx ++ block_ops body ++ tail -> ptr = List.length pfx ->
  (blen body < 65536)%Z -> st_stack st = c :: s ->
  interp orc cfg run OP_LOOP {| fr_tid := tid; fr_ptr := ptr |} st =
    interp orc cfg run
      (loop_go (S (nat_of (c_limit cfg))) 0%Z (c_limit cfg) (List.length (st_tapes st)) c)
      {| fr_tid := tid; fr_ptr := ptr + List.length (block_ops body) |} (loop_start st tid body).
Proof.
  intros Hd Hp H1 Hs.
  assert (Hd' : tdata st tid = pfx ++ len2 body ++ body ++ tail).
  { rewrite Hd. unfold block_ops. rewrite <- !app_assoc. reflexivity. }
  unfold OP_LOOP, read_u16, read, config_, act. cbn [bind].
  rewrite (read_at orc cfg run _ _ tid ptr st pfx (len2 body) (body ++ tail) 2 Hd' Hp)
    by (rewrite length_len2; reflexivity).
  cbn [bind]. rewrite be_len2 by exact H1.
  rewrite (read_at orc cfg run _ _ tid _ st (pfx ++ len2 body) body tail (blen body))
    by (first [ rewrite Hd', <- !app_assoc; reflexivity | rewrite app_length; subst ptr; reflexivity
              | unfold blen; apply Nat2Z.id ]).
  cbn [bind].
  rewrite (peek_step orc cfg run _ _ _ st c s Hs).
  rewrite config_step, loopnew_step.
  replace (ptr + List.length (len2 body) + List.length body)
    with (ptr + List.length (block_ops body)) by (unfold block_ops; rewrite !app_length; lia).
  rewrite Nat.add_1_r. reflexivity.
Qed.

(* RETURN in the first round: the loop — and only the loop — stops.  After the instruction the flag is
   clear, the pointer is just after the instruction, and the stack is the stack the body left: OP_LOOP
   never pops, so the condition item is still there unless the body itself removed it. *)
Theorem op_loop_absorbs tid st ptr (pfx body tail : bytes) c s frb st' :
  tdata st tid = pfx ++ block_ops body ++ tail -> ptr = List.length pfx ->
  (blen body < 65536)%Z -> st_stack st = c :: s ->
  bytes_to_bool c = true -> (0 < c_limit cfg)%Z ->
  run (List.length (st_tapes st)) (loop_start st tid body) = Done tt frb st' -> returned st' ->
  interp orc cfg run OP_LOOP {| fr_tid := tid; fr_ptr := ptr |} st =
    Done tt {| fr_tid := tid; fr_ptr := ptr + List.length (block_ops body) |} (clear_flag st') /\
  flag_clear (clear_flag st') /\ st_stack (clear_flag st') = st_stack st' /\
  st_stack (loop_start st tid body) = c :: s.
Proof.
  intros Hd Hp H1 Hs Hc Hlim Hr Hret.
  split; [|split; [apply clear_flag_clear|split; [reflexivity|exact Hs]]].
  rewrite (op_loop_exact tid st ptr pfx body tail c s Hd Hp H1 Hs).
  apply (loop_go_returned _ _ _ _ _ _ _ frb st' Hc Hlim Hr Hret).
Qed.

(* a false condition: no round; the new tape object exists, the condition item stays on the stack *)
Theorem op_loop_false tid st ptr (pfx body tail : bytes) c s :
  tdata st tid = pfx ++ block_ops body ++ tail -> ptr = List.length pfx ->
  (blen body < 65536)%Z -> st_stack st = c :: s -> bytes_to_bool c = false ->
  interp orc cfg run OP_LOOP {| fr_tid := tid; fr_ptr := ptr |} st =
    Done tt {| fr_tid := tid; fr_ptr := ptr + List.length (block_ops body) |} (loop_start st tid body).
Proof.
  intros Hd Hp H1 Hs Hc.
  rewrite (op_loop_exact tid st ptr pfx body tail c s Hd Hp H1 Hs).
  rewrite loop_go_step, Hc. reflexivity.
Qed.

End Absorb.

(* ------------------------------------------------------------------------------------------ *)
(* 6. Whole scripts: the bytes behind a block that RETURNed are never executed                *)
(* ------------------------------------------------------------------------------------------ *)

Lemma sub_start_tdata_caller st tid body :
  tdata st tid <> [] -> tdata (sub_start st tid body) tid = tdata st tid.
Proof. intro H. apply tdata_sub_old. apply tdata_nonempty_valid. exact H. Qed.

Section Scripts.
Variable orc : oracle.
Variable cfg : config.

Notation sub f := (fun t s0 => run_tape orc cfg f t 0 s0).

(* a tape object holding the single instruction OP_RETURN *)
Lemma return_tape_runs f nt st :
  tdata st nt = encode [IOp0 O_RETURN] ->
  run_tape orc cfg (S (S f)) nt 0 st = Done tt {| fr_tid := nt; fr_ptr := 1 |} (set_flag st).
Proof.
  intro Hd.
  assert (Hd0 : tdata st nt = [] ++ x30 :: []) by exact Hd.
  rewrite (fetch_at orc cfg _ nt st 0 [] x30 [] Hd0 eq_refl).
  change (dispatch (N.to_nat (Byte.to_N x30))) with OP_RETURN.
  rewrite op_return_exact. cbn [fr_ptr end_of fr_tid].
  fold (tdata st nt). rewrite Hd. cbn [List.length encode flat_map encode1 app].
  apply run_tape_end. change (tdata (set_flag st) nt) with (tdata st nt). rewrite Hd. simpl. lia.
Qed.

(* a tape object holding OP_FALSE OP_VERIFY: raises, leaving the state as it was *)
Lemma fail_tape_runs f nt st :
  tdata st nt = encode [IOp0 O_FALSE; IOp0 O_VERIFY] ->
  1 <= c_max_item_size cfg -> List.length (st_stack st) < c_max_items cfg ->
  run_tape orc cfg (S (S f)) nt 0 st = Raised ScriptExecutionError {| fr_tid := nt; fr_ptr := 2 |} st.
Proof.
  intros Hd H1 H2.
  assert (Hd0 : tdata st nt = [] ++ x00 :: [x20]) by exact Hd.
  rewrite (fetch_at orc cfg _ nt st 0 [] x00 [x20] Hd0 eq_refl).
  change (dispatch (N.to_nat (Byte.to_N x00))) with OP_FALSE.
  unfold OP_FALSE, put, act.
  rewrite (put_step orc cfg) with (s := st_stack st);
    [|reflexivity|unfold fits; simpl; lia|exact H2].
  cbn [interp fr_ptr].
  set (st1 := with_stack st ([x00] :: st_stack st)).
  assert (Hd1 : tdata st1 nt = [x00] ++ x20 :: []) by exact Hd.
  rewrite (fetch_at orc cfg _ nt st1 1 [x00] x20 [] Hd1 eq_refl).
  change (dispatch (N.to_nat (Byte.to_N x20))) with OP_VERIFY.
  rewrite (verify_exec orc cfg _ _ st1 false (st_stack st)) by reflexivity.
  unfold st1. rewrite with_stack_twice, with_stack_same. reflexivity.
Qed.

(* the enclosing tape after the hand-over: its pointer is at its end, run_tape stops *)
Lemma handed_on_stops f tid ptr st' :
  run_tape orc cfg (S f) tid (fr_ptr (end_of {| fr_tid := tid; fr_ptr := ptr |} st')) (set_flag st') =
    Done tt {| fr_tid := tid; fr_ptr := List.length (tdata st' tid) |} (set_flag st').
Proof. cbn [fr_ptr end_of fr_tid]. apply run_tape_end. apply Nat.le_refl. Qed.

(* (a) pre ++ [ IF { RETURN } ] ++ post, reached with a true condition on top of the stack:
       run_tape ends at the END of the tape, in the state in which the block ended (flag set);
       nothing of [post] is executed, whatever it is *)
Theorem if_return_skips_post f tid st (pfx post : bytes) cond s :
  tdata st tid = pfx ++ encode [IIf [IOp0 O_RETURN]] ++ post ->
  st_stack st = cond :: s -> bytes_to_bool cond = true ->
  run_tape orc cfg (S (S (S f))) tid (List.length pfx) st =
    Done tt {| fr_tid := tid; fr_ptr := List.length (pfx ++ encode [IIf [IOp0 O_RETURN]] ++ post) |}
         (set_flag (sub_start (with_stack st s) tid (encode [IOp0 O_RETURN]))).
Proof.
  intros Hd Hs Hc.
  assert (Hd0 : tdata st tid = pfx ++ x2b :: (block_ops [x30] ++ post)) by (rewrite Hd; reflexivity).
  rewrite (fetch_at orc cfg _ tid st (List.length pfx) pfx x2b _ Hd0 eq_refl).
  change (dispatch (N.to_nat (Byte.to_N x2b))) with OP_IF.
  assert (Hd1 : tdata st tid = (pfx ++ [x2b]) ++ block_ops [x30] ++ post)
    by (rewrite Hd0, <- app_assoc; reflexivity).
  rewrite (op_if_exact orc cfg _ tid st (S (List.length pfx)) (pfx ++ [x2b]) [x30] post cond s Hd1);
    [|rewrite app_length; simpl; lia|reflexivity|exact Hs].
  cbv zeta. rewrite Hc. cbv beta.
  change [x30] with (encode [IOp0 O_RETURN]).
  rewrite return_tape_runs by (apply (tdata_sub_new (with_stack st s))).
  unfold after_body, hand_on. rewrite set_flag_flagged.
  rewrite handed_on_stops. rewrite set_flag_twice.
  change (tdata (set_flag (sub_start (with_stack st s) tid (encode [IOp0 O_RETURN]))) tid)
    with (tdata (sub_start (with_stack st s) tid (encode [IOp0 O_RETURN])) tid).
  rewrite sub_start_tdata_caller.
  - change (tdata (with_stack st s) tid) with (tdata st tid). rewrite Hd. reflexivity.
  - change (tdata (with_stack st s) tid) with (tdata st tid). rewrite Hd0.
    destruct pfx; discriminate.
Qed.

(* (b) pre ++ [ TRY { FALSE VERIFY } EXCEPT { RETURN } ] ++ post: the TRY body raises, the record is
       written under "E", the EXCEPT body RETURNs, the RETURN is handed on: [post] is not executed *)
Definition try_fail_return : list instr := [ITry [IOp0 O_FALSE; IOp0 O_VERIFY] [IOp0 O_RETURN]].

Theorem try_except_return_skips_post f tid st (pfx post : bytes) :
  tdata st tid = pfx ++ encode try_fail_return ++ post ->
  1 <= c_max_item_size cfg -> List.length (st_stack st) < c_max_items cfg ->
  run_tape orc cfg (S (S (S f))) tid (List.length pfx) st =
    Done tt {| fr_tid := tid; fr_ptr := List.length (pfx ++ encode try_fail_return ++ post) |}
         (set_flag (sub_start (write_E ScriptExecutionError
                                 (sub_start st tid (encode [IOp0 O_FALSE; IOp0 O_VERIFY])))
                              tid (encode [IOp0 O_RETURN]))).
Proof.
  intros Hd H1 H2.
  assert (Hd0 : tdata st tid = pfx ++ x3d :: (ifelse_ops [x00; x20] [x30] ++ post))
    by (rewrite Hd; reflexivity).
  assert (Hne : tdata st tid <> []) by (rewrite Hd0; destruct pfx; discriminate).
  rewrite (fetch_at orc cfg _ tid st (List.length pfx) pfx x3d _ Hd0 eq_refl).
  change (dispatch (N.to_nat (Byte.to_N x3d))) with OP_TRY_EXCEPT.
  assert (Hd1 : tdata st tid = (pfx ++ [x3d]) ++ ifelse_ops [x00; x20] [x30] ++ post)
    by (rewrite Hd0, <- app_assoc; reflexivity).
  rewrite (op_try_except_exact orc cfg _ tid st (S (List.length pfx)) (pfx ++ [x3d]) [x00; x20] [x30] post Hd1);
    [|rewrite app_length; simpl; lia|reflexivity|reflexivity].
  cbv zeta. cbv beta.
  change [x00; x20] with (encode [IOp0 O_FALSE; IOp0 O_VERIFY]).
  change [x30] with (encode [IOp0 O_RETURN]).
  rewrite fail_tape_runs; [|apply tdata_sub_new|exact H1|exact H2].
  set (st1 := sub_start st tid (encode [IOp0 O_FALSE; IOp0 O_VERIFY])).
  set (st2 := write_E ScriptExecutionError st1).
  rewrite return_tape_runs by (apply tdata_sub_new).
  unfold after_body, hand_on. rewrite set_flag_flagged.
  rewrite handed_on_stops. rewrite set_flag_twice.
  change (tdata (set_flag (sub_start st2 tid (encode [IOp0 O_RETURN]))) tid)
    with (tdata (sub_start st2 tid (encode [IOp0 O_RETURN])) tid).
  assert (H12 : tdata st2 tid = tdata st tid).
  { change (tdata st2 tid) with (tdata st1 tid). unfold st1. apply sub_start_tdata_caller. exact Hne. }
  rewrite sub_start_tdata_caller by (rewrite H12; exact Hne).
  rewrite H12, Hd. reflexivity.
Qed.

End Scripts.

(* a whole script, for ANY bytes [post] behind the block: TRUE ; IF { RETURN } ; post *)
Theorem script_if_return_any_post orc cfg f (post : bytes) vals :
  1 <= c_max_item_size cfg -> 0 < c_max_items cfg ->
  let script := encode [IOp0 O_TRUE; IIf [IOp0 O_RETURN]] ++ post in
  run_script orc cfg (S (S (S (S f)))) script vals =
    Done tt {| fr_tid := 0; fr_ptr := List.length script |}
         (set_flag (sub_start (init_state cfg script vals) 0 (encode [IOp0 O_RETURN]))).
Proof.
  intros H1 H2 script. unfold run_script.
  set (st0 := init_state cfg script vals).
  assert (Hd : tdata st0 0 = [] ++ x01 :: (encode [IIf [IOp0 O_RETURN]] ++ post)) by reflexivity.
  start_tape.
  rewrite (op0_done orc cfg _ 0 st0 [] x01 _ (with_stack st0 [[xff]]) Hd).
  2:{ intros run fr. change (dispatch (N.to_nat (Byte.to_N x01))) with OP_TRUE.
      apply true_exec; [reflexivity|exact H1|exact H2]. }
  change (List.length ([] ++ [x01])) with (List.length [x01]).
  rewrite (if_return_skips_post orc cfg f 0 (with_stack st0 [[xff]]) [x01] post [xff] []);
    [reflexivity|exact Hd|reflexivity|reflexivity].
Qed.

(* and the same with the RETURN in the EXCEPT body of a TRY whose body fails *)
Theorem script_try_except_return_any_post orc cfg f (post : bytes) vals :
  1 <= c_max_item_size cfg -> 0 < c_max_items cfg ->
  let script := encode try_fail_return ++ post in
  run_script orc cfg (S (S (S f))) script vals =
    Done tt {| fr_tid := 0; fr_ptr := List.length script |}
         (set_flag (sub_start (write_E ScriptExecutionError
                                 (sub_start (init_state cfg script vals) 0 (encode [IOp0 O_FALSE; IOp0 O_VERIFY])))
                              0 (encode [IOp0 O_RETURN]))).
Proof.
  intros H1 H2 script. unfold run_script.
  set (st0 := init_state cfg script vals).
  start_tape.
  rewrite (try_except_return_skips_post orc cfg f 0 st0 [] post);
    [reflexivity|reflexivity|exact H1|exact H2].
Qed.

(* ---------- concrete instances, by computation (the oracle is never consulted) ---------- *)

(* pointer, stack and flag at the normal end of a run *)
Definition summary (o : outcome unit) : option (nat * list bytes * bool) :=
  match o with Done _ fr st => Some (fr_ptr fr, st_stack st, flagged st) | _ => None end.

Definition cfg_d : config := default_config 1000.
Definition cfg_eval_return : config :=
  {| c_max_items := c_max_items cfg_d; c_max_item_size := c_max_item_size cfg_d; c_limit := c_limit cfg_d;
     c_flags := (FKStr (str "eval_return"), FVBool true) :: c_flags cfg_d;
     c_sigext := []; c_ctplugins := []; c_contracts := []; c_now := 1000 |}.

(* [post] would fail if it ran *)
Definition post_fail : list instr := [IOp0 O_FALSE; IOp0 O_VERIFY].

(* IF { RETURN } with a true condition: post is skipped, the pointer is at the end (7 bytes), flag set *)
Example ex_if_return orc :
  summary (run_script orc cfg_d 10 (encode ([IOp0 O_TRUE; IIf [IOp0 O_RETURN]] ++ post_fail)) []) =
    Some (7, [], true).
Proof. vm_compute. reflexivity. Qed.

(* the same script with a false condition: post runs (and fails) *)
Example ex_if_false orc :
  run_script orc cfg_d 10 (encode ([IOp0 O_FALSE; IIf [IOp0 O_RETURN]] ++ post_fail)) [] =
    Raised ScriptExecutionError {| fr_tid := 0; fr_ptr := 7 |}
      (init_state cfg_d (encode ([IOp0 O_FALSE; IIf [IOp0 O_RETURN]] ++ post_fail)) []).
Proof. vm_compute. reflexivity. Qed.

(* IF_ELSE, the RETURN in the arm that runs *)
Example ex_if_else_return orc :
  summary (run_script orc cfg_d 10
             (encode ([IOp0 O_FALSE; IIfElse [IOp0 O_TRUE] [IOp0 O_RETURN]] ++ post_fail)) []) =
    Some (10, [], true).
Proof. vm_compute. reflexivity. Qed.

(* nested: IF { IF { RETURN } ; post } ; post — neither post runs *)
Example ex_nested_if_return orc :
  summary (run_script orc cfg_d 10
             (encode ([IOp0 O_TRUE; IOp0 O_TRUE; IIf (IIf [IOp0 O_RETURN] :: post_fail)] ++ post_fail)) []) =
    Some (13, [], true).
Proof. vm_compute. reflexivity. Qed.

(* TRY { RETURN } EXCEPT { .. }: handed on from the TRY body *)
Example ex_try_return orc :
  summary (run_script orc cfg_d 10 (encode (ITry [IOp0 O_RETURN] [IOp0 O_TRUE] :: post_fail)) []) =
    Some (9, [], true).
Proof. vm_compute. reflexivity. Qed.

(* TRY { FALSE VERIFY } EXCEPT { RETURN }: handed on from the EXCEPT body; "E" holds the record *)
Example ex_try_except_return orc :
  match run_script orc cfg_d 10 (encode (try_fail_return ++ post_fail)) [] with
  | Done _ fr st => Some (fr_ptr fr, st_stack st, flagged st, cache_get (st_cache st) (KBytes (str "E")))
  | _ => None
  end = Some (10, [], true, Some (VMany [ABytes (str "ScriptExecutionError|")])).
Proof. vm_compute. reflexivity. Qed.

(* the ABSORBING instructions: the instruction behind the block DOES run (it pushes 0x2a) *)
Definition post_mark : list instr := [IFix O_PUSH0 [x2a]].

Example ex_loop_absorbs orc :
  summary (run_script orc cfg_d 10 (encode ([IOp0 O_TRUE; ILoop [IOp0 O_RETURN]] ++ post_mark)) []) =
    Some (7, [[x2a]; [xff]], false).       (* the condition item is still on the stack *)
Proof. vm_compute. reflexivity. Qed.

Example ex_call_absorbs orc :
  summary (run_script orc cfg_d 10 (encode ([IDef x07 [IOp0 O_RETURN]; IOp1 O_CALL x07] ++ post_mark)) []) =
    Some (9, [[x2a]], false).
Proof. vm_compute. reflexivity. Qed.

Example ex_eval_absorbs orc :
  summary (run_script orc cfg_d 10 (encode ([IVar1 O_PUSH1 [x30]; IOp0 O_EVAL] ++ post_mark)) []) =
    Some (6, [[x2a]], false).
Proof. vm_compute. reflexivity. Qed.

(* with the flag 'eval_return' in the configuration OP_EVAL hands the RETURN on *)
Example ex_eval_return_hands_on orc :
  summary (run_script orc cfg_eval_return 10 (encode ([IVar1 O_PUSH1 [x30]; IOp0 O_EVAL] ++ post_mark)) []) =
    Some (6, [], true).
Proof. vm_compute. reflexivity. Qed.

(* a RETURN in a called definition ends the definition only; an IF inside a definition hands it on to
   the definition tape, OP_CALL absorbs it there *)
Example ex_call_if_return orc :
  summary (run_script orc cfg_d 12
             (encode ([IDef x07 (IOp0 O_TRUE :: IIf [IOp0 O_RETURN] :: post_fail); IOp1 O_CALL x07] ++ post_mark)) []) =
    Some (15, [[x2a]], false).
Proof. vm_compute. reflexivity. Qed.

Print Assumptions op_return_exact.
Print Assumptions op_return_spec.
Print Assumptions propagate_exact.
Print Assumptions op_if_exact.
Print Assumptions op_if_true_returned.
Print Assumptions op_if_true_clear.
Print Assumptions op_if_true_raises.
Print Assumptions op_if_false.
Print Assumptions op_if_else_exact.
Print Assumptions op_if_else_returned.
Print Assumptions op_if_else_clear.
Print Assumptions op_if_else_raises.
Print Assumptions op_try_except_exact.
Print Assumptions op_try_returned.
Print Assumptions op_try_clear.
Print Assumptions op_try_except_returned.
Print Assumptions op_try_except_clear.
Print Assumptions op_try_except_raises.
Print Assumptions except_body_sees_E.
Print Assumptions op_call_exact.
Print Assumptions op_call_absorbs.
Print Assumptions op_call_raises.
Print Assumptions eval_body_exact.
Print Assumptions op_eval_absorbs.
Print Assumptions op_eval_hands_on.
Print Assumptions op_eval_clear.
Print Assumptions op_eval_raises.
Print Assumptions op_merkleval_tail.
Print Assumptions loop_go_step.
Print Assumptions loop_go_returned.
Print Assumptions loop_go_continues.
Print Assumptions op_loop_exact.
Print Assumptions op_loop_absorbs.
Print Assumptions op_loop_false.
Print Assumptions if_return_skips_post.
Print Assumptions try_except_return_skips_post.
Print Assumptions script_if_return_any_post.
Print Assumptions script_try_except_return_any_post.
Print Assumptions ex_if_return.
Print Assumptions ex_if_false.
Print Assumptions ex_if_else_return.
Print Assumptions ex_nested_if_return.
Print Assumptions ex_try_return.
Print Assumptions ex_try_except_return.
Print Assumptions ex_loop_absorbs.
Print Assumptions ex_call_absorbs.
Print Assumptions ex_eval_absorbs.
Print Assumptions ex_eval_return_hands_on.
Print Assumptions ex_call_if_return.
