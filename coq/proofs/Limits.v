(* C07 (stack part): in every reachable state, also the one carried by a raise, the stack holds
   at most max_items items and no item longer than max_item_size. *)
From Coq Require Import ZArith List Bool Lia.
From Coq.Strings Require Import Byte String.
From TS Require Import Bytes Codec State Prog Ops Interp StateLemmas Closure.
Import ListNotations.
Local Open Scope nat_scope.

Section Lim.
Variable orc : oracle.
Variable cfg : config.

Definition item_ok (b : bytes) : Prop := List.length b <= c_max_item_size cfg.
Definition limits_ok (st : state) : Prop :=
  List.length (st_stack st) <= c_max_items cfg /\ Forall item_ok (st_stack st).

Definition R_lim (st st' : state) : Prop := limits_ok st -> limits_ok st'.

Lemma R_lim_refl s : R_lim s s.
Proof. intro H. exact H. Qed.
Lemma R_lim_trans a b c : R_lim a b -> R_lim b c -> R_lim a c.
Proof. unfold R_lim. auto. Qed.
Lemma R_lim_stack_eq st st' : st_stack st' = st_stack st -> R_lim st st'.
Proof. intros E [H1 H2]. unfold limits_ok. rewrite E. split; assumption. Qed.

Lemma swap_nth_ok l i j :
  List.length l <= c_max_items cfg -> Forall item_ok l ->
  List.length (swap_nth l i j) <= c_max_items cfg /\ Forall item_ok (swap_nth l i j).
Proof.
  intros H1 H2. destruct l as [|x l'] eqn:E; [destruct i, j; simpl; auto|].
  rewrite <- E in *. clear E.
  assert (Hd : item_ok []) by (unfold item_ok; simpl; lia).
  assert (Hs : swap_nth l i j = list_set (list_set l i (nth j l [])) j (nth i l [])).
  { destruct l; reflexivity. }
  rewrite Hs. split.
  - rewrite !list_set_length. exact H1.
  - apply list_set_Forall; [apply list_set_Forall|]; auto; apply nth_Forall; auto.
Qed.

Lemma step_closed_lim : step_closed orc cfg R_lim.
Proof.
  intros run Hrun X a fr st.
  destruct a; simpl;
    try (apply R_lim_refl);
    try (apply R_lim_stack_eq; reflexivity).
  - (* AGet *)
    destruct (st_stack st) as [|x s] eqn:E; simpl; [apply R_lim_refl|].
    intros [H1 H2]. unfold limits_ok in *. rewrite E in *. simpl in *.
    split; [lia|inversion H2; assumption].
  - (* APut *)
    destruct (_ <? _) eqn:E1; simpl; [apply R_lim_refl|].
    destruct (_ <=? _) eqn:E2; simpl; [apply R_lim_refl|].
    apply Nat.ltb_ge in E1. apply Nat.leb_gt in E2.
    intros [H1 H2]. unfold limits_ok. simpl. split; [lia|constructor; [exact E1|exact H2]].
  - (* APeek *) destruct (st_stack st); simpl; apply R_lim_refl.
  - (* ASwapIdx *)
    destruct (_ && _); simpl; [|exact I].
    intros [H1 H2]. unfold limits_ok. simpl. apply swap_nth_ok; assumption.
  - (* ARead *) destruct (_ <? _); simpl; apply R_lim_refl.
  - (* ACallDef *)
    unfold after_run.
    match goal with |- context [run ?t ?s] => pose proof (Hrun t s) as H; destruct (run t s) end;
      simpl in *; try exact I; (eapply R_lim_trans; [|exact H]); apply R_lim_stack_eq; reflexivity.
  - (* ARunSub *)
    unfold after_run.
    match goal with |- context [run ?t ?s] => pose proof (Hrun t s) as H; destruct (run t s) end;
      simpl in *; try exact I; (eapply R_lim_trans; [|exact H]); apply R_lim_stack_eq; reflexivity.
  - (* ATrySub *)
    match goal with |- context [run ?t ?s] => pose proof (Hrun t s) as H; destruct (run t s) end;
      simpl in *; try exact I; (eapply R_lim_trans; [|exact H]); apply R_lim_stack_eq; reflexivity.
  - (* ARunLoop *)
    unfold after_run.
    match goal with |- context [run ?t ?s] => pose proof (Hrun t s) as H; destruct (run t s) end;
      simpl in *; try exact I; exact H.
Qed.

Theorem run_tape_limits : forall fuel tid ptr st,
  limits_ok st ->
  match run_tape orc cfg fuel tid ptr st with
  | Done _ _ st' | Raised _ _ st' => limits_ok st'
  | _ => True
  end.
Proof.
  intros fuel tid ptr st H.
  pose proof (run_tape_closed orc cfg R_lim R_lim_refl R_lim_trans step_closed_lim fuel tid ptr st) as Hc.
  destruct (run_tape orc cfg fuel tid ptr st); simpl in *; try exact I; apply Hc; exact H.
Qed.

Lemma init_limits script vals : limits_ok (init_state cfg script vals).
Proof. unfold limits_ok. simpl. split; [lia|constructor]. Qed.

Theorem run_script_limits fuel script vals :
  match run_script orc cfg fuel script vals with
  | Done _ _ st' | Raised _ _ st' => limits_ok st'
  | _ => True
  end.
Proof. apply run_tape_limits. apply init_limits. Qed.

Lemma auth_rest_limits : forall fuel scripts prev st,
  limits_ok st ->
  match auth_rest orc cfg fuel scripts prev st with
  | AuthVerdict _ st' => limits_ok st'
  | _ => True
  end.
Proof.
  intros fuel scripts. induction scripts as [|s rest IH]; intros prev st H; simpl.
  - destruct (st_stack st) as [|item [|x y]] eqn:E; simpl; try exact H.
    unfold limits_ok. simpl. split; [lia|constructor].
  - match goal with |- context [run_tape orc cfg fuel ?t 0 ?s] =>
      pose proof (run_tape_limits fuel t 0 s) as Hr;
      destruct (run_tape orc cfg fuel t 0 s) as [a fr' st'|e fr' st'| |w] end; try exact I.
    + apply IH. apply Hr. exact H.
    + apply Hr. exact H.
Qed.

Theorem run_auth_scripts_limits fuel scripts vals :
  match run_auth_scripts orc cfg fuel scripts vals with
  | AuthVerdict _ st' => limits_ok st'
  | _ => True
  end.
Proof.
  unfold run_auth_scripts. destruct scripts as [|s rest]; [exact I|].
  pose proof (run_script_limits fuel s vals) as H.
  destruct (run_script orc cfg fuel s vals) as [a fr st|e fr st| |w]; try exact I.
  - apply auth_rest_limits. exact H.
  - exact H.
Qed.

End Lim.
