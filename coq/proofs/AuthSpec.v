(* C01: the authorisation verdict, characterised independently of the driver function. *)
From Coq Require Import ZArith List Bool Lia.
From Coq.Strings Require Import Byte String.
From TS Require Import Bytes Codec State Prog Ops Interp StateLemmas.
Import ListNotations.
Local Open Scope nat_scope.

Section Auth.
Variable orc : oracle.
Variable cfg : config.
Variable fuel : nat.

(* the state in which a later script starts: a fresh tape object for its bytes that takes over the call
   count and the definition table of the previous top-level tape; same stack, same cache minus the
   control flag; nothing else *)
Definition next_start (st : state) (prev : nat) (s : bytes) : nat * state :=
  let p := nth_tape st prev in
  let tid := List.length (st_tapes st) in
  (tid, with_cache (with_tapes st (st_tapes st ++ [{| to_data := s; to_count := to_count p; to_defs := to_defs p |}]))
                   (cache_del (st_cache st) returned_key)).

(* every script of the list runs from offset 0 of its own bytes to a normal end *)
Inductive chain : list bytes -> nat -> state -> state -> Prop :=
| chain_nil prev st : chain [] prev st st
| chain_cons s rest prev st fr st1 st2 :
    run_tape orc cfg fuel (fst (next_start st prev s)) 0 (snd (next_start st prev s)) = Done tt fr st1 ->
    chain rest (fst (next_start st prev s)) st1 st2 ->
    chain (s :: rest) prev st st2.

(* some script of the list raises *)
Inductive chain_raises : list bytes -> nat -> state -> Prop :=
| raises_here s rest prev st e fr st1 :
    run_tape orc cfg fuel (fst (next_start st prev s)) 0 (snd (next_start st prev s)) = Raised e fr st1 ->
    chain_raises (s :: rest) prev st
| raises_later s rest prev st fr st1 :
    run_tape orc cfg fuel (fst (next_start st prev s)) 0 (snd (next_start st prev s)) = Done tt fr st1 ->
    chain_raises rest (fst (next_start st prev s)) st1 ->
    chain_raises (s :: rest) prev st.

Definition accepting (st : state) : bool :=
  match st_stack st with [item] => bytes_eqb item [xff] | _ => false end.

Lemma auth_rest_unfold s rest prev st :
  auth_rest orc cfg fuel (s :: rest) prev st =
    match run_tape orc cfg fuel (fst (next_start st prev s)) 0 (snd (next_start st prev s)) with
    | Done _ _ st' => auth_rest orc cfg fuel rest (fst (next_start st prev s)) st'
    | Raised _ _ st' => AuthVerdict false st'
    | OutOfFuel => AuthFuel
    | Unmodelled w => AuthUnmod w
    end.
Proof. reflexivity. Qed.

Lemma auth_rest_true rest : forall prev st stf,
  auth_rest orc cfg fuel rest prev st = AuthVerdict true stf <->
  exists st2, chain rest prev st st2 /\ st_stack st2 = [[xff]] /\ stf = with_stack st2 [].
Proof.
  induction rest as [|s rest IH]; intros prev st stf.
  - simpl. split.
    + destruct (st_stack st) as [|item [|x y]] eqn:E; try discriminate.
      intro H. injection H as Hb Hs. exists st. split; [constructor|].
      apply bytes_eqb_eq in Hb. subst item. split; [exact E|symmetry; exact Hs].
    + intros (st2 & Hc & Hs & Hf). inversion Hc; subst. rewrite Hs. reflexivity.
  - rewrite auth_rest_unfold. split.
    + destruct (run_tape orc cfg fuel _ 0 _) as [[] fr st1|e fr st1| |w] eqn:E; try discriminate.
      intro H. apply IH in H. destruct H as (st2 & Hc & Hs & Hf).
      exists st2. split; [econstructor; eauto|auto].
    + intros (st2 & Hc & Hs & Hf). inversion Hc; subst.
      match goal with H : run_tape _ _ _ _ _ _ = Done tt _ _ |- _ => rewrite H end.
      apply IH. eauto.
Qed.

(* verdict True  <=>  the first script runs to a normal end through run_script, every later script runs
   to a normal end from its own first instruction, and the stack then is exactly [ff] *)
Theorem auth_true_iff s0 rest vals stf :
  run_auth_scripts orc cfg fuel (s0 :: rest) vals = AuthVerdict true stf <->
  exists fr st1 st2, run_script orc cfg fuel s0 vals = Done tt fr st1 /\ chain rest 0 st1 st2
                     /\ st_stack st2 = [[xff]] /\ stf = with_stack st2 [].
Proof.
  unfold run_auth_scripts. split.
  - destruct (run_script orc cfg fuel s0 vals) as [[] fr st1|e fr st1| |w] eqn:E; try discriminate.
    intro H. apply auth_rest_true in H. destruct H as (st2 & Hc & Hs & Hf). exists fr, st1, st2. auto.
  - intros (fr & st1 & st2 & Hr & Hc & Hs & Hf). rewrite Hr. apply auth_rest_true. eauto.
Qed.

Lemma auth_rest_false rest : forall prev st stf,
  auth_rest orc cfg fuel rest prev st = AuthVerdict false stf ->
  chain_raises rest prev st \/ exists st2, chain rest prev st st2 /\ accepting st2 = false.
Proof.
  induction rest as [|s rest IH]; intros prev st stf.
  - simpl. intro H. right. exists st. split; [constructor|]. unfold accepting.
    destruct (st_stack st) as [|item [|x y]]; try reflexivity. injection H as Hb _. exact Hb.
  - rewrite auth_rest_unfold.
    destruct (run_tape orc cfg fuel _ 0 _) as [[] fr st1|e fr st1| |w] eqn:E; try discriminate.
    + intro H. apply IH in H. destruct H as [H|(st2 & Hc & Ha)].
      * left. eapply raises_later; eauto.
      * right. exists st2. split; [econstructor; eauto|exact Ha].
    + intros _. left. eapply raises_here; eauto.
Qed.

(* verdict False: a script raised, or all ran and the stack is not exactly [ff].  There is no third
   outcome: a raise inside any script never escapes run_auth_scripts (it becomes False). *)
Theorem auth_false_cases s0 rest vals stf :
  run_auth_scripts orc cfg fuel (s0 :: rest) vals = AuthVerdict false stf ->
  (exists e fr st1, run_script orc cfg fuel s0 vals = Raised e fr st1) \/
  (exists fr st1, run_script orc cfg fuel s0 vals = Done tt fr st1 /\
     (chain_raises rest 0 st1 \/ exists st2, chain rest 0 st1 st2 /\ accepting st2 = false)).
Proof.
  unfold run_auth_scripts.
  destruct (run_script orc cfg fuel s0 vals) as [[] fr st1|e fr st1| |w] eqn:E; try discriminate.
  - intro H. right. exists fr, st1. split; [reflexivity|]. eapply auth_rest_false; eauto.
  - intros _. left. eauto.
Qed.

(* a later script starts with: its own bytes, pointer 0, the control flag removed, stack / definitions /
   call count inherited *)
Theorem next_start_spec st prev s :
  let tid := fst (next_start st prev s) in
  let st' := snd (next_start st prev s) in
  to_data (nth_tape st' tid) = s /\
  to_count (nth_tape st' tid) = to_count (nth_tape st prev) /\
  to_defs (nth_tape st' tid) = to_defs (nth_tape st prev) /\
  st_stack st' = st_stack st /\ st_defs st' = st_defs st /\
  cache_get (st_cache st') returned_key = None.
Proof.
  cbv zeta. unfold next_start, nth_tape. simpl. rewrite app_nth2 by lia. rewrite Nat.sub_diag. simpl.
  repeat split. apply cache_get_del_same.
Qed.

End Auth.
