(* C16 at the level of the builders' bytes: the authorisation verdict of the timestamp locks
   (make_timestamp_after_lock / _before_lock / _between_lock), exactly, for every oracle, cache and
   configuration with room.  The before-lock is CHECK_TIMESTAMP ; NOT, so it negates the slack clause
   too (known finding D11); in the between-lock the leading CHECK_TIMESTAMP_VERIFY establishes the slack
   clause, so its window is exact. *)
From Coq Require Import ZArith List Bool Lia.
From Coq.Strings Require Import Byte String.
From TS Require Import Bytes Codec State Prog Ops Interp StateLemmas InterpLemmas NopSpec StackLemmas
  BytesLemmas TapeLemmas AuthSpec Asm TimeSpec BuilderSpec TapeSteps Builders.
Import ListNotations.
Local Open Scope nat_scope.

(* ---------- the bytes ---------- *)

Lemma ts_after_lock_bytes c ver :
  ts_after_lock c ver = push1_bytes c ++ [if ver then x26 else x25].
Proof. destruct ver; reflexivity. Qed.

Lemma ts_before_lock_bytes c ver :
  ts_before_lock c ver = push1_bytes c ++ x25 :: x2e :: (if ver then [x20] else []).
Proof. destruct ver; reflexivity. Qed.

Lemma ts_between_lock_bytes c1 c2 ver :
  ts_between_lock c1 c2 ver =
    push1_bytes c1 ++ [x26] ++ push1_bytes c2 ++ x25 :: x2e :: (if ver then [x20] else []).
Proof. unfold ts_between_lock. rewrite ts_after_lock_bytes, ts_before_lock_bytes, <- app_assoc. reflexivity. Qed.

Lemma not_on_ff : map byte_not [xff] = [x00].  Proof. vm_compute. reflexivity. Qed.
Lemma not_on_00 : map byte_not [x00] = [xff].  Proof. vm_compute. reflexivity. Qed.

Lemma returned_not_ts : ckey_eqb returned_key ts_key = false.
Proof. reflexivity. Qed.

Lemma ts_del_returned c : cache_get (cache_del c returned_key) ts_key = cache_get c ts_key.
Proof. apply cache_get_del_other. exact returned_not_ts. Qed.

(* without an override in [vals] the cache timestamp is the clock of the configuration *)
Lemma init_cache_default cfg : cache_get (init_cache cfg []) ts_key = Some (VOne (AInt (c_now cfg))).
Proof. reflexivity. Qed.

Section L.
Variable orc : oracle.
Variable cfg : config.
Variables ts thr : Z.
Hypothesis Hthr : flag_get (c_flags cfg) thr_key = Some (FVInt thr).

(* the comparison of OP_CHECK_TIMESTAMP for the constraint bytes c *)
Local Notation V c := (ts_verdict cfg (be_to_Z c) ts thr).

(* the constraint bytes: minimal big-endian encoding of a timestamp >= 128 (PUSH1 operand), fitting an item *)
Local Notation good c := (2 <= List.length c <= 255 /\ List.length c <= c_max_item_size cfg).

Lemma good_nonempty (c : bytes) : good c -> c <> [].
Proof. intros [[H _] _] ->. simpl in H. lia. Qed.

(* ---------- segments: PUSH1 c ; CHECK_TIMESTAMP  and  PUSH1 c ; CHECK_TIMESTAMP_VERIFY ---------- *)

Lemma seg_check f tid st (pre tail c : bytes) s :
  tdata st tid = pre ++ (push1_bytes c ++ [x25]) ++ tail ->
  good c -> st_stack st = s -> space cfg s ->
  cache_get (st_cache st) ts_key = Some (VOne (AInt ts)) ->
  run_tape orc cfg (S (S f)) tid (List.length pre) st =
    run_tape orc cfg f tid (List.length (pre ++ push1_bytes c ++ [x25]))
             (with_stack st (boolb (V c) :: s)).
Proof.
  intros Hd Hg Hs Hsp Hc. pose proof (good_nonempty c Hg) as Hne. destruct Hg as [Hl Hf].
  rewrite (push1_step orc cfg (S f) tid st pre c ([x25] ++ tail) s);
    [|rewrite Hd, <- app_assoc; reflexivity|lia|exact Hs|exact Hf|exact Hsp].
  rewrite (op0_done orc cfg f tid (with_stack st (c :: s)) (pre ++ push1_bytes c) x25 tail
                    (with_stack st (boolb (V c) :: s))).
  - rewrite <- app_assoc. reflexivity.
  - rewrite tdata_with_stack, Hd, <- !app_assoc. reflexivity.
  - intros run fr. change (dispatch (N.to_nat (Byte.to_N x25))) with OP_CHECK_TIMESTAMP.
    apply (check_timestamp_spec orc cfg run fr (with_stack st (c :: s)) c s ts thr);
      [reflexivity|exact Hne|exact Hc|exact Hthr|].
    unfold room, space in *. lia.
Qed.

Lemma seg_verify f tid st (pre tail c : bytes) s :
  tdata st tid = pre ++ (push1_bytes c ++ [x26]) ++ tail ->
  good c -> st_stack st = s -> space cfg s ->
  cache_get (st_cache st) ts_key = Some (VOne (AInt ts)) ->
  run_tape orc cfg (S (S f)) tid (List.length pre) st =
    if V c
    then run_tape orc cfg f tid (List.length (pre ++ push1_bytes c ++ [x26])) (with_stack st s)
    else Raised ScriptExecutionError {| fr_tid := tid; fr_ptr := S (List.length (pre ++ push1_bytes c)) |}
                (with_stack st s).
Proof.
  intros Hd Hg Hs Hsp Hc. pose proof (good_nonempty c Hg) as Hne. destruct Hg as [Hl Hf].
  rewrite (push1_step orc cfg (S f) tid st pre c ([x26] ++ tail) s);
    [|rewrite Hd, <- app_assoc; reflexivity|lia|exact Hs|exact Hf|exact Hsp].
  assert (Hd1 : tdata (with_stack st (c :: s)) tid = (pre ++ push1_bytes c) ++ x26 :: tail).
  { rewrite tdata_with_stack, Hd, <- !app_assoc. reflexivity. }
  assert (Hr : room cfg s) by (unfold room, space in *; lia).
  destruct (V c) eqn:E.
  - rewrite (op0_done orc cfg f tid (with_stack st (c :: s)) (pre ++ push1_bytes c) x26 tail
                      (with_stack st s) Hd1).
    + rewrite <- app_assoc. reflexivity.
    + intros run fr. change (dispatch (N.to_nat (Byte.to_N x26))) with OP_CHECK_TIMESTAMP_VERIFY.
      rewrite (check_timestamp_verify_spec orc cfg run fr (with_stack st (c :: s)) c s ts thr);
        [|reflexivity|exact Hne|exact Hc|exact Hthr|exact Hr].
      rewrite E. reflexivity.
  - apply (op0_raised orc cfg f tid (with_stack st (c :: s)) (pre ++ push1_bytes c) x26 tail
                      ScriptExecutionError (with_stack st s) Hd1).
    intros run fr. change (dispatch (N.to_nat (Byte.to_N x26))) with OP_CHECK_TIMESTAMP_VERIFY.
    rewrite (check_timestamp_verify_spec orc cfg run fr (with_stack st (c :: s)) c s ts thr);
      [|reflexivity|exact Hne|exact Hc|exact Hthr|exact Hr].
    rewrite E. reflexivity.
Qed.

Lemma not_step f tid st (pre tail : bytes) (v : bool) s :
  tdata st tid = pre ++ x2e :: tail ->
  st_stack st = boolb v :: s -> 1 <= c_max_item_size cfg -> space cfg s ->
  run_tape orc cfg (S f) tid (List.length pre) st =
    run_tape orc cfg f tid (List.length (pre ++ [x2e])) (with_stack st (boolb (negb v) :: s)).
Proof.
  intros Hd Hs H1 Hsp.
  apply (op0_done orc cfg f tid st pre x2e tail _ Hd).
  intros run fr. change (dispatch (N.to_nat (Byte.to_N x2e))) with OP_NOT.
  apply (not_exec orc cfg run fr st v s Hs H1 Hsp).
Qed.

Lemma verify_step f tid st (pre tail : bytes) (v : bool) s :
  tdata st tid = pre ++ x20 :: tail ->
  st_stack st = boolb v :: s ->
  run_tape orc cfg (S f) tid (List.length pre) st =
    if v then run_tape orc cfg f tid (List.length (pre ++ [x20])) (with_stack st s)
    else Raised ScriptExecutionError {| fr_tid := tid; fr_ptr := S (List.length pre) |} (with_stack st s).
Proof.
  intros Hd Hs. destruct v.
  - apply (op0_done orc cfg f tid st pre x20 tail _ Hd).
    intros run fr. change (dispatch (N.to_nat (Byte.to_N x20))) with OP_VERIFY.
    apply (verify_exec orc cfg run fr st true s Hs).
  - apply (op0_raised orc cfg f tid st pre x20 tail _ _ Hd).
    intros run fr. change (dispatch (N.to_nat (Byte.to_N x20))) with OP_VERIFY.
    apply (verify_exec orc cfg run fr st false s Hs).
Qed.

Lemma good_one (c : bytes) : good c -> 1 <= c_max_item_size cfg.
Proof. lia. Qed.

(* ---------- ver = false: the lock is the only script ---------- *)

Theorem ts_after_exact f c vals :
  good c -> 1 <= c_max_items cfg ->
  cache_get (init_cache cfg vals) ts_key = Some (VOne (AInt ts)) ->
  run_auth_scripts orc cfg (S (S (S f))) [ts_after_lock c false] vals =
    AuthVerdict (V c) (init_state cfg (ts_after_lock c false) vals).
Proof.
  intros Hg Hit Hc. unfold run_auth_scripts, run_script.
  set (st0 := init_state cfg (ts_after_lock c false) vals).
  assert (Hd : tdata st0 0 = ts_after_lock c false) by reflexivity.
  rewrite ts_after_lock_bytes in Hd.
  start_tape.
  rewrite (seg_check (S f) 0 st0 [] [] c []);
    [|rewrite Hd, app_nil_r; reflexivity|exact Hg|reflexivity|unfold space; simpl; lia|exact Hc].
  rewrite tape_end by (rewrite tdata_with_stack, Hd; reflexivity).
  cbn [auth_rest st_stack with_stack]. unfold boolb. rewrite verdict_byte. reflexivity.
Qed.

Theorem ts_before_exact f c vals :
  good c -> 1 <= c_max_items cfg ->
  cache_get (init_cache cfg vals) ts_key = Some (VOne (AInt ts)) ->
  run_auth_scripts orc cfg (S (S (S (S f)))) [ts_before_lock c false] vals =
    AuthVerdict (negb (V c)) (init_state cfg (ts_before_lock c false) vals).
Proof.
  intros Hg Hit Hc. unfold run_auth_scripts, run_script.
  set (st0 := init_state cfg (ts_before_lock c false) vals).
  assert (Hd : tdata st0 0 = ts_before_lock c false) by reflexivity.
  rewrite ts_before_lock_bytes in Hd.
  start_tape.
  rewrite (seg_check (S (S f)) 0 st0 [] [x2e] c []);
    [|rewrite Hd, <- app_assoc; reflexivity|exact Hg|reflexivity|unfold space; simpl; lia|exact Hc].
  rewrite (not_step (S f) 0 _ _ [] (V c) []);
    [|rewrite tdata_with_stack, Hd, <- !app_assoc; reflexivity|reflexivity|exact (good_one c Hg)
     |unfold space; simpl; lia].
  rewrite tape_end by (rewrite !tdata_with_stack, Hd, <- !app_assoc; reflexivity).
  cbn [auth_rest st_stack with_stack]. unfold boolb. rewrite verdict_byte. reflexivity.
Qed.

Theorem ts_between_exact f c1 c2 vals :
  good c1 -> good c2 -> 1 <= c_max_items cfg ->
  cache_get (init_cache cfg vals) ts_key = Some (VOne (AInt ts)) ->
  run_auth_scripts orc cfg (S (S (S (S (S (S f)))))) [ts_between_lock c1 c2 false] vals =
    AuthVerdict (V c1 && negb (V c2)) (init_state cfg (ts_between_lock c1 c2 false) vals).
Proof.
  intros Hg1 Hg2 Hit Hc. unfold run_auth_scripts, run_script.
  set (st0 := init_state cfg (ts_between_lock c1 c2 false) vals).
  assert (Hd : tdata st0 0 = ts_between_lock c1 c2 false) by reflexivity.
  rewrite ts_between_lock_bytes in Hd.
  start_tape.
  rewrite (seg_verify (S (S (S (S f)))) 0 st0 [] (push1_bytes c2 ++ [x25; x2e]) c1 []);
    [|rewrite Hd, <- !app_assoc; reflexivity|exact Hg1|reflexivity|unfold space; simpl; lia|exact Hc].
  destruct (V c1); [|reflexivity].
  rewrite (seg_check (S (S f)) 0 _ _ [x2e] c2 []);
    [|rewrite tdata_with_stack, Hd, <- !app_assoc; reflexivity|exact Hg2|reflexivity
     |unfold space; simpl; lia|exact Hc].
  rewrite (not_step (S f) 0 _ _ [] (V c2) []);
    [|rewrite !tdata_with_stack, Hd, <- !app_assoc; reflexivity|reflexivity|exact (good_one c2 Hg2)
     |unfold space; simpl; lia].
  rewrite tape_end by (rewrite !tdata_with_stack, Hd, <- !app_assoc; reflexivity).
  cbn [auth_rest st_stack with_stack andb]. unfold boolb. rewrite verdict_byte. reflexivity.
Qed.

(* ---------- ver = true: a first script OP_TRUE leaves [ff]; the lock must leave it alone ---------- *)

Lemma true_runs f vals :
  1 <= c_max_items cfg -> 1 <= c_max_item_size cfg ->
  run_script orc cfg (S (S f)) [x01] vals =
    Done tt {| fr_tid := 0; fr_ptr := 1 |} (with_stack (init_state cfg [x01] vals) [[xff]]).
Proof.
  intros Hit Hsz. unfold run_script.
  set (st0 := init_state cfg [x01] vals).
  assert (Hd : tdata st0 0 = [] ++ x01 :: []) by reflexivity.
  start_tape.
  rewrite (op0_done orc cfg (S f) 0 st0 [] x01 [] (with_stack st0 [[xff]]) Hd).
  - rewrite tape_end by reflexivity. reflexivity.
  - intros run fr. change (dispatch (N.to_nat (Byte.to_N x01))) with OP_TRUE.
    apply true_exec; [reflexivity|exact Hsz|unfold space; simpl; lia].
Qed.

(* the state in which the lock starts after OP_TRUE *)
Definition after_true (vals : cache) (lock : bytes) : state :=
  snd (next_start (with_stack (init_state cfg [x01] vals) [[xff]]) 0 lock).

Lemma after_true_facts vals lock :
  tdata (after_true vals lock) 1 = lock /\ st_stack (after_true vals lock) = [[xff]] /\
  st_cache (after_true vals lock) = cache_del (init_cache cfg vals) returned_key.
Proof. repeat split. Qed.

Theorem ts_after_verify_exact f c vals :
  good c -> 2 <= c_max_items cfg ->
  cache_get (init_cache cfg vals) ts_key = Some (VOne (AInt ts)) ->
  exists st, run_auth_scripts orc cfg (S (S (S f))) [[x01]; ts_after_lock c true] vals = AuthVerdict (V c) st.
Proof.
  intros Hg Hit Hc. unfold run_auth_scripts.
  rewrite true_runs by (try exact (good_one c Hg); lia).
  rewrite auth_rest_unfold.
  change (fst (next_start (with_stack (init_state cfg [x01] vals) [[xff]]) 0 (ts_after_lock c true))) with 1.
  fold (after_true vals (ts_after_lock c true)).
  set (st0 := after_true vals (ts_after_lock c true)).
  destruct (after_true_facts vals (ts_after_lock c true)) as (Hd & Hs & Hca). fold st0 in Hd, Hs, Hca.
  rewrite ts_after_lock_bytes in Hd.
  assert (Hc0 : cache_get (st_cache st0) ts_key = Some (VOne (AInt ts))) by (rewrite Hca, ts_del_returned; exact Hc).
  start_tape.
  rewrite (seg_verify (S f) 1 st0 [] [] c [[xff]]);
    [|rewrite Hd, app_nil_r; reflexivity|exact Hg|exact Hs|unfold space; simpl; lia|exact Hc0].
  destruct (V c).
  - rewrite tape_end by (rewrite tdata_with_stack, Hd; reflexivity).
    cbn [auth_rest st_stack with_stack]. eexists. reflexivity.
  - eexists. reflexivity.
Qed.

Theorem ts_before_verify_exact f c vals :
  good c -> 2 <= c_max_items cfg ->
  cache_get (init_cache cfg vals) ts_key = Some (VOne (AInt ts)) ->
  exists st, run_auth_scripts orc cfg (S (S (S (S (S f))))) [[x01]; ts_before_lock c true] vals
             = AuthVerdict (negb (V c)) st.
Proof.
  intros Hg Hit Hc. unfold run_auth_scripts.
  rewrite true_runs by (try exact (good_one c Hg); lia).
  rewrite auth_rest_unfold.
  change (fst (next_start (with_stack (init_state cfg [x01] vals) [[xff]]) 0 (ts_before_lock c true))) with 1.
  fold (after_true vals (ts_before_lock c true)).
  set (st0 := after_true vals (ts_before_lock c true)).
  destruct (after_true_facts vals (ts_before_lock c true)) as (Hd & Hs & Hca). fold st0 in Hd, Hs, Hca.
  rewrite ts_before_lock_bytes in Hd.
  assert (Hc0 : cache_get (st_cache st0) ts_key = Some (VOne (AInt ts))) by (rewrite Hca, ts_del_returned; exact Hc).
  start_tape.
  rewrite (seg_check (S (S (S f))) 1 st0 [] [x2e; x20] c [[xff]]);
    [|rewrite Hd, <- app_assoc; reflexivity|exact Hg|exact Hs|unfold space; simpl; lia|exact Hc0].
  rewrite (not_step (S (S f)) 1 _ _ [x20] (V c) [[xff]]);
    [|rewrite tdata_with_stack, Hd, <- !app_assoc; reflexivity|reflexivity|exact (good_one c Hg)
     |unfold space; simpl; lia].
  rewrite (verify_step (S f) 1 _ _ [] (negb (V c)) [[xff]]);
    [|rewrite !tdata_with_stack, Hd, <- !app_assoc; reflexivity|reflexivity].
  destruct (negb (V c)).
  - rewrite tape_end by (rewrite !tdata_with_stack, Hd, <- !app_assoc; reflexivity).
    cbn [auth_rest st_stack with_stack]. eexists. reflexivity.
  - eexists. reflexivity.
Qed.

Theorem ts_between_verify_exact f c1 c2 vals :
  good c1 -> good c2 -> 2 <= c_max_items cfg ->
  cache_get (init_cache cfg vals) ts_key = Some (VOne (AInt ts)) ->
  exists st, run_auth_scripts orc cfg (S (S (S (S (S (S (S f))))))) [[x01]; ts_between_lock c1 c2 true] vals
             = AuthVerdict (V c1 && negb (V c2)) st.
Proof.
  intros Hg1 Hg2 Hit Hc. unfold run_auth_scripts.
  rewrite true_runs by (try exact (good_one c1 Hg1); lia).
  rewrite auth_rest_unfold.
  change (fst (next_start (with_stack (init_state cfg [x01] vals) [[xff]]) 0 (ts_between_lock c1 c2 true))) with 1.
  fold (after_true vals (ts_between_lock c1 c2 true)).
  set (st0 := after_true vals (ts_between_lock c1 c2 true)).
  destruct (after_true_facts vals (ts_between_lock c1 c2 true)) as (Hd & Hs & Hca). fold st0 in Hd, Hs, Hca.
  rewrite ts_between_lock_bytes in Hd.
  assert (Hc0 : cache_get (st_cache st0) ts_key = Some (VOne (AInt ts))) by (rewrite Hca, ts_del_returned; exact Hc).
  start_tape.
  rewrite (seg_verify (S (S (S (S (S f))))) 1 st0 [] (push1_bytes c2 ++ [x25; x2e; x20]) c1 [[xff]]);
    [|rewrite Hd, <- !app_assoc; reflexivity|exact Hg1|exact Hs|unfold space; simpl; lia|exact Hc0].
  destruct (V c1); [|eexists; reflexivity].
  rewrite (seg_check (S (S (S f))) 1 _ _ [x2e; x20] c2 [[xff]]);
    [|rewrite tdata_with_stack, Hd, <- !app_assoc; reflexivity|exact Hg2|reflexivity
     |unfold space; simpl; lia|exact Hc0].
  rewrite (not_step (S (S f)) 1 _ _ [x20] (V c2) [[xff]]);
    [|rewrite !tdata_with_stack, Hd, <- !app_assoc; reflexivity|reflexivity|exact (good_one c2 Hg2)
     |unfold space; simpl; lia].
  rewrite (verify_step (S f) 1 _ _ [] (negb (V c2)) [[xff]]);
    [|rewrite !tdata_with_stack, Hd, <- !app_assoc; reflexivity|reflexivity].
  cbn [andb].
  destruct (negb (V c2)).
  - rewrite tape_end by (rewrite !tdata_with_stack, Hd, <- !app_assoc; reflexivity).
    cbn [auth_rest st_stack with_stack]. eexists. reflexivity.
  - eexists. reflexivity.
Qed.

(* ---------- the verdicts in words ---------- *)

Lemma V_iff c : V c = true <-> (be_to_Z c <= ts /\ (thr <= 0 \/ ts - c_now cfg < thr))%Z.
Proof.
  unfold ts_verdict. rewrite andb_true_iff, orb_true_iff, !Z.leb_le, Z.ltb_lt. tauto.
Qed.

(* D11: the before-lock accepts  ts < c  and also every ts at or beyond the slack *)
Corollary before_verdict_iff c :
  negb (V c) = true <-> (ts < be_to_Z c \/ (0 < thr /\ thr <= ts - c_now cfg))%Z.
Proof.
  rewrite negb_true_iff. split.
  - intro H. destruct (Z.lt_ge_cases ts (be_to_Z c)) as [|H1]; [left; assumption|].
    right. destruct (Z.lt_ge_cases 0 thr) as [H2|H2], (Z.lt_ge_cases (ts - c_now cfg) thr) as [H3|H3];
      try (split; lia); exfalso;
      (assert (Ht : V c = true) by (apply V_iff; lia)); congruence.
  - intro H. destruct (V c) eqn:E; [|reflexivity]. apply V_iff in E. lia.
Qed.

(* the between-lock window is exact *)
Corollary between_verdict_iff c1 c2 :
  V c1 && negb (V c2) = true <->
  (be_to_Z c1 <= ts /\ (thr <= 0 \/ ts - c_now cfg < thr) /\ ts < be_to_Z c2)%Z.
Proof.
  rewrite andb_true_iff, V_iff, before_verdict_iff. lia.
Qed.

End L.

(* ---------- closed statements ---------- *)

Theorem ts_before_accepts_iff orc cfg ts thr f c vals :
  flag_get (c_flags cfg) thr_key = Some (FVInt thr) ->
  (2 <= List.length c <= 255 /\ List.length c <= c_max_item_size cfg) -> 1 <= c_max_items cfg ->
  cache_get (init_cache cfg vals) ts_key = Some (VOne (AInt ts)) ->
  match run_auth_scripts orc cfg (S (S (S (S f)))) [ts_before_lock c false] vals with
  | AuthVerdict b _ => b = true <-> (ts < be_to_Z c \/ (0 < thr /\ thr <= ts - c_now cfg))%Z
  | _ => False
  end.
Proof.
  intros Hthr Hg Hit Hc. rewrite (ts_before_exact orc cfg ts thr Hthr f c vals Hg Hit Hc).
  apply before_verdict_iff.
Qed.

Theorem ts_after_accepts_iff orc cfg ts thr f c vals :
  flag_get (c_flags cfg) thr_key = Some (FVInt thr) ->
  (2 <= List.length c <= 255 /\ List.length c <= c_max_item_size cfg) -> 1 <= c_max_items cfg ->
  cache_get (init_cache cfg vals) ts_key = Some (VOne (AInt ts)) ->
  match run_auth_scripts orc cfg (S (S (S f))) [ts_after_lock c false] vals with
  | AuthVerdict b _ => b = true <-> (be_to_Z c <= ts /\ (thr <= 0 \/ ts - c_now cfg < thr))%Z
  | _ => False
  end.
Proof.
  intros Hthr Hg Hit Hc. rewrite (ts_after_exact orc cfg ts thr Hthr f c vals Hg Hit Hc).
  apply V_iff.
Qed.

Theorem ts_between_accepts_iff orc cfg ts thr f c1 c2 vals :
  flag_get (c_flags cfg) thr_key = Some (FVInt thr) ->
  (2 <= List.length c1 <= 255 /\ List.length c1 <= c_max_item_size cfg) ->
  (2 <= List.length c2 <= 255 /\ List.length c2 <= c_max_item_size cfg) -> 1 <= c_max_items cfg ->
  cache_get (init_cache cfg vals) ts_key = Some (VOne (AInt ts)) ->
  match run_auth_scripts orc cfg (S (S (S (S (S (S f)))))) [ts_between_lock c1 c2 false] vals with
  | AuthVerdict b _ =>
    b = true <-> (be_to_Z c1 <= ts /\ (thr <= 0 \/ ts - c_now cfg < thr) /\ ts < be_to_Z c2)%Z
  | _ => False
  end.
Proof.
  intros Hthr Hg1 Hg2 Hit Hc. rewrite (ts_between_exact orc cfg ts thr Hthr f c1 c2 vals Hg1 Hg2 Hit Hc).
  apply between_verdict_iff.
Qed.

(* ver = true variants (first script OP_TRUE), as iffs *)
Theorem ts_after_verify_accepts_iff orc cfg ts thr f c vals :
  flag_get (c_flags cfg) thr_key = Some (FVInt thr) ->
  (2 <= List.length c <= 255 /\ List.length c <= c_max_item_size cfg) -> 2 <= c_max_items cfg ->
  cache_get (init_cache cfg vals) ts_key = Some (VOne (AInt ts)) ->
  match run_auth_scripts orc cfg (S (S (S f))) [[x01]; ts_after_lock c true] vals with
  | AuthVerdict b _ => b = true <-> (be_to_Z c <= ts /\ (thr <= 0 \/ ts - c_now cfg < thr))%Z
  | _ => False
  end.
Proof.
  intros Hthr Hg Hit Hc.
  destruct (ts_after_verify_exact orc cfg ts thr Hthr f c vals Hg Hit Hc) as [st ->]. apply V_iff.
Qed.

Theorem ts_before_verify_accepts_iff orc cfg ts thr f c vals :
  flag_get (c_flags cfg) thr_key = Some (FVInt thr) ->
  (2 <= List.length c <= 255 /\ List.length c <= c_max_item_size cfg) -> 2 <= c_max_items cfg ->
  cache_get (init_cache cfg vals) ts_key = Some (VOne (AInt ts)) ->
  match run_auth_scripts orc cfg (S (S (S (S (S f))))) [[x01]; ts_before_lock c true] vals with
  | AuthVerdict b _ => b = true <-> (ts < be_to_Z c \/ (0 < thr /\ thr <= ts - c_now cfg))%Z
  | _ => False
  end.
Proof.
  intros Hthr Hg Hit Hc.
  destruct (ts_before_verify_exact orc cfg ts thr Hthr f c vals Hg Hit Hc) as [st ->].
  apply before_verdict_iff.
Qed.

Theorem ts_between_verify_accepts_iff orc cfg ts thr f c1 c2 vals :
  flag_get (c_flags cfg) thr_key = Some (FVInt thr) ->
  (2 <= List.length c1 <= 255 /\ List.length c1 <= c_max_item_size cfg) ->
  (2 <= List.length c2 <= 255 /\ List.length c2 <= c_max_item_size cfg) -> 2 <= c_max_items cfg ->
  cache_get (init_cache cfg vals) ts_key = Some (VOne (AInt ts)) ->
  match run_auth_scripts orc cfg (S (S (S (S (S (S (S f))))))) [[x01]; ts_between_lock c1 c2 true] vals with
  | AuthVerdict b _ =>
    b = true <-> (be_to_Z c1 <= ts /\ (thr <= 0 \/ ts - c_now cfg < thr) /\ ts < be_to_Z c2)%Z
  | _ => False
  end.
Proof.
  intros Hthr Hg1 Hg2 Hit Hc.
  destruct (ts_between_verify_exact orc cfg ts thr Hthr f c1 c2 vals Hg1 Hg2 Hit Hc) as [st ->].
  apply between_verdict_iff.
Qed.

Print Assumptions ts_after_exact.
Print Assumptions ts_before_exact.
Print Assumptions ts_between_exact.
Print Assumptions ts_after_verify_exact.
Print Assumptions ts_before_verify_exact.
Print Assumptions ts_between_verify_exact.
Print Assumptions ts_after_accepts_iff.
Print Assumptions ts_before_accepts_iff.
Print Assumptions ts_between_accepts_iff.
Print Assumptions ts_after_verify_accepts_iff.
Print Assumptions ts_before_verify_accepts_iff.
Print Assumptions ts_between_verify_accepts_iff.
