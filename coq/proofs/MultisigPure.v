(* Combinatorial content of OP_CHECK_MULTISIG on the pure version of the greedy matching
   loop (model/Ops.v [ms_find] / [ms_go] with the signature check abstracted to [chk]).

     confirmed = set()
     for sig in sigs:
         for vkey in vkeys:
             if chk(sig, vkey):
                 vkeys.remove(vkey); confirmed.add(sig); break
     result = len(confirmed) == len(sigs)

   Soundness (unconditional): a passing verdict yields pairwise different signatures, each
   valid under a different POSITION of the key list.  Completeness and order invariance hold
   under explicit premises; the examples at the end show that they fail without them. *)
From Coq Require Import List Bool Arith Lia.
From Coq.Sorting Require Import Permutation.
From Coq.Strings Require Import Byte.
From TS Require Import Bytes State Prog Ops StateLemmas.
Import ListNotations.
Local Open Scope nat_scope.

Definition bytes_dec : forall a b : bytes, {a = b} + {a <> b} := list_eq_dec Byte.byte_eq_dec.

(* ---------- remove_first / set_add ---------- *)

Lemma existsb_bytes_eqb_In (x : bytes) (l : list bytes) :
  existsb (bytes_eqb x) l = true <-> In x l.
Proof.
  rewrite existsb_exists. split.
  - intros [y [Hy E]]. apply bytes_eqb_eq in E. subst. exact Hy.
  - intros H. exists x. split; [exact H | apply bytes_eqb_refl].
Qed.

Lemma set_add_notin (c : list bytes) (s : bytes) : ~ In s c -> set_add c s = s :: c.
Proof.
  intros H. unfold set_add. destruct (existsb (bytes_eqb s) c) eqn:E; [|reflexivity].
  apply existsb_bytes_eqb_In in E. contradiction.
Qed.

Lemma set_add_in (c : list bytes) (s : bytes) : In s c -> set_add c s = c.
Proof.
  intros H. unfold set_add. apply existsb_bytes_eqb_In in H. rewrite H. reflexivity.
Qed.

Lemma set_add_length_le (c : list bytes) (s : bytes) : length (set_add c s) <= S (length c).
Proof. unfold set_add. destruct (existsb (bytes_eqb s) c); simpl; lia. Qed.

Lemma set_add_length_full (c : list bytes) (s : bytes) :
  length (set_add c s) = S (length c) -> ~ In s c.
Proof.
  intros H Hin. rewrite (set_add_in _ _ Hin) in H. lia.
Qed.

Lemma remove_first_perm (keys : list bytes) (k : bytes) :
  In k keys -> Permutation keys (k :: remove_first keys k).
Proof.
  induction keys as [|y t IH]; simpl; [tauto|].
  intros H. destruct (bytes_eqb y k) eqn:E.
  - apply bytes_eqb_eq in E. subst. apply Permutation_refl.
  - destruct H as [H|H]; [subst; rewrite bytes_eqb_refl in E; discriminate|].
    eapply perm_trans; [apply perm_skip, IH, H | apply perm_swap].
Qed.

Lemma remove_first_in_neq (keys : list bytes) (k x : bytes) :
  In x keys -> x <> k -> In x (remove_first keys k).
Proof.
  induction keys as [|y t IH]; simpl; [tauto|].
  intros H Hne. destruct (bytes_eqb y k) eqn:E.
  - apply bytes_eqb_eq in E. subst. destruct H; [congruence | assumption].
  - destruct H; [left; assumption | right; auto].
Qed.

Lemma remove_first_incl (keys : list bytes) (k x : bytes) :
  In x (remove_first keys k) -> In x keys.
Proof.
  induction keys as [|y t IH]; simpl; [tauto|].
  destruct (bytes_eqb y k); simpl; intuition.
Qed.

Lemma count_occ_perm (l1 l2 : list bytes) :
  Permutation l1 l2 -> forall k, count_occ bytes_dec l1 k = count_occ bytes_dec l2 k.
Proof.
  induction 1; intros k; simpl.
  - reflexivity.
  - rewrite IHPermutation. reflexivity.
  - destruct (bytes_dec y k), (bytes_dec x k); reflexivity.
  - rewrite IHPermutation1. apply IHPermutation2.
Qed.

(* ---------- generic facts on NoDup / Forall2 ---------- *)

Lemma NoDup_app_l {A} (l r : list A) : NoDup (l ++ r) -> NoDup l.
Proof.
  induction l as [|a l IH]; simpl; intros H; [constructor|].
  inversion H; subst. constructor; [|auto].
  intros Hin. apply H2. apply in_or_app. auto.
Qed.

Lemma Forall2_In_l {A B} (R : A -> B -> Prop) (l : list A) (l' : list B) (a : A) :
  Forall2 R l l' -> In a l -> exists b, In b l' /\ R a b.
Proof.
  induction 1; simpl; [tauto|].
  intros [->|H1].
  - eauto.
  - destruct (IHForall2 H1) as [b [Hb Rb]]. eauto.
Qed.

(* An injective, functional matching: if every left element relates to at most one element
   of the right list, and the right list has no duplicates, then two left elements related
   to the same right element are equal. *)
Lemma Forall2_inj {A B} (R : A -> B -> Prop) (l : list A) (ks : list B) :
  Forall2 R l ks -> NoDup ks ->
  (forall s k1 k2, In s l -> In k1 ks -> In k2 ks -> R s k1 -> R s k2 -> k1 = k2) ->
  forall s1 s2 k, In s1 l -> In s2 l -> In k ks -> R s1 k -> R s2 k -> s1 = s2.
Proof.
  induction 1 as [|a b l ks Rab F IH]; simpl; [tauto|].
  intros ND ex s1 s2 k H1 H2 Hk R1 R2.
  inversion ND as [|? ? Hnb ND']; subst.
  assert (exl : forall s k1 k2, In s l -> In k1 ks -> In k2 ks -> R s k1 -> R s k2 -> k1 = k2)
    by (intros s0 k1 k2 ? ? ? ? ?; apply (ex s0 k1 k2); auto).
  assert (cross : forall s, In s l -> R s k -> R a k -> False).
  { intros s Hs Rs Ra.
    destruct (Forall2_In_l _ _ _ _ F Hs) as [k' [Hk' Rk']].
    assert (k' = k) by (eapply (ex s); eauto). subst k'.
    assert (b = k) by (eapply (ex a); eauto). subst b. contradiction. }
  destruct H1 as [->|H1], H2 as [->|H2].
  - reflexivity.
  - exfalso. eapply cross; eauto.
  - exfalso. eapply cross; eauto.
  - destruct (Forall2_In_l _ _ _ _ F H1) as [k' [Hk' Rk']].
    assert (k' = k) by (eapply (ex s1); eauto). subst k'.
    eapply IH; eauto.
Qed.

(* ---------- the pure loop ---------- *)

Section MS.
Variable chk : bytes -> bytes -> bool.

Fixpoint pfind (sig : bytes) (keys : list bytes) : option bytes :=
  match keys with [] => None | k :: t => if chk sig k then Some k else pfind sig t end.

Fixpoint pgo (sigs keys confirmed : list bytes) : list bytes :=
  match sigs with
  | [] => confirmed
  | s :: t => match pfind s keys with
              | Some k => pgo t (remove_first keys k) (set_add confirmed s)
              | None => pgo t keys confirmed
              end
  end.

Definition ms_verdict (sigs keys : list bytes) : bool :=
  Nat.eqb (List.length (pgo sigs keys [])) (List.length sigs).

Lemma pfind_some (s : bytes) (keys : list bytes) (k : bytes) :
  pfind s keys = Some k -> In k keys /\ chk s k = true.
Proof.
  induction keys as [|y t IH]; simpl; [discriminate|].
  destruct (chk s y) eqn:E.
  - intros [= <-]. auto.
  - intros H. destruct (IH H). auto.
Qed.

Lemma pfind_none (s : bytes) (keys : list bytes) :
  pfind s keys = None -> forall k, In k keys -> chk s k = false.
Proof.
  induction keys as [|y t IH]; simpl; [tauto|].
  destruct (chk s y) eqn:E; [discriminate|].
  intros H k [<-|Hk]; auto.
Qed.

Lemma pfind_exists (s : bytes) (keys : list bytes) (k : bytes) :
  In k keys -> chk s k = true -> exists k', pfind s keys = Some k'.
Proof.
  intros Hk Hc. destruct (pfind s keys) eqn:E; [eauto|].
  rewrite (pfind_none _ _ E _ Hk) in Hc. discriminate.
Qed.

(* The confirmed set grows by at most one per signature; it grows by exactly one per
   signature only if all signatures are new, pairwise different, and injectively matched. *)
Lemma pgo_spec (sigs : list bytes) :
  forall keys c,
    length (pgo sigs keys c) <= length c + length sigs /\
    (length (pgo sigs keys c) = length c + length sigs ->
       NoDup sigs /\ (forall s, In s sigs -> ~ In s c) /\
       exists ks rest, length ks = length sigs /\
                       Forall2 (fun s k => chk s k = true) sigs ks /\
                       Permutation keys (ks ++ rest)).
Proof.
  induction sigs as [|s t IH]; intros keys c; simpl.
  - split; [lia|]. intros _. split; [constructor|]. split; [tauto|].
    exists [], keys. simpl. repeat split; auto.
  - destruct (pfind s keys) as [k|] eqn:E.
    + destruct (pfind_some _ _ _ E) as [Hk Hc].
      destruct (IH (remove_first keys k) (set_add c s)) as [Hle Hfull].
      pose proof (set_add_length_le c s) as Hs.
      split; [lia|]. intros Heq.
      assert (Hlen : length (set_add c s) = S (length c)) by lia.
      pose proof (set_add_length_full _ _ Hlen) as Hnin.
      destruct Hfull as [ND [Hdis [ks [rest [Hl [F P]]]]]]; [lia|].
      rewrite (set_add_notin _ _ Hnin) in Hdis.
      split; [|split].
      * constructor; [|exact ND]. intros Hin. apply (Hdis s Hin). left. reflexivity.
      * intros s' [<-|Hs'] Hin'; [contradiction|].
        apply (Hdis s' Hs'). right. exact Hin'.
      * exists (k :: ks), rest. simpl. split; [lia|]. split; [constructor; assumption|].
        eapply perm_trans; [apply remove_first_perm; exact Hk|].
        apply perm_skip. exact P.
    + destruct (IH keys c) as [Hle _]. split; [lia|]. intros Heq. lia.
Qed.

(* ---------- 1. soundness ---------- *)

Theorem multisig_sound :
  forall sigs keys, ms_verdict sigs keys = true ->
    NoDup sigs /\
    exists ks rest, List.length ks = List.length sigs /\
                    Forall2 (fun s k => chk s k = true) sigs ks /\
                    Permutation keys (ks ++ rest).
Proof.
  intros sigs keys H. unfold ms_verdict in H. apply Nat.eqb_eq in H.
  destruct (pgo_spec sigs keys []) as [_ Hfull].
  destruct (Hfull H) as [ND [_ Hex]]. split; assumption.
Qed.

(* ---------- 2. corollaries ---------- *)

Corollary multisig_sigs_le_keys :
  forall sigs keys, ms_verdict sigs keys = true -> List.length sigs <= List.length keys.
Proof.
  intros sigs keys H. destruct (multisig_sound _ _ H) as [_ [ks [rest [Hl [_ P]]]]].
  rewrite (Permutation_length P), app_length. lia.
Qed.

Corollary multisig_repeated_sig_fails :
  forall sigs keys, ~ NoDup sigs -> ms_verdict sigs keys = false.
Proof.
  intros sigs keys H. destruct (ms_verdict sigs keys) eqn:E; [|reflexivity].
  destruct (multisig_sound _ _ E) as [ND _]. contradiction.
Qed.

(* Any matching as produced by soundness uses each key VALUE at most as often as it occurs
   in the key list. *)
Lemma matching_count_occ :
  forall (sigs keys : list bytes),
    (exists ks rest, List.length ks = List.length sigs /\
                     Forall2 (fun s k => chk s k = true) sigs ks /\
                     Permutation keys (ks ++ rest)) ->
    exists ks rest, List.length ks = List.length sigs /\
                    Forall2 (fun s k => chk s k = true) sigs ks /\
                    Permutation keys (ks ++ rest) /\
                    forall k, count_occ bytes_dec ks k <= count_occ bytes_dec keys k.
Proof.
  intros sigs keys [ks [rest [Hl [F P]]]]. exists ks, rest. repeat split; auto.
  intros k. rewrite (count_occ_perm _ _ P k), count_occ_app. lia.
Qed.

Corollary multisig_distinct_signers :
  forall sigs keys, ms_verdict sigs keys = true ->
    exists ks rest, List.length ks = List.length sigs /\
                    Forall2 (fun s k => chk s k = true) sigs ks /\
                    Permutation keys (ks ++ rest) /\
                    forall k, count_occ bytes_dec ks k <= count_occ bytes_dec keys k.
Proof.
  intros sigs keys H. apply matching_count_occ. apply (multisig_sound _ _ H).
Qed.

(* ---------- 3. completeness ---------- *)

(* The premises actually used: the signatures are pairwise different and new, every
   signature has a key, and no key of the list validates two different signatures. *)
Lemma pgo_complete (sigs : list bytes) :
  forall keys c,
    NoDup sigs ->
    (forall s, In s sigs -> ~ In s c) ->
    (forall s, In s sigs -> exists k, In k keys /\ chk s k = true) ->
    (forall s1 s2 k, In s1 sigs -> In s2 sigs -> In k keys ->
                     chk s1 k = true -> chk s2 k = true -> s1 = s2) ->
    length (pgo sigs keys c) = length c + length sigs.
Proof.
  induction sigs as [|s t IH]; intros keys c ND Hdis Hall Hinj; simpl; [lia|].
  inversion ND as [|? ? Hnt ND']; subst.
  destruct (Hall s (or_introl eq_refl)) as [k0 [Hk0 Hc0]].
  destruct (pfind_exists _ _ _ Hk0 Hc0) as [k E]. rewrite E.
  destruct (pfind_some _ _ _ E) as [Hk Hc].
  rewrite (set_add_notin c s) by (apply Hdis; left; reflexivity).
  rewrite IH; simpl; try lia; auto.
  - intros s' Hs' [<-|Hin]; [contradiction|]. apply (Hdis s'); [right; assumption | assumption].
  - intros s' Hs'. destruct (Hall s' (or_intror Hs')) as [k' [Hk' Hc']].
    exists k'. split; [|exact Hc'].
    apply remove_first_in_neq; [exact Hk'|]. intros ->.
    assert (s = s') by (apply (Hinj s s' k); simpl; auto). subst. contradiction.
  - intros s1 s2 k' H1 H2 Hk'. apply Hinj; simpl; auto.
    eapply remove_first_incl; eassumption.
Qed.

(* Stronger form: neither exclusivity nor NoDup keys is needed once no key validates two
   different signatures. *)
Theorem multisig_complete_strong :
  forall sigs keys,
    NoDup sigs ->
    (forall s, In s sigs -> exists k, In k keys /\ chk s k = true) ->
    (forall s1 s2 k, In s1 sigs -> In s2 sigs -> In k keys ->
                     chk s1 k = true -> chk s2 k = true -> s1 = s2) ->
    ms_verdict sigs keys = true.
Proof.
  intros sigs keys ND Hall Hinj. unfold ms_verdict. apply Nat.eqb_eq.
  rewrite (pgo_complete sigs keys []); auto.
Qed.

Theorem multisig_complete :
  forall sigs keys,
    (forall s k1 k2, In s sigs -> In k1 keys -> In k2 keys ->
                     chk s k1 = true -> chk s k2 = true -> k1 = k2) ->
    NoDup sigs -> NoDup keys ->
    (forall s, In s sigs -> exists k, In k keys /\ chk s k = true) ->
    (forall s1 s2 k, In s1 sigs -> In s2 sigs -> In k keys ->
                     chk s1 k = true -> chk s2 k = true -> s1 = s2) ->
    ms_verdict sigs keys = true.
Proof.
  intros sigs keys _ ND _ Hall Hinj. apply multisig_complete_strong; assumption.
Qed.

(* ---------- 4. order invariance ---------- *)

(* Under exclusivity and NoDup keys the verdict is characterised by a statement that only
   mentions membership. *)
Theorem multisig_verdict_iff :
  forall sigs keys,
    (forall s k1 k2, In s sigs -> In k1 keys -> In k2 keys ->
                     chk s k1 = true -> chk s k2 = true -> k1 = k2) ->
    NoDup sigs -> NoDup keys ->
    (ms_verdict sigs keys = true <->
     (forall s, In s sigs -> exists k, In k keys /\ chk s k = true) /\
     (forall s1 s2 k, In s1 sigs -> In s2 sigs -> In k keys ->
                      chk s1 k = true -> chk s2 k = true -> s1 = s2)).
Proof.
  intros sigs keys excl NDs NDk. split.
  - intros H. destruct (multisig_sound _ _ H) as [_ [ks [rest [Hl [F P]]]]].
    assert (Hsub : forall k, In k ks -> In k keys).
    { intros k Hk. apply (Permutation_in _ (Permutation_sym P)). apply in_or_app. auto. }
    assert (NDks : NoDup ks).
    { apply (NoDup_app_l ks rest). eapply Permutation_NoDup; eassumption. }
    split.
    + intros s Hs. destruct (Forall2_In_l _ _ _ _ F Hs) as [k [Hk Hc]]. eauto.
    + intros s1 s2 k H1 H2 Hk C1 C2.
      destruct (Forall2_In_l _ _ _ _ F H1) as [k1 [Hk1 Hc1]].
      assert (k1 = k) by (apply (excl s1); auto). subst k1.
      eapply (Forall2_inj _ _ _ F NDks); eauto.
  - intros [Hall Hinj]. apply multisig_complete; assumption.
Qed.

Theorem multisig_order_invariant :
  forall sigs keys sigs' keys',
    (forall s k1 k2, In s sigs -> In k1 keys -> In k2 keys ->
                     chk s k1 = true -> chk s k2 = true -> k1 = k2) ->
    NoDup sigs -> NoDup keys ->
    Permutation sigs sigs' -> Permutation keys keys' ->
    ms_verdict sigs' keys' = ms_verdict sigs keys.
Proof.
  intros sigs keys sigs' keys' excl NDs NDk Ps Pk.
  assert (Is : forall x, In x sigs' <-> In x sigs).
  { intros x. split; apply Permutation_in; [apply Permutation_sym|]; assumption. }
  assert (Ik : forall x, In x keys' <-> In x keys).
  { intros x. split; apply Permutation_in; [apply Permutation_sym|]; assumption. }
  assert (excl' : forall s k1 k2, In s sigs' -> In k1 keys' -> In k2 keys' ->
                                  chk s k1 = true -> chk s k2 = true -> k1 = k2).
  { intros s k1 k2 Hs H1 H2. apply excl; [apply Is | apply Ik | apply Ik]; assumption. }
  pose proof (multisig_verdict_iff sigs keys excl NDs NDk) as E.
  pose proof (multisig_verdict_iff sigs' keys' excl'
                (Permutation_NoDup Ps NDs) (Permutation_NoDup Pk NDk)) as E'.
  assert (Q : ms_verdict sigs' keys' = true <-> ms_verdict sigs keys = true).
  { rewrite E, E'. split; intros [Hall Hinj]; split.
    - intros s Hs. destruct (Hall s (proj2 (Is s) Hs)) as [k [Hk Hc]].
      exists k. split; [apply Ik|]; assumption.
    - intros s1 s2 k H1 H2 Hk. apply Hinj; [apply Is | apply Is | apply Ik]; assumption.
    - intros s Hs. destruct (Hall s (proj1 (Is s) Hs)) as [k [Hk Hc]].
      exists k. split; [apply Ik|]; assumption.
    - intros s1 s2 k H1 H2 Hk. apply Hinj; [apply Is | apply Is | apply Ik]; assumption. }
  destruct (ms_verdict sigs' keys'), (ms_verdict sigs keys); try reflexivity.
  - symmetry. apply Q. reflexivity.
  - apply Q. reflexivity.
Qed.

End MS.

(* ---------- 5. examples by computation ---------- *)

(* (i) signature = the key bytes themselves *)
Definition chk_eq (s k : bytes) : bool := bytes_eqb s k.
(* (ii) a signature lists the one-byte keys under which it verifies *)
Definition chk_mem (s k : bytes) : bool :=
  match k with [b] => existsb (Byte.eqb b) s | _ => false end.

(* 2-of-3 passes, in either order of the signatures *)
Example ex_2_of_3 :
  ms_verdict chk_eq [[x01]; [x03]] [[x01]; [x02]; [x03]] = true.
Proof. reflexivity. Qed.
Example ex_2_of_3_rev :
  ms_verdict chk_eq [[x03]; [x01]] [[x01]; [x02]; [x03]] = true.
Proof. reflexivity. Qed.

(* the same signature twice fails, even when the key occurs twice *)
Example ex_repeated_sig :
  ms_verdict chk_eq [[x01]; [x01]] [[x01]; [x02]; [x03]] = false.
Proof. reflexivity. Qed.
Example ex_repeated_sig_dup_key :
  ms_verdict chk_eq [[x01]; [x01]] [[x01]; [x01]; [x03]] = false.
Proof. reflexivity. Qed.

(* two different signatures by the same single key fail (first-byte check) *)
Definition chk_first (s k : bytes) : bool :=
  match s, k with a :: _, b :: _ => Byte.eqb a b | _, _ => false end.
Example ex_same_key_twice :
  ms_verdict chk_first [[x01; xaa]; [x01; xbb]] [[x01]; [x02]; [x03]] = false.
Proof. reflexivity. Qed.
(* ... but pass when that key VALUE occurs at two positions of the key list *)
Example ex_same_key_two_positions :
  ms_verdict chk_first [[x01; xaa]; [x01; xbb]] [[x01]; [x01]; [x03]] = true.
Proof. reflexivity. Qed.

(* Greedy matching is not maximum matching: s1 verifies under k1 and k2, s2 only under k1.
   The perfect matching s1-k2, s2-k1 exists, but the loop gives k1 to s1 and s2 finds
   nothing.  With the signatures in the other order the same inputs pass, so the verdict
   also depends on order.  Both [multisig_complete] premises about keys are violated here
   (s1 has two keys; k1 validates two signatures). *)
Example ex_greedy_incomplete :
  let s1 := [x01; x02] in let s2 := [x01] in
  let k1 := [x01] in let k2 := [x02] in
  ms_verdict chk_mem [s1; s2] [k1; k2] = false /\
  ms_verdict chk_mem [s2; s1] [k1; k2] = true /\
  NoDup [s1; s2] /\
  Forall2 (fun s k => chk_mem s k = true) [s1; s2] [k2; k1] /\
  Permutation [k1; k2] ([k2; k1] ++ []).
Proof.
  cbv zeta. split; [reflexivity|]. split; [reflexivity|]. split.
  - constructor; [simpl; intros [H|[]]; discriminate|].
    constructor; [simpl; tauto | constructor].
  - split; [repeat constructor|]. simpl. apply perm_swap.
Qed.

Print Assumptions multisig_sound.
Print Assumptions multisig_complete.
Print Assumptions multisig_order_invariant.
