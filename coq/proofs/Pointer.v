(* C07 (tape part): tape data are immutable, the heap only grows, and within one activation the
   read pointer never moves backwards and never passes the end of the tape. *)
From Coq Require Import ZArith List Bool Lia.
From Coq.Strings Require Import Byte String.
From TS Require Import Bytes Codec State Prog Ops Interp StateLemmas Closure.
Import ListNotations.
Local Open Scope nat_scope.

Lemma nth_list_set_same {A} (l : list A) i x d : i < List.length l -> nth i (list_set l i x) d = x.
Proof. revert i. induction l as [|h t IH]; intros [|i] H; simpl in *; try lia; auto. apply IH. lia. Qed.

Definition data_of (st : state) (t : nat) : bytes := to_data (nth_tape st t).

Definition R_heap (st st' : state) : Prop :=
  List.length (st_tapes st) <= List.length (st_tapes st') /\
  forall t, t < List.length (st_tapes st) -> data_of st' t = data_of st t.

Lemma R_heap_refl s : R_heap s s.
Proof. split; auto. Qed.
Lemma R_heap_trans a b c : R_heap a b -> R_heap b c -> R_heap a c.
Proof.
  intros [H1 H2] [H3 H4]. split; [lia|]. intros t Ht. rewrite H4 by lia. apply H2. exact Ht.
Qed.
Lemma R_heap_tapes_eq st st' : st_tapes st' = st_tapes st -> R_heap st st'.
Proof. intro E. unfold R_heap, data_of, nth_tape. rewrite E. split; auto. Qed.

Lemma R_heap_set_count st tid c : R_heap st (set_count st tid c).
Proof.
  unfold R_heap, set_count, data_of, nth_tape. simpl. rewrite list_set_length. split; [lia|].
  intros t Ht. destruct (Nat.eq_dec tid t) as [->|Hne].
  - rewrite nth_list_set_same by exact Ht. reflexivity.
  - rewrite nth_list_set_other by exact Hne. reflexivity.
Qed.

Lemma R_heap_new_tape st t : R_heap st (snd (new_tape st t)).
Proof.
  unfold R_heap, new_tape, data_of, nth_tape. simpl. rewrite app_length. simpl. split; [lia|].
  intros i Hi. rewrite app_nth1 by exact Hi. reflexivity.
Qed.

Lemma R_heap_tapes_app st st' l : st_tapes st' = st_tapes st ++ l -> R_heap st st'.
Proof.
  intro E. unfold R_heap, data_of, nth_tape. rewrite E, app_length. split; [lia|].
  intros i Hi. rewrite app_nth1 by exact Hi. reflexivity.
Qed.

Section Ptr.
Variable orc : oracle.
Variable cfg : config.

Ltac sub_run Hrun :=
  match goal with |- context [?run ?t ?s] =>
    match type of Hrun with run_ok _ run =>
      let H := fresh "H" in pose proof (Hrun t s) as H; destruct (run t s) end end.

Lemma step_closed_heap : step_closed orc cfg R_heap.
Proof.
  intros run Hrun X a fr st.
  destruct a; simpl;
    try (apply R_heap_refl);
    try (apply R_heap_tapes_eq; reflexivity).
  - destruct (st_stack st); simpl; [apply R_heap_refl|apply R_heap_tapes_eq; reflexivity].
  - destruct (_ <? _); simpl; [apply R_heap_refl|].
    destruct (_ <=? _); simpl; [apply R_heap_refl|apply R_heap_tapes_eq; reflexivity].
  - destruct (st_stack st); simpl; apply R_heap_refl.
  - destruct (_ && _); simpl; [apply R_heap_tapes_eq; reflexivity|exact I].
  - destruct (_ <? _); simpl; apply R_heap_refl.
  - (* ACountIncr *) apply R_heap_set_count.
  - (* ADefSet *) eapply R_heap_tapes_app. reflexivity.
  - (* ACallDef *)
    unfold after_run. sub_run Hrun; simpl in *; try exact I;
      (eapply R_heap_trans; [|exact H]); apply R_heap_set_count.
  - (* ARunSub *)
    unfold after_run. sub_run Hrun; simpl in *; try exact I;
      (eapply R_heap_trans; [|exact H]); eapply R_heap_tapes_app; reflexivity.
  - (* ATrySub *)
    sub_run Hrun; simpl in *; try exact I;
      (eapply R_heap_trans; [|exact H]); eapply R_heap_tapes_app; reflexivity.
  - (* ALoopNew *) eapply R_heap_tapes_app. reflexivity.
  - (* ARunLoop *)
    unfold after_run. sub_run Hrun; simpl in *; try exact I; exact H.
Qed.

Theorem run_tape_heap : forall fuel tid ptr st, R_out R_heap st (run_tape orc cfg fuel tid ptr st).
Proof. apply run_tape_closed; [apply R_heap_refl|apply R_heap_trans|apply step_closed_heap]. Qed.

(* ---- the pointer of the executing activation ---- *)

Definition ptr_rel (fr : frame) (st : state) (fr' : frame) (st' : state) : Prop :=
  fr_tid fr' = fr_tid fr /\ R_heap st st' /\
  (fr_tid fr < List.length (st_tapes st) ->
   fr_ptr fr <= List.length (data_of st (fr_tid fr)) ->
   fr_ptr fr <= fr_ptr fr' /\ fr_ptr fr' <= List.length (data_of st' (fr_tid fr'))).

Lemma ptr_rel_refl fr st : ptr_rel fr st fr st.
Proof. unfold ptr_rel. repeat split; auto using R_heap_refl. Qed.

Lemma ptr_rel_trans f1 s1 f2 s2 f3 s3 :
  ptr_rel f1 s1 f2 s2 -> ptr_rel f2 s2 f3 s3 -> ptr_rel f1 s1 f3 s3.
Proof.
  intros (A1 & A3 & A4) (B1 & B3 & B4). unfold ptr_rel.
  split; [congruence|]. split; [eapply R_heap_trans; eauto|].
  intros Ht Hp. destruct (A4 Ht Hp) as [A5 A6].
  assert (Ht2 : fr_tid f2 < List.length (st_tapes s2)) by (rewrite A1; destruct A3 as [L _]; lia).
  destruct (B4 Ht2 A6) as [B5 B6]. split; [lia|exact B6].
Qed.

Lemma ptr_rel_same_frame fr st st' : R_heap st st' -> ptr_rel fr st fr st'.
Proof.
  intros H. unfold ptr_rel. split; [reflexivity|]. split; [exact H|].
  intros Ht Hp. split; [lia|]. destruct H as [_ H]. rewrite H by exact Ht. exact Hp.
Qed.

Definition ptr_sres {X} (fr : frame) (st : state) (r : sres X) : Prop :=
  match r with SOk _ fr' st' | SRaise _ fr' st' => ptr_rel fr st fr' st' | _ => True end.
Definition ptr_out {A} (fr : frame) (st : state) (o : outcome A) : Prop :=
  match o with Done _ fr' st' | Raised _ fr' st' => ptr_rel fr st fr' st' | _ => True end.

Lemma step_ptr run (Hrun : run_ok R_heap run) X (a : action X) fr st :
  ptr_sres fr st (step orc cfg run a fr st).
Proof.
  pose proof (step_closed_heap run Hrun X a fr st) as Hh.
  destruct a; simpl in *;
    try (apply ptr_rel_same_frame; exact Hh).
  - destruct (st_stack st); simpl in *; apply ptr_rel_same_frame; exact Hh.
  - destruct (_ <? _); simpl in *; [apply ptr_rel_same_frame; exact Hh|].
    destruct (_ <=? _); simpl in *; apply ptr_rel_same_frame; exact Hh.
  - destruct (st_stack st); simpl in *; apply ptr_rel_same_frame; exact Hh.
  - destruct (_ && _); simpl in *; [apply ptr_rel_same_frame; exact Hh|exact I].
  - (* ARead *)
    destruct (_ <? _) eqn:E; simpl in *; [apply ptr_rel_same_frame; exact Hh|].
    apply Nat.ltb_ge in E. unfold ptr_rel. simpl. split; [reflexivity|]. split; [apply R_heap_refl|].
    intros _ _. unfold data_of, cur in *. lia.
  - (* ASetPtrEnd *)
    unfold ptr_rel. simpl. split; [reflexivity|]. split; [apply R_heap_refl|].
    intros _ Hp. unfold data_of, cur in *. lia.
  - (* ACallDef *)
    unfold after_run in *. destruct (run tid _); simpl in *; try exact I; apply ptr_rel_same_frame; exact Hh.
  - (* ARunSub *)
    unfold after_run in *.
    match goal with |- context [run ?t ?s] => destruct (run t s) end; simpl in *; try exact I;
      apply ptr_rel_same_frame; exact Hh.
  - (* ATrySub *)
    match goal with |- context [run ?t ?s] => destruct (run t s) end; simpl in *; try exact I;
      apply ptr_rel_same_frame; exact Hh.
  - (* ARunLoop *)
    unfold after_run in *. destruct (run tid st); simpl in *; try exact I; apply ptr_rel_same_frame; exact Hh.
Qed.

Lemma interp_ptr run (Hrun : run_ok R_heap run) A (p : prog A) :
  forall fr st, ptr_out fr st (interp orc cfg run p fr st).
Proof.
  induction p as [a|e|w|X a k IH]; intros fr st; simpl; try apply ptr_rel_refl; try exact I.
  pose proof (step_ptr run Hrun X a fr st) as Hs.
  destruct (step orc cfg run a fr st) as [x fr' st'|e fr' st'| |w]; simpl in *; try exact I; try exact Hs.
  specialize (IH x fr' st').
  destruct (interp orc cfg run (k x) fr' st'); simpl in *; try exact I; eapply ptr_rel_trans; eauto.
Qed.

(* one activation of run_tape: same tape, pointer only forward, never past the end *)
Theorem run_tape_ptr : forall fuel tid ptr st,
  ptr_out {| fr_tid := tid; fr_ptr := ptr |} st (run_tape orc cfg fuel tid ptr st).
Proof.
  induction fuel as [|f IH]; intros tid ptr st; simpl; [exact I|].
  destruct (List.length (to_data (nth_tape st tid)) <=? ptr) eqn:E; simpl; [apply ptr_rel_refl|].
  apply Nat.leb_gt in E.
  assert (Hrun : run_ok R_heap (fun t s => run_tape orc cfg f t 0 s)) by (intros t s; apply run_tape_heap).
  pose proof (interp_ptr _ Hrun unit
                (dispatch (N.to_nat (Byte.to_N (nth ptr (to_data (nth_tape st tid)) x00))))
                {| fr_tid := tid; fr_ptr := S ptr |} st) as Hi.
  assert (H0 : ptr_rel {| fr_tid := tid; fr_ptr := ptr |} st {| fr_tid := tid; fr_ptr := S ptr |} st).
  { unfold ptr_rel. simpl. split; [reflexivity|]. split; [apply R_heap_refl|]. intros _ _. unfold data_of. lia. }
  destruct (interp orc cfg _ _ _ st) as [a fr' st'|e fr' st'| |w]; simpl in *; try exact I.
  - specialize (IH tid (fr_ptr fr') st').
    assert (Hf : fr' = {| fr_tid := tid; fr_ptr := fr_ptr fr' |}).
    { destruct fr' as [t p]. destruct Hi as (Ht & _). simpl in *. congruence. }
    destruct (run_tape orc cfg f tid (fr_ptr fr') st'); simpl in *; try exact I.
    + eapply ptr_rel_trans; [exact H0|]. eapply ptr_rel_trans; [exact Hi|]. rewrite Hf. exact IH.
    + eapply ptr_rel_trans; [exact H0|]. eapply ptr_rel_trans; [exact Hi|]. rewrite Hf. exact IH.
  - eapply ptr_rel_trans; eauto.
Qed.

(* every operand read stays inside the tape: ARead either raises or leaves ptr <= len *)
Theorem read_in_bounds run fr st n :
  match step orc cfg run (ARead n) fr st with
  | SOk b fr' st' => fr_ptr fr' <= List.length (to_data (cur fr st)) /\ fr_ptr fr <= fr_ptr fr' /\ st' = st
  | SRaise e fr' st' => e = ScriptExecutionError /\ fr' = fr /\ st' = st
  | _ => False
  end.
Proof.
  simpl. destruct (_ <? _) eqn:E; simpl.
  - auto.
  - apply Nat.ltb_ge in E. repeat split; auto; lia.
Qed.

End Ptr.
