(* Facts about macro calls that rounds 15 and 16 of the seeded changes turned on (each also checked on the real compiler by
   harness/asmstream.py: "macro-params-like-values" and the arity entries of MALFORMED):
   - substitution is SIMULTANEOUS: every parameter is replaced by its own argument, once -- an argument spelled like another
     parameter's name is not substituted again (S15-C11 substituted one parameter at a time);
   - the number of values must be the number of parameters: more (S16-C11 dropped the surplus silently) and fewer are rejected;
   - PUSH of an empty value is rejected whichever way the value is supplied (S14-C11 assembled a bare PUSH0 byte). *)
From Coq Require Import List String.
From Coq.Strings Require Import Byte.
From TS Require Import Bytes Codec Ops Names Asm Tables Tokenizer Assembler AssemblerProofs.
Import ListNotations.
Open Scope string_scope.

Theorem macro_substitution_is_simultaneous :
  (* != m [ d1 d2 ] { PUSH d1 PUSH d2 } !m [ d2 d1 ]   is   PUSH d2 PUSH d1 *)
  asm ["!="; "m"; "["; "d1"; "d2"; "]"; "{"; "PUSH"; "d1"; "PUSH"; "d2"; "}"; "!m"; "["; "d2"; "d1"; "]"]
    = enc [IOp1 O_PUSH0 x02; IOp1 O_PUSH0 x01] /\
  asm ["PUSH"; "d2"; "PUSH"; "d1"] = enc [IOp1 O_PUSH0 x02; IOp1 O_PUSH0 x01] /\
  (* parameters spelled like hex values; both arguments are the second parameter's name *)
  asm ["!="; "m"; "["; "x0a"; "x0b"; "]"; "{"; "PUSH"; "x0a"; "PUSH"; "x0b"; "PUSH"; "x0a"; "}"; "!m"; "["; "x0b"; "x0b"; "]"]
    = enc [IOp1 O_PUSH0 x0b; IOp1 O_PUSH0 x0b; IOp1 O_PUSH0 x0b] /\
  (* an argument that is the first parameter's name, given for the second parameter *)
  asm ["!="; "m"; "["; "d1"; "d2"; "]"; "{"; "PUSH"; "d2"; "PUSH"; "d1"; "}"; "!m"; "["; "d9"; "d1"; "]"]
    = enc [IOp1 O_PUSH0 x01; IOp1 O_PUSH0 x09].
Proof. repeat split; vm_compute; reflexivity. Qed.

Theorem macro_arity_is_checked :
  asm ["!="; "m"; "["; "A"; "]"; "{"; "PUSH"; "A"; "}"; "!m"; "["; "d1"; "x0203"; "]"; "FALSE"] = Err /\
  asm ["!="; "m"; "["; "]"; "{"; "TRUE"; "}"; "!m"; "["; "d1"; "]"] = Err /\
  asm ["!="; "m"; "["; "A"; "B"; "]"; "{"; "PUSH"; "A"; "PUSH"; "B"; "}"; "!m"; "["; "d1"; "]"] = Err /\
  asm ["!="; "m"; "["; "A"; "B"; "]"; "{"; "PUSH"; "A"; "PUSH"; "B"; "}"; "!m"; "["; "d1"; "d2"; "d3"; "]"; "TRUE"] = Err /\
  asm ["!="; "m"; "["; "A"; "]"; "{"; "PUSH"; "A"; "}"; "!m"; "["; "]"; "TRUE"] = Err /\
  (* the matching call is accepted *)
  asm ["!="; "m"; "["; "A"; "B"; "]"; "{"; "PUSH"; "A"; "PUSH"; "B"; "}"; "!m"; "["; "d1"; "d2"; "]"; "TRUE"]
    = enc [IOp1 O_PUSH0 x01; IOp1 O_PUSH0 x02; IOp0 O_TRUE].
Proof. repeat split; vm_compute; reflexivity. Qed.

Theorem push_of_an_empty_value_is_rejected :
  asm ["PUSH"; "x"; "TRUE"] = Err /\
  asm ["OP_PUSH"; "x"; "TRUE"] = Err /\
  asm ["PUSH"; "x"] = Err /\
  asm ["!="; "m"; "["; "A"; "]"; "{"; "PUSH"; "A"; "}"; "!m"; "["; "x"; "]"; "TRUE"] = Err /\
  asm ["PUSH"; "~"; "{"; "}"; "TRUE"] = Err /\
  asm ["IF"; "{"; "PUSH"; "x"; "}"; "TRUE"] = Err /\
  (* the explicit one-byte-size form does carry an empty value *)
  asm ["OP_PUSH1"; "x"; "TRUE"] = enc [IVar1 O_PUSH1 []; IOp0 O_TRUE].
Proof. repeat split; vm_compute; reflexivity. Qed.

Print Assumptions macro_substitution_is_simultaneous.
Print Assumptions macro_arity_is_checked.
Print Assumptions push_of_an_empty_value_is_rejected.
