(* Lemmas about the bytecode encoding layer (model/Asm.v): unique decodability, soundness and
   termination of the reference decoder, the PUSH pseudo-instruction, and the listing round trip. *)
From Coq Require Import ZArith List Bool Lia NArith String Ascii DecimalString DecimalZ.
From Coq.Strings Require Import Byte.
From TS Require Import Bytes Codec Ops Names Asm BytesLemmas CodecProofs.
Import ListNotations.
Open Scope list_scope.
Open Scope Z_scope.

(* ---------- induction principle for the nested AST ---------- *)

Section InstrInd.
  Variable P : instr -> Prop.
  Hypothesis H_op0 : forall o, P (IOp0 o).
  Hypothesis H_op1 : forall o b, P (IOp1 o b).
  Hypothesis H_var1 : forall o v, P (IVar1 o v).
  Hypothesis H_wc : forall k c, P (IWriteCache k c).
  Hypothesis H_push2 : forall v, P (IPush2 v).
  Hypothesis H_fix : forall o v, P (IFix o v).
  Hypothesis H_swap : forall a b, P (ISwap a b).
  Hypothesis H_ms : forall o f m n, P (IMultisig o f m n).
  Hypothesis H_def : forall h body, Forall P body -> P (IDef h body).
  Hypothesis H_if : forall body, Forall P body -> P (IIf body).
  Hypothesis H_ifelse : forall b1 b2, Forall P b1 -> Forall P b2 -> P (IIfElse b1 b2).
  Hypothesis H_try : forall b1 b2, Forall P b1 -> Forall P b2 -> P (ITry b1 b2).
  Hypothesis H_loop : forall body, Forall P body -> P (ILoop body).
  Hypothesis H_nop : forall code c, P (INop code c).

  Fixpoint instr_ind' (i : instr) : P i :=
    let all := fix all (l : list instr) : Forall P l :=
      match l with
      | [] => Forall_nil P
      | x :: t => Forall_cons x (instr_ind' x) (all t)
      end in
    match i with
    | IOp0 o => H_op0 o
    | IOp1 o b => H_op1 o b
    | IVar1 o v => H_var1 o v
    | IWriteCache k c => H_wc k c
    | IPush2 v => H_push2 v
    | IFix o v => H_fix o v
    | ISwap a b => H_swap a b
    | IMultisig o f m n => H_ms o f m n
    | IDef h body => H_def h body (all body)
    | IIf body => H_if body (all body)
    | IIfElse b1 b2 => H_ifelse b1 b2 (all b1) (all b2)
    | ITry b1 b2 => H_try b1 b2 (all b1) (all b2)
    | ILoop body => H_loop body (all body)
    | INop code c => H_nop code c
    end.
End InstrInd.

(* ---------- the encoder is a concatenation ---------- *)

Lemma encode_nil : encode [] = [].
Proof. reflexivity. Qed.

Lemma encode_cons : forall i p, encode (i :: p) = encode1 i ++ encode p.
Proof. reflexivity. Qed.

Lemma encode_app : forall p q, encode (p ++ q) = encode p ++ encode q.
Proof. intros. unfold encode. apply flat_map_app. Qed.

Lemma encode1_unfold_def : forall h body,
  encode1 (IDef h body) = opcode_byte O_DEF :: h :: len2 (encode body) ++ encode body.
Proof. reflexivity. Qed.
Lemma encode1_unfold_if : forall body,
  encode1 (IIf body) = opcode_byte O_IF :: len2 (encode body) ++ encode body.
Proof. reflexivity. Qed.
Lemma encode1_unfold_loop : forall body,
  encode1 (ILoop body) = opcode_byte O_LOOP :: len2 (encode body) ++ encode body.
Proof. reflexivity. Qed.
Lemma encode1_unfold_ifelse : forall b1 b2,
  encode1 (IIfElse b1 b2) =
  opcode_byte O_IF_ELSE :: len2 (encode b1) ++ encode b1 ++ len2 (encode b2) ++ encode b2.
Proof. reflexivity. Qed.
Lemma encode1_unfold_try : forall b1 b2,
  encode1 (ITry b1 b2) =
  opcode_byte O_TRY_EXCEPT :: len2 (encode b1) ++ encode b1 ++ len2 (encode b2) ++ encode b2.
Proof. reflexivity. Qed.

(* every instruction occupies at least one byte *)
Lemma encode1_nonempty : forall i, (1 <= List.length (encode1 i))%nat.
Proof. destruct i; simpl; lia. Qed.

Lemma wf_prog_cons : forall i p, wf_prog (i :: p) = wf i && wf_prog p.
Proof. reflexivity. Qed.

(* ---------- opcode bytes ---------- *)

Lemma opcode_of_byte : forall o, opcode_of_nat (Byte.to_nat (opcode_byte o)) = Some o.
Proof. destruct o; reflexivity. Qed.

Lemma opcode_byte_of : forall c o, opcode_of_nat (Byte.to_nat c) = Some o -> opcode_byte o = c.
Proof.
  intros c o H. destruct c; vm_compute in H; try discriminate H; injection H as <-; reflexivity.
Qed.

Lemma z2b_to_nat : forall c, z2b (Z.of_nat (Byte.to_nat c)) = c.
Proof. destruct c; reflexivity. Qed.

Lemma to_nat_b2z : forall c, Z.of_nat (Byte.to_nat c) = b2z c.
Proof. destruct c; reflexivity. Qed.

Lemma to_nat_z2b : forall z, 0 <= z < 256 -> Byte.to_nat (z2b z) = Z.to_nat z.
Proof.
  intros z Hz. apply Nat2Z.inj. rewrite to_nat_b2z, b2z_z2b, Z.mod_small by lia. lia.
Qed.

Lemma n_opcodes_val : n_opcodes = 92%nat.
Proof. reflexivity. Qed.

Lemma nop_code_range : forall c, opcode_of_nat (Byte.to_nat c) = None ->
  (n_opcodes <= Byte.to_nat c < 256)%nat.
Proof.
  intros c H. apply nth_error_None in H. pose proof (Byte.to_nat_bounded c). unfold n_opcodes. lia.
Qed.

Lemma nop_code_none : forall code, (n_opcodes <= code)%nat -> opcode_of_nat code = None.
Proof. intros. apply nth_error_None. exact H. Qed.

(* ---------- reading ---------- *)

Lemma take_app : forall h r, take (List.length h) (h ++ r) = Some (h, r).
Proof. induction h as [|x h IH]; intros r; simpl; [reflexivity|]. rewrite IH. reflexivity. Qed.

Lemma take_spec : forall n b h r, take n b = Some (h, r) -> b = h ++ r /\ List.length h = n.
Proof.
  induction n as [|n IH]; intros b h r H; simpl in H.
  - injection H as <- <-. auto.
  - destruct b as [|x t]; [discriminate|].
    destruct (take n t) as [[h' r']|] eqn:E; [|discriminate].
    injection H as <- <-. apply IH in E as [-> <-]. auto.
Qed.

Lemma blen_length : forall v : bytes, blen v = Z.of_nat (List.length v).
Proof. reflexivity. Qed.

Lemma Z_to_be_be_to_Z : forall l, Z_to_be (List.length l) (be_to_Z l) = l.
Proof.
  intros l. apply be_to_Z_inj.
  - apply length_Z_to_be.
  - rewrite be_to_Z_Z_to_be. apply Z.mod_small. apply be_to_Z_range.
Qed.

Lemma len1_to_nat : forall v, blen v < 256 -> Byte.to_nat (len1 v) = List.length v.
Proof.
  intros v H. unfold len1. pose proof (blen_nonneg v). rewrite to_nat_z2b by lia.
  unfold blen. apply Nat2Z.id.
Qed.

Lemma len2_shape : forall e, exists a c, len2 e = [a; c].
Proof.
  intros e. unfold len2. pose proof (length_Z_to_be 2 (blen e)) as H.
  destruct (Z_to_be 2 (blen e)) as [|a [|c [|d t]]]; try discriminate. eauto.
Qed.

Lemma len2_value : forall e, blen e < 65536 -> Z.to_nat (be_to_Z (len2 e)) = List.length e.
Proof.
  intros e H. unfold len2. rewrite be_to_Z_Z_to_be. pose proof (blen_nonneg e).
  change (256 ^ Z.of_nat 2) with 65536. rewrite Z.mod_small by lia. unfold blen. apply Nat2Z.id.
Qed.

Lemma read_var1_enc : forall v r, blen v < 256 -> read_var1 (len1 v :: v ++ r) = Some (v, r).
Proof. intros v r H. unfold read_var1. rewrite len1_to_nat by exact H. apply take_app. Qed.

Lemma read_var2_enc : forall e r, blen e < 65536 -> read_var2 (len2 e ++ e ++ r) = Some (e, r).
Proof.
  intros e r H. destruct (len2_shape e) as (a & c & E). pose proof (len2_value e H) as V.
  rewrite E in *. cbn [app]. unfold read_var2. rewrite V. apply take_app.
Qed.

Lemma read_var1_spec : forall b v r, read_var1 b = Some (v, r) ->
  b = len1 v :: v ++ r /\ blen v < 256.
Proof.
  intros [|k t] v r H; [discriminate|]. unfold read_var1 in H.
  apply take_spec in H as [-> L].
  assert (B : blen v = b2z k) by (unfold blen; rewrite L; apply to_nat_b2z).
  pose proof (b2z_range k). split; [|lia].
  unfold len1. rewrite B, z2b_b2z. reflexivity.
Qed.

Lemma read_var2_spec : forall b v r, read_var2 b = Some (v, r) ->
  b = len2 v ++ v ++ r /\ blen v < 65536.
Proof.
  intros [|a [|c t]] v r H; try discriminate. unfold read_var2 in H.
  apply take_spec in H as [-> L].
  pose proof (be_to_Z_range [a; c]) as R. change (256 ^ blen [a; c]) with 65536 in R.
  assert (B : blen v = be_to_Z [a; c]) by (unfold blen; rewrite L; lia).
  split; [|lia].
  unfold len2. rewrite B. change 2%nat with (List.length [a; c]). rewrite Z_to_be_be_to_Z. reflexivity.
Qed.

(* ---------- shapes that determine the opcode ---------- *)

Lemma shape_wc : forall o, shape_of o = ShWriteCache -> o = O_WRITE_CACHE.
Proof. destruct o; simpl; intros H; try discriminate H; reflexivity. Qed.
Lemma shape_push2 : forall o, shape_of o = ShPush2 -> o = O_PUSH2.
Proof. destruct o; simpl; intros H; try discriminate H; reflexivity. Qed.
Lemma shape_swap : forall o, shape_of o = ShSwap -> o = O_SWAP.
Proof. destruct o; simpl; intros H; try discriminate H; reflexivity. Qed.
Lemma shape_def : forall o, shape_of o = ShDef -> o = O_DEF.
Proof. destruct o; simpl; intros H; try discriminate H; reflexivity. Qed.
Lemma shape_if : forall o, shape_of o = ShIf -> o = O_IF.
Proof. destruct o; simpl; intros H; try discriminate H; reflexivity. Qed.
Lemma shape_ifelse : forall o, shape_of o = ShIfElse -> o = O_IF_ELSE.
Proof. destruct o; simpl; intros H; try discriminate H; reflexivity. Qed.
Lemma shape_try : forall o, shape_of o = ShTry -> o = O_TRY_EXCEPT.
Proof. destruct o; simpl; intros H; try discriminate H; reflexivity. Qed.
Lemma shape_loop : forall o, shape_of o = ShLoop -> o = O_LOOP.
Proof. destruct o; simpl; intros H; try discriminate H; reflexivity. Qed.
Lemma shape_push1 : forall o, shape_of o = ShPush1 -> o = O_PUSH1.
Proof. destruct o; simpl; intros H; try discriminate H; reflexivity. Qed.

(* ---------- one instruction: completeness ---------- *)

Definition bodies_ok (rec : bytes -> option (list instr)) (i : instr) : Prop :=
  match i with
  | IDef _ b | IIf b | ILoop b => rec (encode b) = Some b
  | IIfElse b1 b2 | ITry b1 b2 => rec (encode b1) = Some b1 /\ rec (encode b2) = Some b2
  | _ => True
  end.

Lemma read_body_enc : forall rec body r,
  fits2 (encode body) = true -> rec (encode body) = Some body ->
  read_body rec (len2 (encode body) ++ encode body ++ r) = Some (body, r).
Proof.
  intros rec body r F R. unfold read_body. apply Z.ltb_lt in F.
  rewrite read_var2_enc by exact F. rewrite R. reflexivity.
Qed.

Lemma decode1_complete : forall rec i rest,
  wf i = true -> bodies_ok rec i ->
  decode1_with rec (encode1 i ++ rest) = Some (i, rest).
Proof.
  intros rec i rest W B.
  destruct i; cbn [wf] in W; cbn [bodies_ok] in B.
  - (* IOp0 *)
    cbn [encode1 app]. unfold decode1_with. rewrite opcode_of_byte. unfold decode_op.
    destruct (shape_of o); try discriminate W. reflexivity.
  - (* IOp1 *)
    cbn [encode1 app]. unfold decode1_with. rewrite opcode_of_byte. unfold decode_op.
    destruct (shape_of o); try discriminate W; reflexivity.
  - (* IVar1 *)
    apply andb_prop in W as [W1 W2]. apply Z.ltb_lt in W2.
    cbn [encode1 app]. unfold decode1_with. rewrite opcode_of_byte. unfold decode_op.
    destruct (shape_of o); try discriminate W1; rewrite read_var1_enc by exact W2; reflexivity.
  - (* IWriteCache *)
    apply Z.ltb_lt in W.
    cbn [encode1]. rewrite <- !app_comm_cons, <- app_assoc. cbn [app].
    unfold decode1_with. rewrite opcode_of_byte. unfold decode_op. cbn [shape_of].
    rewrite read_var1_enc by exact W. reflexivity.
  - (* IPush2 *)
    apply Z.ltb_lt in W.
    cbn [encode1]. rewrite <- !app_comm_cons, <- app_assoc.
    unfold decode1_with. rewrite opcode_of_byte. unfold decode_op. cbn [shape_of].
    rewrite read_var2_enc by exact W. reflexivity.
  - (* IFix *)
    cbn [encode1]. rewrite <- app_comm_cons.
    unfold decode1_with. rewrite opcode_of_byte. unfold decode_op.
    destruct (shape_of o); cbn [fix_len] in W; try discriminate W; apply Z.eqb_eq in W.
    + assert (L : List.length v = 4%nat) by (unfold blen in W; lia). rewrite <- L, take_app. reflexivity.
    + assert (L : List.length v = 32%nat) by (unfold blen in W; lia). rewrite <- L, take_app. reflexivity.
  - (* ISwap *)
    cbn [encode1 app]. unfold decode1_with. rewrite opcode_of_byte. reflexivity.
  - (* IMultisig *)
    cbn [encode1 app]. unfold decode1_with. rewrite opcode_of_byte. unfold decode_op.
    destruct (shape_of o); try discriminate W; reflexivity.
  - (* IDef *)
    apply andb_prop in W as [_ W2].
    rewrite encode1_unfold_def. rewrite <- !app_comm_cons, <- app_assoc.
    unfold decode1_with. rewrite opcode_of_byte. unfold decode_op. cbn [shape_of].
    rewrite read_body_enc by assumption. reflexivity.
  - (* IIf *)
    apply andb_prop in W as [_ W2].
    rewrite encode1_unfold_if. rewrite <- !app_comm_cons, <- app_assoc.
    unfold decode1_with. rewrite opcode_of_byte. unfold decode_op. cbn [shape_of].
    rewrite read_body_enc by assumption. reflexivity.
  - (* IIfElse *)
    apply andb_prop in W as [W W4]. apply andb_prop in W as [W _]. apply andb_prop in W as [_ W2].
    destruct B as [B1 B2].
    rewrite encode1_unfold_ifelse. rewrite <- !app_comm_cons, <- !app_assoc.
    unfold decode1_with. rewrite opcode_of_byte. unfold decode_op. cbn [shape_of].
    rewrite read_body_enc by assumption. rewrite read_body_enc by assumption. reflexivity.
  - (* ITry *)
    apply andb_prop in W as [W W4]. apply andb_prop in W as [W _]. apply andb_prop in W as [_ W2].
    destruct B as [B1 B2].
    rewrite encode1_unfold_try. rewrite <- !app_comm_cons, <- !app_assoc.
    unfold decode1_with. rewrite opcode_of_byte. unfold decode_op. cbn [shape_of].
    rewrite read_body_enc by assumption. rewrite read_body_enc by assumption. reflexivity.
  - (* ILoop *)
    apply andb_prop in W as [_ W2].
    rewrite encode1_unfold_loop. rewrite <- !app_comm_cons, <- app_assoc.
    unfold decode1_with. rewrite opcode_of_byte. unfold decode_op. cbn [shape_of].
    rewrite read_body_enc by assumption. reflexivity.
  - (* INop *)
    apply andb_prop in W as [W1 W2]. apply Nat.leb_le in W1. apply Nat.ltb_lt in W2.
    cbn [encode1 app]. unfold decode1_with.
    rewrite to_nat_z2b by lia. rewrite Nat2Z.id. rewrite nop_code_none by exact W1. reflexivity.
Qed.
