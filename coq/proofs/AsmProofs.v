(* Lemmas about the bytecode encoding layer (model/Asm.v): unique decodability, soundness and
   termination of the reference decoder, the PUSH pseudo-instruction, and the listing round trip. *)
From Coq Require Import ZArith List Bool Lia NArith String Ascii DecimalString DecimalZ.
From Coq.Strings Require Import Byte.
From TS Require Import Bytes Codec Ops Names Asm BytesLemmas CodecProofs.
Import ListNotations.
Open Scope list_scope.
Open Scope Z_scope.

(* ---------- induction principle for the nested AST ---------- *)

Section InstrInd.
  Variable P : instr -> Prop.
  Hypothesis H_op0 : forall o, P (IOp0 o).
  Hypothesis H_op1 : forall o b, P (IOp1 o b).
  Hypothesis H_var1 : forall o v, P (IVar1 o v).
  Hypothesis H_wc : forall k c, P (IWriteCache k c).
  Hypothesis H_push2 : forall v, P (IPush2 v).
  Hypothesis H_fix : forall o v, P (IFix o v).
  Hypothesis H_swap : forall a b, P (ISwap a b).
  Hypothesis H_ms : forall o f m n, P (IMultisig o f m n).
  Hypothesis H_def : forall h body, Forall P body -> P (IDef h body).
  Hypothesis H_if : forall body, Forall P body -> P (IIf body).
  Hypothesis H_ifelse : forall b1 b2, Forall P b1 -> Forall P b2 -> P (IIfElse b1 b2).
  Hypothesis H_try : forall b1 b2, Forall P b1 -> Forall P b2 -> P (ITry b1 b2).
  Hypothesis H_loop : forall body, Forall P body -> P (ILoop body).
  Hypothesis H_nop : forall code c, P (INop code c).

  Fixpoint instr_ind' (i : instr) : P i :=
    let all := fix all (l : list instr) : Forall P l :=
      match l with
      | [] => Forall_nil P
      | x :: t => Forall_cons x (instr_ind' x) (all t)
      end in
    match i with
    | IOp0 o => H_op0 o
    | IOp1 o b => H_op1 o b
    | IVar1 o v => H_var1 o v
    | IWriteCache k c => H_wc k c
    | IPush2 v => H_push2 v
    | IFix o v => H_fix o v
    | ISwap a b => H_swap a b
    | IMultisig o f m n => H_ms o f m n
    | IDef h body => H_def h body (all body)
    | IIf body => H_if body (all body)
    | IIfElse b1 b2 => H_ifelse b1 b2 (all b1) (all b2)
    | ITry b1 b2 => H_try b1 b2 (all b1) (all b2)
    | ILoop body => H_loop body (all body)
    | INop code c => H_nop code c
    end.
End InstrInd.

(* ---------- the encoder is a concatenation ---------- *)

Lemma encode_nil : encode [] = [].
Proof. reflexivity. Qed.

Lemma encode_cons : forall i p, encode (i :: p) = encode1 i ++ encode p.
Proof. reflexivity. Qed.

Lemma encode_app : forall p q, encode (p ++ q) = encode p ++ encode q.
Proof. intros. unfold encode. apply flat_map_app. Qed.

Lemma encode1_unfold_def : forall h body,
  encode1 (IDef h body) = opcode_byte O_DEF :: h :: len2 (encode body) ++ encode body.
Proof. reflexivity. Qed.
Lemma encode1_unfold_if : forall body,
  encode1 (IIf body) = opcode_byte O_IF :: len2 (encode body) ++ encode body.
Proof. reflexivity. Qed.
Lemma encode1_unfold_loop : forall body,
  encode1 (ILoop body) = opcode_byte O_LOOP :: len2 (encode body) ++ encode body.
Proof. reflexivity. Qed.
Lemma encode1_unfold_ifelse : forall b1 b2,
  encode1 (IIfElse b1 b2) =
  opcode_byte O_IF_ELSE :: len2 (encode b1) ++ encode b1 ++ len2 (encode b2) ++ encode b2.
Proof. reflexivity. Qed.
Lemma encode1_unfold_try : forall b1 b2,
  encode1 (ITry b1 b2) =
  opcode_byte O_TRY_EXCEPT :: len2 (encode b1) ++ encode b1 ++ len2 (encode b2) ++ encode b2.
Proof. reflexivity. Qed.

(* every instruction occupies at least one byte *)
Lemma encode1_nonempty : forall i, (1 <= List.length (encode1 i))%nat.
Proof. destruct i; simpl; lia. Qed.

Lemma wf_prog_cons : forall i p, wf_prog (i :: p) = wf i && wf_prog p.
Proof. reflexivity. Qed.

(* ---------- opcode bytes ---------- *)

Lemma opcode_of_byte : forall o, opcode_of_nat (Byte.to_nat (opcode_byte o)) = Some o.
Proof. destruct o; reflexivity. Qed.

Lemma opcode_byte_of : forall c o, opcode_of_nat (Byte.to_nat c) = Some o -> opcode_byte o = c.
Proof.
  intros c o H. destruct c; vm_compute in H; try discriminate H; injection H as <-; reflexivity.
Qed.

Lemma z2b_to_nat : forall c, z2b (Z.of_nat (Byte.to_nat c)) = c.
Proof. destruct c; reflexivity. Qed.

Lemma to_nat_b2z : forall c, Z.of_nat (Byte.to_nat c) = b2z c.
Proof. destruct c; reflexivity. Qed.

Lemma to_nat_z2b : forall z, 0 <= z < 256 -> Byte.to_nat (z2b z) = Z.to_nat z.
Proof.
  intros z Hz. apply Nat2Z.inj. rewrite to_nat_b2z, b2z_z2b, Z.mod_small by lia. lia.
Qed.

Lemma n_opcodes_val : n_opcodes = 92%nat.
Proof. reflexivity. Qed.

Lemma nop_code_range : forall c, opcode_of_nat (Byte.to_nat c) = None ->
  (n_opcodes <= Byte.to_nat c < 256)%nat.
Proof.
  intros c H. apply nth_error_None in H. pose proof (Byte.to_nat_bounded c). unfold n_opcodes. lia.
Qed.

Lemma nop_code_none : forall code, (n_opcodes <= code)%nat -> opcode_of_nat code = None.
Proof. intros. apply nth_error_None. exact H. Qed.

(* ---------- reading ---------- *)

Lemma take_app : forall h r, take (List.length h) (h ++ r) = Some (h, r).
Proof. induction h as [|x h IH]; intros r; simpl; [reflexivity|]. rewrite IH. reflexivity. Qed.

Lemma take_spec : forall n b h r, take n b = Some (h, r) -> b = h ++ r /\ List.length h = n.
Proof.
  induction n as [|n IH]; intros b h r H; simpl in H.
  - injection H as <- <-. auto.
  - destruct b as [|x t]; [discriminate|].
    destruct (take n t) as [[h' r']|] eqn:E; [|discriminate].
    injection H as <- <-. apply IH in E as [-> <-]. auto.
Qed.

Lemma blen_length : forall v : bytes, blen v = Z.of_nat (List.length v).
Proof. reflexivity. Qed.

Lemma Z_to_be_be_to_Z : forall l, Z_to_be (List.length l) (be_to_Z l) = l.
Proof.
  intros l. apply be_to_Z_inj.
  - apply length_Z_to_be.
  - rewrite be_to_Z_Z_to_be. apply Z.mod_small. apply be_to_Z_range.
Qed.

Lemma len1_to_nat : forall v, blen v < 256 -> Byte.to_nat (len1 v) = List.length v.
Proof.
  intros v H. unfold len1. pose proof (blen_nonneg v). rewrite to_nat_z2b by lia.
  unfold blen. apply Nat2Z.id.
Qed.

Lemma len2_shape : forall e, exists a c, len2 e = [a; c].
Proof.
  intros e. unfold len2. pose proof (length_Z_to_be 2 (blen e)) as H.
  destruct (Z_to_be 2 (blen e)) as [|a [|c [|d t]]]; try discriminate. eauto.
Qed.

Lemma len2_value : forall e, blen e < 65536 -> Z.to_nat (be_to_Z (len2 e)) = List.length e.
Proof.
  intros e H. unfold len2. rewrite be_to_Z_Z_to_be. pose proof (blen_nonneg e).
  change (256 ^ Z.of_nat 2) with 65536. rewrite Z.mod_small by lia. unfold blen. apply Nat2Z.id.
Qed.

Lemma read_var1_enc : forall v r, blen v < 256 -> read_var1 (len1 v :: v ++ r) = Some (v, r).
Proof. intros v r H. unfold read_var1. rewrite len1_to_nat by exact H. apply take_app. Qed.

Lemma read_var2_enc : forall e r, blen e < 65536 -> read_var2 (len2 e ++ e ++ r) = Some (e, r).
Proof.
  intros e r H. destruct (len2_shape e) as (a & c & E). pose proof (len2_value e H) as V.
  rewrite E in *. cbn [app]. unfold read_var2. rewrite V. apply take_app.
Qed.

Lemma read_var1_spec : forall b v r, read_var1 b = Some (v, r) ->
  b = len1 v :: v ++ r /\ blen v < 256.
Proof.
  intros [|k t] v r H; [discriminate|]. unfold read_var1 in H.
  apply take_spec in H as [-> L].
  assert (B : blen v = b2z k) by (unfold blen; rewrite L; apply to_nat_b2z).
  pose proof (b2z_range k). split; [|lia].
  unfold len1. rewrite B, z2b_b2z. reflexivity.
Qed.

Lemma read_var2_spec : forall b v r, read_var2 b = Some (v, r) ->
  b = len2 v ++ v ++ r /\ blen v < 65536.
Proof.
  intros [|a [|c t]] v r H; try discriminate. unfold read_var2 in H.
  apply take_spec in H as [-> L].
  pose proof (be_to_Z_range [a; c]) as R. change (256 ^ blen [a; c]) with 65536 in R.
  assert (B : blen v = be_to_Z [a; c]) by (unfold blen; rewrite L; lia).
  split; [|lia].
  unfold len2. rewrite B. change 2%nat with (List.length [a; c]). rewrite Z_to_be_be_to_Z. reflexivity.
Qed.

(* ---------- shapes that determine the opcode ---------- *)

Lemma shape_wc : forall o, shape_of o = ShWriteCache -> o = O_WRITE_CACHE.
Proof. destruct o; simpl; intros H; try discriminate H; reflexivity. Qed.
Lemma shape_push2 : forall o, shape_of o = ShPush2 -> o = O_PUSH2.
Proof. destruct o; simpl; intros H; try discriminate H; reflexivity. Qed.
Lemma shape_swap : forall o, shape_of o = ShSwap -> o = O_SWAP.
Proof. destruct o; simpl; intros H; try discriminate H; reflexivity. Qed.
Lemma shape_def : forall o, shape_of o = ShDef -> o = O_DEF.
Proof. destruct o; simpl; intros H; try discriminate H; reflexivity. Qed.
Lemma shape_if : forall o, shape_of o = ShIf -> o = O_IF.
Proof. destruct o; simpl; intros H; try discriminate H; reflexivity. Qed.
Lemma shape_ifelse : forall o, shape_of o = ShIfElse -> o = O_IF_ELSE.
Proof. destruct o; simpl; intros H; try discriminate H; reflexivity. Qed.
Lemma shape_try : forall o, shape_of o = ShTry -> o = O_TRY_EXCEPT.
Proof. destruct o; simpl; intros H; try discriminate H; reflexivity. Qed.
Lemma shape_loop : forall o, shape_of o = ShLoop -> o = O_LOOP.
Proof. destruct o; simpl; intros H; try discriminate H; reflexivity. Qed.
Lemma shape_push1 : forall o, shape_of o = ShPush1 -> o = O_PUSH1.
Proof. destruct o; simpl; intros H; try discriminate H; reflexivity. Qed.

(* ---------- one instruction: completeness ---------- *)

Definition bodies_ok (rec : bytes -> option (list instr)) (i : instr) : Prop :=
  match i with
  | IDef _ b | IIf b | ILoop b => rec (encode b) = Some b
  | IIfElse b1 b2 | ITry b1 b2 => rec (encode b1) = Some b1 /\ rec (encode b2) = Some b2
  | _ => True
  end.

Lemma read_body_enc : forall rec body r,
  fits2 (encode body) = true -> rec (encode body) = Some body ->
  read_body rec (len2 (encode body) ++ encode body ++ r) = Some (body, r).
Proof.
  intros rec body r F R. unfold read_body. apply Z.ltb_lt in F.
  rewrite read_var2_enc by exact F. rewrite R. reflexivity.
Qed.

Lemma decode1_complete : forall rec i rest,
  wf i = true -> bodies_ok rec i ->
  decode1_with rec (encode1 i ++ rest) = Some (i, rest).
Proof.
  intros rec i rest W B.
  destruct i; cbn [wf] in W; cbn [bodies_ok] in B.
  - (* IOp0 *)
    cbn [encode1 app]. unfold decode1_with. rewrite opcode_of_byte. unfold decode_op.
    destruct (shape_of o); try discriminate W. reflexivity.
  - (* IOp1 *)
    cbn [encode1 app]. unfold decode1_with. rewrite opcode_of_byte. unfold decode_op.
    destruct (shape_of o); try discriminate W; reflexivity.
  - (* IVar1 *)
    apply andb_prop in W as [W1 W2]. apply Z.ltb_lt in W2.
    cbn [encode1 app]. unfold decode1_with. rewrite opcode_of_byte. unfold decode_op.
    destruct (shape_of o); try discriminate W1; rewrite read_var1_enc by exact W2; reflexivity.
  - (* IWriteCache *)
    apply Z.ltb_lt in W.
    cbn [encode1]. rewrite <- !app_comm_cons, <- app_assoc. cbn [app].
    unfold decode1_with. rewrite opcode_of_byte. unfold decode_op. cbn [shape_of].
    rewrite read_var1_enc by exact W. reflexivity.
  - (* IPush2 *)
    apply Z.ltb_lt in W.
    cbn [encode1]. rewrite <- !app_comm_cons, <- app_assoc.
    unfold decode1_with. rewrite opcode_of_byte. unfold decode_op. cbn [shape_of].
    rewrite read_var2_enc by exact W. reflexivity.
  - (* IFix *)
    cbn [encode1]. rewrite <- app_comm_cons.
    unfold decode1_with. rewrite opcode_of_byte. unfold decode_op.
    destruct (shape_of o); cbn [fix_len] in W; try discriminate W; apply Z.eqb_eq in W.
    + assert (L : List.length v = 4%nat) by (unfold blen in W; lia). rewrite <- L, take_app. reflexivity.
    + assert (L : List.length v = 32%nat) by (unfold blen in W; lia). rewrite <- L, take_app. reflexivity.
  - (* ISwap *)
    cbn [encode1 app]. unfold decode1_with. rewrite opcode_of_byte. reflexivity.
  - (* IMultisig *)
    cbn [encode1 app]. unfold decode1_with. rewrite opcode_of_byte. unfold decode_op.
    destruct (shape_of o); try discriminate W; reflexivity.
  - (* IDef *)
    apply andb_prop in W as [_ W2].
    rewrite encode1_unfold_def. rewrite <- !app_comm_cons, <- app_assoc.
    unfold decode1_with. rewrite opcode_of_byte. unfold decode_op. cbn [shape_of].
    rewrite read_body_enc by assumption. reflexivity.
  - (* IIf *)
    apply andb_prop in W as [_ W2].
    rewrite encode1_unfold_if. rewrite <- !app_comm_cons, <- app_assoc.
    unfold decode1_with. rewrite opcode_of_byte. unfold decode_op. cbn [shape_of].
    rewrite read_body_enc by assumption. reflexivity.
  - (* IIfElse *)
    apply andb_prop in W as [W W4]. apply andb_prop in W as [W _]. apply andb_prop in W as [_ W2].
    destruct B as [B1 B2].
    rewrite encode1_unfold_ifelse. rewrite <- !app_comm_cons, <- !app_assoc.
    unfold decode1_with. rewrite opcode_of_byte. unfold decode_op. cbn [shape_of].
    rewrite read_body_enc by assumption. rewrite read_body_enc by assumption. reflexivity.
  - (* ITry *)
    apply andb_prop in W as [W W4]. apply andb_prop in W as [W _]. apply andb_prop in W as [_ W2].
    destruct B as [B1 B2].
    rewrite encode1_unfold_try. rewrite <- !app_comm_cons, <- !app_assoc.
    unfold decode1_with. rewrite opcode_of_byte. unfold decode_op. cbn [shape_of].
    rewrite read_body_enc by assumption. rewrite read_body_enc by assumption. reflexivity.
  - (* ILoop *)
    apply andb_prop in W as [_ W2].
    rewrite encode1_unfold_loop. rewrite <- !app_comm_cons, <- app_assoc.
    unfold decode1_with. rewrite opcode_of_byte. unfold decode_op. cbn [shape_of].
    rewrite read_body_enc by assumption. reflexivity.
  - (* INop *)
    apply andb_prop in W as [W1 W2]. apply Nat.leb_le in W1. apply Nat.ltb_lt in W2.
    cbn [encode1 app]. unfold decode1_with.
    rewrite to_nat_z2b by lia. rewrite Nat2Z.id. rewrite nop_code_none by exact W1. reflexivity.
Qed.

(* ---------- one instruction: soundness ---------- *)

Definition rec_sound (rec : bytes -> option (list instr)) : Prop :=
  forall x p, rec x = Some p -> encode p = x /\ wf_prog p = true.

Lemma read_body_spec : forall rec b p r,
  rec_sound rec -> read_body rec b = Some (p, r) ->
  b = len2 (encode p) ++ encode p ++ r /\ wf_prog p = true /\ fits2 (encode p) = true.
Proof.
  intros rec b p r S H. unfold read_body in H.
  destruct (read_var2 b) as [[body r']|] eqn:E; [|discriminate].
  destruct (rec body) as [p'|] eqn:R; [|discriminate].
  injection H as <- <-. apply S in R as [<- W]. apply read_var2_spec in E as [-> L].
  split; [reflexivity|]. split; [exact W|]. apply Z.ltb_lt. exact L.
Qed.

Lemma decode1_sound : forall rec b i rest,
  rec_sound rec -> decode1_with rec b = Some (i, rest) ->
  b = encode1 i ++ rest /\ wf i = true.
Proof.
  intros rec b i rest S H. destruct b as [|c r]; [discriminate|].
  unfold decode1_with in H.
  destruct (opcode_of_nat (Byte.to_nat c)) as [o|] eqn:Eo.
  - apply opcode_byte_of in Eo. subst c. unfold decode_op in H.
    destruct (shape_of o) eqn:Es.
    + (* ShNone *) injection H as <- <-. cbn [encode1 wf app]. rewrite Es. auto.
    + (* ShS8 *) destruct r as [|k r']; [discriminate|]. injection H as <- <-.
      cbn [encode1 wf app]. rewrite Es. auto.
    + (* ShX8 *) destruct r as [|k r']; [discriminate|]. injection H as <- <-.
      cbn [encode1 wf app]. rewrite Es. auto.
    + (* ShPush1 *) destruct (read_var1 r) as [[v r']|] eqn:E; [|discriminate]. injection H as <- <-.
      apply read_var1_spec in E as [-> L]. cbn [encode1 wf app]. rewrite Es.
      split; [reflexivity|]. apply Z.ltb_lt in L. rewrite L. reflexivity.
    + (* ShVar1 *) destruct (read_var1 r) as [[v r']|] eqn:E; [|discriminate]. injection H as <- <-.
      apply read_var1_spec in E as [-> L]. cbn [encode1 wf app]. rewrite Es.
      split; [reflexivity|]. apply Z.ltb_lt in L. rewrite L. reflexivity.
    + (* ShVar1Int *) destruct (read_var1 r) as [[v r']|] eqn:E; [|discriminate]. injection H as <- <-.
      apply read_var1_spec in E as [-> L]. cbn [encode1 wf app]. rewrite Es.
      split; [reflexivity|]. apply Z.ltb_lt in L. rewrite L. reflexivity.
    + (* ShWriteCache *) apply shape_wc in Es. subst o.
      destruct (read_var1 r) as [[k [|cnt r']]|] eqn:E; try discriminate. injection H as <- <-.
      apply read_var1_spec in E as [-> L]. cbn [encode1 wf].
      split; [|apply Z.ltb_lt; exact L].
      rewrite <- !app_comm_cons, <- app_assoc. reflexivity.
    + (* ShPush2 *) apply shape_push2 in Es. subst o.
      destruct (read_var2 r) as [[v r']|] eqn:E; [|discriminate]. injection H as <- <-.
      apply read_var2_spec in E as [-> L]. cbn [encode1 wf].
      split; [|apply Z.ltb_lt; exact L].
      rewrite <- !app_comm_cons, <- app_assoc. reflexivity.
    + (* ShFix4 *) destruct (take 4 r) as [[v r']|] eqn:E; [|discriminate]. injection H as <- <-.
      apply take_spec in E as [-> L]. cbn [encode1 wf]. rewrite Es. cbn [fix_len].
      split; [reflexivity|]. apply Z.eqb_eq. unfold blen. rewrite L. reflexivity.
    + (* ShSwap *) apply shape_swap in Es. subst o.
      destruct r as [|a [|b' r']]; try discriminate. injection H as <- <-. auto.
    + (* ShMultisig *) destruct r as [|f [|m [|n r']]]; try discriminate. injection H as <- <-.
      cbn [encode1 wf app]. rewrite Es. auto.
    + (* ShFix32 *) destruct (take 32 r) as [[v r']|] eqn:E; [|discriminate]. injection H as <- <-.
      apply take_spec in E as [-> L]. cbn [encode1 wf]. rewrite Es. cbn [fix_len].
      split; [reflexivity|]. apply Z.eqb_eq. unfold blen. rewrite L. reflexivity.
    + (* ShDef *) apply shape_def in Es. subst o.
      destruct r as [|h r1]; [discriminate|].
      destruct (read_body rec r1) as [[p r']|] eqn:E; [|discriminate]. injection H as <- <-.
      apply (read_body_spec rec _ _ _ S) in E as (-> & W & F).
      rewrite encode1_unfold_def. cbn [wf]. fold (wf_prog p). fold (encode p). rewrite W, F.
      split; [|reflexivity]. rewrite <- !app_comm_cons, <- app_assoc. reflexivity.
    + (* ShIf *) apply shape_if in Es. subst o.
      destruct (read_body rec r) as [[p r']|] eqn:E; [|discriminate]. injection H as <- <-.
      apply (read_body_spec rec _ _ _ S) in E as (-> & W & F).
      rewrite encode1_unfold_if. cbn [wf]. fold (wf_prog p). fold (encode p). rewrite W, F.
      split; [|reflexivity]. rewrite <- !app_comm_cons, <- app_assoc. reflexivity.
    + (* ShIfElse *) apply shape_ifelse in Es. subst o.
      destruct (read_body rec r) as [[p1 r1]|] eqn:E1; [|discriminate].
      destruct (read_body rec r1) as [[p2 r2]|] eqn:E2; [|discriminate]. injection H as <- <-.
      apply (read_body_spec rec _ _ _ S) in E1 as (-> & W1 & F1).
      apply (read_body_spec rec _ _ _ S) in E2 as (-> & W2 & F2).
      rewrite encode1_unfold_ifelse. cbn [wf]. fold (wf_prog p1). fold (wf_prog p2).
      fold (encode p1). fold (encode p2). rewrite W1, F1, W2, F2.
      split; [|reflexivity]. rewrite <- !app_comm_cons, <- !app_assoc. reflexivity.
    + (* ShTry *) apply shape_try in Es. subst o.
      destruct (read_body rec r) as [[p1 r1]|] eqn:E1; [|discriminate].
      destruct (read_body rec r1) as [[p2 r2]|] eqn:E2; [|discriminate]. injection H as <- <-.
      apply (read_body_spec rec _ _ _ S) in E1 as (-> & W1 & F1).
      apply (read_body_spec rec _ _ _ S) in E2 as (-> & W2 & F2).
      rewrite encode1_unfold_try. cbn [wf]. fold (wf_prog p1). fold (wf_prog p2).
      fold (encode p1). fold (encode p2). rewrite W1, F1, W2, F2.
      split; [|reflexivity]. rewrite <- !app_comm_cons, <- !app_assoc. reflexivity.
    + (* ShLoop *) apply shape_loop in Es. subst o.
      destruct (read_body rec r) as [[p r']|] eqn:E; [|discriminate]. injection H as <- <-.
      apply (read_body_spec rec _ _ _ S) in E as (-> & W & F).
      rewrite encode1_unfold_loop. cbn [wf]. fold (wf_prog p). fold (encode p). rewrite W, F.
      split; [|reflexivity]. rewrite <- !app_comm_cons, <- app_assoc. reflexivity.
  - (* NOP code *)
    destruct r as [|k r']; [discriminate|]. injection H as <- <-.
    pose proof (nop_code_range c Eo) as [R1 R2].
    cbn [encode1 wf app]. rewrite z2b_to_nat. split; [reflexivity|].
    apply andb_true_intro. split; [apply Nat.leb_le; exact R1 | apply Nat.ltb_lt; exact R2].
Qed.

(* ---------- the whole tape ---------- *)

Lemma decode_fuel_step : forall f b, b <> [] ->
  decode_fuel (S f) b =
  match decode1_with (decode_fuel f) b with
  | Some (i, rest) => match decode_fuel f rest with Some p => Some (i :: p) | None => None end
  | None => None
  end.
Proof. intros f [|x t] H; [congruence|reflexivity]. Qed.

Lemma decode_fuel_sound : forall fuel, rec_sound (decode_fuel fuel).
Proof.
  induction fuel as [|f IH]; intros b p H.
  - destruct b; simpl in H; [|discriminate]. injection H as <-. auto.
  - destruct b as [|x t]; [simpl in H; injection H as <-; auto|].
    rewrite decode_fuel_step in H by discriminate.
    destruct (decode1_with (decode_fuel f) (x :: t)) as [[i rest]|] eqn:E1; [|discriminate].
    destruct (decode_fuel f rest) as [p'|] eqn:E2; [|discriminate].
    injection H as <-.
    apply (decode1_sound _ _ _ _ IH) in E1 as [E1 W1]. apply IH in E2 as [E2 W2].
    rewrite encode_cons, wf_prog_cons, E1, E2, W1, W2. auto.
Qed.

Definition complete_at (i : instr) : Prop :=
  wf i = true -> forall f rest, (List.length (encode1 i) <= S f)%nat ->
  decode1_with (decode_fuel f) (encode1 i ++ rest) = Some (i, rest).

Definition complete_prog (p : list instr) : Prop :=
  wf_prog p = true -> forall fuel, (List.length (encode p) <= fuel)%nat ->
  decode_fuel fuel (encode p) = Some p.

Lemma complete_prog_of : forall p, Forall complete_at p -> complete_prog p.
Proof.
  induction 1 as [|i p Hi Hp IH]; intros W fuel L.
  - destruct fuel; reflexivity.
  - rewrite wf_prog_cons in W. apply andb_prop in W as [Wi Wp].
    rewrite encode_cons in *. rewrite app_length in L.
    pose proof (encode1_nonempty i) as N.
    destruct fuel as [|f]; [lia|].
    rewrite decode_fuel_step.
    2:{ intros E. apply (f_equal (@List.length byte)) in E. rewrite app_length in E. simpl in E. lia. }
    rewrite (Hi Wi f (encode p)) by lia.
    rewrite (IH Wp f) by lia. reflexivity.
Qed.

Lemma len2_length : forall e, List.length (len2 e) = 2%nat.
Proof. intros. apply length_Z_to_be. Qed.

Lemma complete_at_all : forall i, complete_at i.
Proof.
  induction i using instr_ind'; intros W fu rest L;
    try (apply decode1_complete; [exact W | exact I]).
  - (* IDef *)
    apply decode1_complete; [exact W|]. cbn [bodies_ok].
    cbn [wf] in W. apply andb_prop in W as [W _].
    apply (complete_prog_of _ H W). rewrite encode1_unfold_def in L.
    cbn [List.length] in L. rewrite app_length, len2_length in L. lia.
  - (* IIf *)
    apply decode1_complete; [exact W|]. cbn [bodies_ok].
    cbn [wf] in W. apply andb_prop in W as [W _].
    apply (complete_prog_of _ H W). rewrite encode1_unfold_if in L.
    cbn [List.length] in L. rewrite app_length, len2_length in L. lia.
  - (* IIfElse *)
    apply decode1_complete; [exact W|]. cbn [bodies_ok].
    cbn [wf] in W. apply andb_prop in W as [W _]. apply andb_prop in W as [W W3].
    apply andb_prop in W as [W1 _].
    rewrite encode1_unfold_ifelse in L.
    cbn [List.length] in L. rewrite !app_length, !len2_length in L.
    split; [apply (complete_prog_of _ H W1) | apply (complete_prog_of _ H0 W3)]; lia.
  - (* ITry *)
    apply decode1_complete; [exact W|]. cbn [bodies_ok].
    cbn [wf] in W. apply andb_prop in W as [W _]. apply andb_prop in W as [W W3].
    apply andb_prop in W as [W1 _].
    rewrite encode1_unfold_try in L.
    cbn [List.length] in L. rewrite !app_length, !len2_length in L.
    split; [apply (complete_prog_of _ H W1) | apply (complete_prog_of _ H0 W3)]; lia.
  - (* ILoop *)
    apply decode1_complete; [exact W|]. cbn [bodies_ok].
    cbn [wf] in W. apply andb_prop in W as [W _].
    apply (complete_prog_of _ H W). rewrite encode1_unfold_loop in L.
    cbn [List.length] in L. rewrite app_length, len2_length in L. lia.
Qed.

Lemma decode_fuel_complete : forall p fuel,
  wf_prog p = true -> (List.length (encode p) <= fuel)%nat -> decode_fuel fuel (encode p) = Some p.
Proof.
  intros p fuel W L. apply complete_prog_of; try assumption.
  apply Forall_forall. intros i _. apply complete_at_all.
Qed.

(* C11.1 *)
Theorem decode_encode : forall p, wf_prog p = true -> decode (encode p) = Some p.
Proof. intros p W. unfold decode. apply decode_fuel_complete; [exact W|lia]. Qed.

(* C12.7 *)
Theorem decode_sound : forall b p, decode b = Some p -> encode p = b /\ wf_prog p = true.
Proof. intros b p H. exact (decode_fuel_sound _ _ _ H). Qed.

(* C11.3 *)
Theorem encode_inj : forall p q,
  wf_prog p = true -> wf_prog q = true -> encode p = encode q -> p = q.
Proof.
  intros p q Wp Wq E. apply decode_encode in Wp. apply decode_encode in Wq.
  rewrite E in Wp. rewrite Wp in Wq. injection Wq as ->. reflexivity.
Qed.

Theorem decode_total : forall b, exists r, decode b = r.
Proof. intros b. exists (decode b). reflexivity. Qed.

(* C12.5: the fuel [length b] always suffices; more fuel changes nothing *)
Theorem decode_fuel_enough : forall b fuel,
  (List.length b <= fuel)%nat -> decode_fuel fuel b = decode_fuel (List.length b) b.
Proof.
  intros b fuel L.
  destruct (decode_fuel (List.length b) b) as [p|] eqn:E1.
  - apply decode_fuel_sound in E1 as [<- W]. apply decode_fuel_complete; assumption.
  - destruct (decode_fuel fuel b) as [p|] eqn:E2; [|reflexivity].
    apply decode_fuel_sound in E2 as [<- W].
    rewrite decode_fuel_complete in E1 by (try assumption; lia). discriminate.
Qed.

Theorem decode_fuel_mono : forall b f1 f2,
  (List.length b <= f1)%nat -> (List.length b <= f2)%nat -> decode_fuel f1 b = decode_fuel f2 b.
Proof. intros. rewrite (decode_fuel_enough b f1), (decode_fuel_enough b f2) by assumption. reflexivity. Qed.

(* decode is the tape loop: empty tape, or one instruction followed by the rest *)
Theorem decode_unfold : forall b,
  decode b =
  match b with
  | [] => Some []
  | _ :: _ =>
    match decode1 b with
    | Some (i, rest) => match decode rest with Some p => Some (i :: p) | None => None end
    | None => None
    end
  end.
Proof.
  intros [|x t]; [reflexivity|]. unfold decode, decode1.
  cbn [List.length]. rewrite decode_fuel_step by discriminate.
  destruct (decode1_with (decode_fuel (List.length t)) (x :: t)) as [[i rest]|] eqn:E1.
  - pose proof (decode1_sound _ _ _ _ (decode_fuel_sound _) E1) as [Eb Wi].
    assert (Lr : (List.length rest <= List.length t)%nat).
    { apply (f_equal (@List.length byte)) in Eb. rewrite app_length in Eb. cbn [List.length] in Eb.
      pose proof (encode1_nonempty i). lia. }
    rewrite (decode_fuel_enough rest (List.length t) Lr).
    (* the single-instruction decoder with more fuel *)
    assert (E1' : decode1_with (decode_fuel (S (List.length t))) (x :: t) = Some (i, rest)).
    { rewrite Eb. apply complete_at_all; [exact Wi|].
      apply (f_equal (@List.length byte)) in Eb. rewrite app_length in Eb. cbn [List.length] in Eb. lia. }
    rewrite E1'. reflexivity.
  - destruct (decode1_with (decode_fuel (S (List.length t))) (x :: t)) as [[i rest]|] eqn:E2; [|reflexivity].
    pose proof (decode1_sound _ _ _ _ (decode_fuel_sound _) E2) as [Eb Wi].
    rewrite Eb in E1. rewrite complete_at_all in E1; [discriminate|exact Wi|].
    apply (f_equal (@List.length byte)) in Eb. rewrite app_length in Eb. cbn [List.length] in Eb. lia.
Qed.

(* C12.6: the single-instruction decoder reads forward: what it leaves is a proper suffix of its
   input, the consumed prefix being exactly the instruction's encoding (at least one byte) *)
Theorem decode1_consumes : forall b i rest,
  decode1 b = Some (i, rest) ->
  b = encode1 i ++ rest /\ wf i = true /\ (1 <= List.length (encode1 i))%nat /\
  (List.length rest < List.length b)%nat.
Proof.
  intros b i rest H. unfold decode1 in H.
  apply (decode1_sound _ _ _ _ (decode_fuel_sound _)) in H as [-> W].
  pose proof (encode1_nonempty i). rewrite app_length. repeat split; try assumption; lia.
Qed.

Theorem decode1_encode1 : forall i rest, wf i = true -> decode1 (encode1 i ++ rest) = Some (i, rest).
Proof.
  intros i rest W. unfold decode1. pose proof (encode1_nonempty i) as N.
  rewrite app_length.
  destruct (List.length (encode1 i) + List.length rest)%nat as [|f] eqn:E; [lia|].
  apply complete_at_all; [exact W|lia].
Qed.

(* None exactly on truncated input: a byte string decodes iff it is the encoding of a well-formed program *)
Theorem decode_some_iff : forall b,
  (exists p, decode b = Some p) <-> (exists p, wf_prog p = true /\ encode p = b).
Proof.
  intros b. split.
  - intros [p H]. apply decode_sound in H as [E W]. eauto.
  - intros (p & W & <-). exists p. apply decode_encode. exact W.
Qed.

(* ---------- the PUSH pseudo-instruction ---------- *)

(* C11.4: which push form is chosen, by length *)
Theorem push_instr_by_length : forall v,
  (blen v = 1 -> exists b, v = [b] /\ push_instr v = Some (IOp1 O_PUSH0 b)) /\
  (2 <= blen v <= 255 -> push_instr v = Some (IVar1 O_PUSH1 v)) /\
  (256 <= blen v <= 65535 -> push_instr v = Some (IPush2 v)) /\
  (blen v = 0 \/ 65536 <= blen v -> push_instr v = None).
Proof.
  intros v. destruct v as [|a [|b t]].
  - rewrite blen_nil. split; [|split; [|split]]; intros; try lia. reflexivity.
  - rewrite blen_cons, blen_nil. split; [|split; [|split]]; intros; try lia. eauto.
  - remember (a :: b :: t) as v eqn:Ev.
    assert (L : 2 <= blen v).
    { subst v. rewrite !blen_cons. pose proof (blen_nonneg t). lia. }
    assert (U : push_instr v =
      if (1 <? blen v) && (blen v <? 256) then Some (IVar1 O_PUSH1 v)
      else if (255 <? blen v) && (blen v <? 65536) then Some (IPush2 v) else None)
      by (subst v; reflexivity).
    rewrite U. clear U Ev.
    split; [|split; [|split]]; intros H; try lia.
    + replace (1 <? blen v) with true by (symmetry; apply Z.ltb_lt; lia).
      replace (blen v <? 256) with true by (symmetry; apply Z.ltb_lt; lia). reflexivity.
    + replace (blen v <? 256) with false by (symmetry; apply Z.ltb_ge; lia).
      rewrite andb_false_r.
      replace (255 <? blen v) with true by (symmetry; apply Z.ltb_lt; lia).
      replace (blen v <? 65536) with true by (symmetry; apply Z.ltb_lt; lia). reflexivity.
    + replace (blen v <? 256) with false by (symmetry; apply Z.ltb_ge; lia).
      rewrite andb_false_r.
      replace (blen v <? 65536) with false by (symmetry; apply Z.ltb_ge; lia).
      rewrite andb_false_r. reflexivity.
Qed.

(* C11.4: the chosen form is well-formed, carries exactly the value, and is the shortest form *)
Theorem push_minimal : forall v i, push_instr v = Some i ->
  wf i = true /\
  ((exists b, v = [b] /\ i = IOp1 O_PUSH0 b /\ encode1 i = x02 :: v) \/
   (2 <= blen v <= 255 /\ i = IVar1 O_PUSH1 v /\ encode1 i = x03 :: z2b (blen v) :: v) \/
   (256 <= blen v <= 65535 /\ i = IPush2 v /\ encode1 i = x04 :: Z_to_be 2 (blen v) ++ v)).
Proof.
  intros v i H.
  destruct (push_instr_by_length v) as (H1 & H2 & H3 & H4).
  pose proof (blen_nonneg v) as N.
  destruct (Z.eq_dec (blen v) 1) as [E|E].
  - destruct (H1 E) as (b & -> & P). rewrite P in H. injection H as <-.
    split; [reflexivity|]. left. eauto.
  - destruct (Z_le_gt_dec 2 (blen v)) as [L|L].
    + destruct (Z_le_gt_dec (blen v) 255) as [L2|L2].
      * rewrite H2 in H by lia. injection H as <-. split.
        -- cbn [wf shape_of is_var1 andb]. apply Z.ltb_lt. lia.
        -- right. left. repeat split; try lia.
      * destruct (Z_le_gt_dec (blen v) 65535) as [L3|L3].
        -- rewrite H3 in H by lia. injection H as <-. split.
           ++ cbn [wf]. apply Z.ltb_lt. lia.
           ++ right. right. repeat split; try lia.
        -- rewrite H4 in H by lia. discriminate.
    + rewrite H4 in H by lia. discriminate.
Qed.

Theorem push_instr_none : forall v, push_instr v = None <-> (blen v = 0 \/ 65536 <= blen v).
Proof.
  intros v. destruct (push_instr_by_length v) as (H1 & H2 & H3 & H4).
  split; [|exact H4]. intros H. pose proof (blen_nonneg v).
  destruct (Z.eq_dec (blen v) 1) as [E|E]; [destruct (H1 E) as (b & _ & P); congruence|].
  destruct (Z_le_gt_dec 2 (blen v)); [|lia].
  destruct (Z_le_gt_dec (blen v) 255); [rewrite H2 in H by lia; discriminate|].
  destruct (Z_le_gt_dec (blen v) 65535); [rewrite H3 in H by lia; discriminate|]. lia.
Qed.

(* ---------- hex and decimal ---------- *)

Lemma unnib_nib : forall a b c d, unnib (nib a b c d) = Some (a, b, c, d).
Proof. intros [] [] [] []; reflexivity. Qed.

Lemma unhex_hex : forall v, unhex (hex v) = Some v.
Proof.
  induction v as [|x t IH]; [reflexivity|].
  cbn [hex]. destruct (Byte.to_bits x) as (b0 & b1 & b2 & b3 & b4 & b5 & b6 & b7) eqn:E.
  cbn [unhex]. rewrite !unnib_nib, IH. rewrite <- E, Byte.of_bits_to_bits. reflexivity.
Qed.

Lemma dec_nonempty : forall z, dec z <> EmptyString.
Proof.
  intros z. unfold dec. destruct z as [|p|p]; cbn [Z.to_int NilEmpty.string_of_int].
  - discriminate.
  - pose proof (DecimalPos.Unsigned.to_uint_nonnil p) as N.
    destruct (Pos.to_uint p); [congruence| | | | | | | | | |]; discriminate.
  - discriminate.
Qed.

Lemma undec_dec : forall z, undec (dec z) = Some z.
Proof.
  intros z. unfold undec. pose proof (dec_nonempty z) as N.
  destruct (dec z) eqn:E; [congruence|]. rewrite <- E. unfold dec.
  rewrite NilEmpty.isi. cbn [option_map]. rewrite DecimalZ.of_to. reflexivity.
Qed.

Lemma untok_d_d : forall z, untok_d (tok_d z) = Some z.
Proof. intros. unfold untok_d, tok_d. change (Ascii.eqb "d" "d") with true. apply undec_dec. Qed.
Lemma untok_x_x : forall v, untok_x (tok_x v) = Some v.
Proof. intros. unfold untok_x, tok_x. change (Ascii.eqb "x" "x") with true. apply unhex_hex. Qed.
Lemma untok_d_x : forall v, untok_d (tok_x v) = None.
Proof. reflexivity. Qed.

Lemma s8_of_s8 : forall b, s8_of (s8 b) = Some b.
Proof. destruct b; reflexivity. Qed.
Lemma u8_of_b2z : forall b, u8_of (b2z b) = Some b.
Proof. destruct b; reflexivity. Qed.
(* s8 is bytes_to_int on one byte *)
Lemma s8_spec : forall b, bytes_to_int [b] = Some (s8 b).
Proof. destruct b; reflexivity. Qed.

Lemma untok_u8_tok : forall b, untok_u8 (tok_d (b2z b)) = Some b.
Proof. intros. unfold untok_u8. rewrite untok_d_d. apply u8_of_b2z. Qed.
Lemma untok_x1_tok : forall b, untok_x1 (tok_x [b]) = Some b.
Proof. intros. unfold untok_x1. rewrite untok_x_x. reflexivity. Qed.

Lemma bytes_eqb_eq : forall a b, bytes_eqb a b = true -> a = b.
Proof.
  induction a as [|x a IH]; intros [|y b] H; simpl in H; try discriminate; [reflexivity|].
  apply andb_prop in H as [H1 H2]. apply Byte.byte_dec_bl in H1. f_equal; auto.
Qed.

(* ---------- splitting lines into tokens ---------- *)

Fixpoint nospace (s : string) : bool :=
  match s with
  | EmptyString => true
  | String c t => negb (is_space c) && nospace t
  end.
Definition wordb (s : string) : bool :=
  match s with EmptyString => false | _ => nospace s end.

Lemma append_nil_r : forall s, (s ++ "")%string = s.
Proof. induction s; simpl; congruence. Qed.

Lemma nospace_app : forall a b, nospace (a ++ b)%string = nospace a && nospace b.
Proof. induction a; intros; simpl; [reflexivity|]. rewrite IHa, andb_assoc. reflexivity. Qed.

Lemma split_aux_word : forall w s, nospace w = true ->
  split_aux (w ++ s)%string = (let '(w', ts) := split_aux s in ((w ++ w')%string, ts)).
Proof.
  induction w as [|c w IH]; intros s H.
  - simpl. destruct (split_aux s). reflexivity.
  - simpl in H. apply andb_prop in H as [H1 H2]. apply negb_true_iff in H1.
    cbn [append split_aux]. rewrite IH by exact H2. destruct (split_aux s). rewrite H1. reflexivity.
Qed.

Lemma split_ws_space : forall s, split_ws (String " " s) = split_ws s.
Proof.
  intros s. unfold split_ws. cbn [split_aux]. destruct (split_aux s) as [w ts].
  change (is_space " ") with true. cbn iota. reflexivity.
Qed.

Lemma split_ws_pad : forall ind s, split_ws (pad ind s) = split_ws s.
Proof. induction ind; intros; cbn [pad]; [reflexivity|]. rewrite !split_ws_space. apply IHind. Qed.

Definition words (ws : list string) : Prop := Forall (fun w => wordb w = true) ws.

Lemma wordb_inv : forall w, wordb w = true -> w <> EmptyString /\ nospace w = true.
Proof. intros [|c t] H; [discriminate|]. split; [discriminate|exact H]. Qed.

Lemma cons_word_word : forall w ts, wordb w = true -> cons_word w ts = w :: ts.
Proof. intros [|c t] ts H; [discriminate|reflexivity]. Qed.

Lemma split_aux_unwords : forall w ws, words (w :: ws) ->
  split_aux (unwords (w :: ws)) = (w, ws).
Proof.
  intros w ws. revert w. induction ws as [|w2 ws IH]; intros w H.
  - inversion H as [|? ? Hw _]; subst. apply wordb_inv in Hw as [_ Hn].
    cbn [unwords]. rewrite <- (append_nil_r w) at 1. rewrite split_aux_word by exact Hn.
    cbn [split_aux]. rewrite append_nil_r. reflexivity.
  - inversion H as [|? ? Hw Hrest]; subst. apply wordb_inv in Hw as [_ Hn].
    change (unwords (w :: w2 :: ws)) with (w ++ String " " (unwords (w2 :: ws)))%string.
    rewrite split_aux_word by exact Hn. cbn [split_aux]. rewrite (IH w2 Hrest).
    change (is_space " ") with true. cbn iota.
    inversion Hrest as [|? ? Hw2 _]; subst. rewrite cons_word_word by exact Hw2.
    rewrite append_nil_r. reflexivity.
Qed.

Lemma split_ws_line : forall ind ws, words ws -> split_ws (line ind ws) = ws.
Proof.
  intros ind ws H. unfold line. rewrite split_ws_pad. destruct ws as [|w ws]; [reflexivity|].
  unfold split_ws. rewrite split_aux_unwords by exact H.
  inversion H; subst. apply cons_word_word. assumption.
Qed.

Lemma tokens_of_app : forall a b, tokens_of (a ++ b) = tokens_of a ++ tokens_of b.
Proof. intros. unfold tokens_of. apply flat_map_app. Qed.
Lemma tokens_of_cons : forall l ls, tokens_of (l :: ls) = split_ws l ++ tokens_of ls.
Proof. reflexivity. Qed.

(* the words the printer emits *)
Lemma nib_nospace : forall a b c d, is_space (nib a b c d) = false.
Proof. intros [] [] [] []; reflexivity. Qed.

Lemma nospace_hex : forall v, nospace (hex v) = true.
Proof.
  induction v as [|x t IH]; [reflexivity|].
  cbn [hex]. destruct (Byte.to_bits x) as (b0 & b1 & b2 & b3 & b4 & b5 & b6 & b7).
  cbn [nospace]. rewrite !nib_nospace, IH. reflexivity.
Qed.

Lemma nospace_uint : forall d, nospace (NilEmpty.string_of_uint d) = true.
Proof. induction d; cbn [NilEmpty.string_of_uint nospace]; try rewrite IHd; reflexivity. Qed.

Lemma nospace_dec : forall z, nospace (dec z) = true.
Proof.
  intros z. unfold dec. destruct (Z.to_int z); cbn [NilEmpty.string_of_int nospace];
    rewrite nospace_uint; reflexivity.
Qed.

Lemma word_dec : forall z, wordb (dec z) = true.
Proof.
  intros z. pose proof (dec_nonempty z). pose proof (nospace_dec z).
  destruct (dec z); [congruence|assumption].
Qed.
Lemma word_tok_d : forall z, wordb (tok_d z) = true.
Proof. intros. unfold tok_d, wordb. cbn [nospace]. rewrite nospace_dec. reflexivity. Qed.
Lemma word_tok_x : forall v, wordb (tok_x v) = true.
Proof. intros. unfold tok_x, wordb. cbn [nospace]. rewrite nospace_hex. reflexivity. Qed.
Lemma word_name : forall o, wordb (opcode_name o) = true.
Proof. destruct o; reflexivity. Qed.
Lemma word_nop : forall c, wordb (nop_name c) = true.
Proof. intros. unfold nop_name. cbn [append wordb nospace]. rewrite nospace_dec. reflexivity. Qed.

Section ListingProofs.
  Variable fl2 : Z -> Z.

  Lemma word_int_tok : forall v, wordb (int_tok fl2 v) = true.
  Proof.
    intros v. unfold int_tok. destruct v; [apply word_tok_x|].
    destruct (bytes_to_int _); [|apply word_tok_x].
    destruct (int_to_bytes _ _); [|apply word_tok_x].
    destruct (bytes_eqb _ _); [apply word_tok_d|apply word_tok_x].
  Qed.

  Lemma words_simple : forall i, words (simple_toks fl2 i).
  Proof.
    intros i. unfold words.
    destruct i; cbn [simple_toks]; try (destruct (shape_of o));
      repeat (first [apply Forall_nil | apply Forall_cons]);
      first [apply word_name | apply word_tok_d | apply word_tok_x | apply word_int_tok | apply word_nop].
  Qed.

  (* the token stream of a program's listing *)
  Fixpoint ptoks1 (i : instr) : list string :=
    match i with
    | IDef h body =>
        opcode_name O_DEF :: dec (b2z h) :: "{"%string :: flat_map ptoks1 body ++ ["}"%string]
    | IIf body => opcode_name O_IF :: "{"%string :: flat_map ptoks1 body ++ ["}"%string]
    | IIfElse b1 b2 =>
        opcode_name O_IF :: "{"%string :: flat_map ptoks1 b1
        ++ "}"%string :: "ELSE"%string :: "{"%string :: flat_map ptoks1 b2 ++ ["}"%string]
    | ITry b1 b2 =>
        "OP_TRY"%string :: "{"%string :: flat_map ptoks1 b1
        ++ match flat_map ptoks1 b2 with
           | [] => []
           | l2 => "}"%string :: "EXCEPT"%string :: "{"%string :: l2
           end ++ ["}"%string]
    | ILoop body => opcode_name O_LOOP :: "{"%string :: flat_map ptoks1 body ++ ["}"%string]
    | _ => simple_toks fl2 i
    end.
  Definition ptoks (p : list instr) : list string := flat_map ptoks1 p.

  Lemma print1_nonempty : forall ind i, print1 fl2 ind i <> [].
  Proof. intros ind i. destruct i; cbn [print1]; discriminate. Qed.

  Lemma ptoks1_nonempty : forall i, ptoks1 i <> [].
  Proof.
    intros i. destruct i; cbn [ptoks1 simple_toks]; try discriminate;
      destruct (shape_of o); discriminate.
  Qed.

  Local Ltac wds := unfold words; repeat (apply Forall_cons; [reflexivity|]); apply Forall_nil.

  Lemma tokens_print1 : forall i ind, tokens_of (print1 fl2 ind i) = ptoks1 i.
  Proof.
    assert (L : forall p, Forall (fun i => forall ind, tokens_of (print1 fl2 ind i) = ptoks1 i) p ->
                forall ind, tokens_of (flat_map (print1 fl2 ind) p) = flat_map ptoks1 p).
    { induction 1 as [|i p Hi Hp IH]; intros ind; [reflexivity|].
      cbn [flat_map]. rewrite tokens_of_app, Hi, IH. reflexivity. }
    assert (W : forall ind ws, words ws -> tokens_of [line ind ws] = ws).
    { intros. rewrite tokens_of_cons, split_ws_line by assumption. apply app_nil_r. }
    assert (W1 : forall ind ws rest, words ws -> tokens_of (line ind ws :: rest) = ws ++ tokens_of rest).
    { intros. rewrite tokens_of_cons, split_ws_line by assumption. reflexivity. }
    assert (Wb : words ["}"%string]) by wds.
    induction i using instr_ind'; intros ind;
      try (cbn [print1 ptoks1]; apply W; apply words_simple).
    - (* IDef *)
      cbn [print1 ptoks1]. rewrite tokens_of_app, W1, (W _ _ Wb), (L _ H).
      + reflexivity.
      + unfold words. repeat (apply Forall_cons; [first [reflexivity | apply word_dec]|]). apply Forall_nil.
    - (* IIf *)
      cbn [print1 ptoks1]. rewrite tokens_of_app, W1, (W _ _ Wb), (L _ H) by wds.
      reflexivity.
    - (* IIfElse *)
      cbn [print1 ptoks1]. rewrite tokens_of_app, W1, (L _ H) by wds.
      rewrite tokens_of_app, W1, (L _ H0), (W _ _ Wb) by wds.
      reflexivity.
    - (* ITry *)
      cbn [print1 ptoks1]. rewrite tokens_of_app, W1, (L _ H) by wds.
      rewrite tokens_of_app, (W _ _ Wb).
      cbn [app]. do 3 f_equal.
      destruct b2 as [|i2 b2'].
      + reflexivity.
      + pose proof (L _ H0 (S ind)) as E2.
        destruct (flat_map (print1 fl2 (S ind)) (i2 :: b2')) as [|l ls] eqn:E.
        { cbn [flat_map] in E. apply app_eq_nil in E as [E _]. exfalso. exact (print1_nonempty _ _ E). }
        destruct (flat_map ptoks1 (i2 :: b2')) as [|t ts] eqn:Et.
        { cbn [flat_map] in Et. apply app_eq_nil in Et as [Et _]. exfalso. exact (ptoks1_nonempty _ Et). }
        rewrite W1 by wds. rewrite E2. reflexivity.
    - (* ILoop *)
      cbn [print1 ptoks1]. rewrite tokens_of_app, W1, (W _ _ Wb), (L _ H) by wds.
      reflexivity.
  Qed.

  Lemma tokens_print : forall p ind, tokens_of (print fl2 ind p) = ptoks p.
  Proof.
    induction p as [|i p IH]; intros ind; [reflexivity|].
    unfold print, ptoks in *. cbn [flat_map]. rewrite tokens_of_app, tokens_print1, IH. reflexivity.
  Qed.
End ListingProofs.

(* ---------- reading the listing back ---------- *)

Definition simple_shape (s : shape) : bool :=
  match s with ShDef | ShIf | ShIfElse | ShTry | ShLoop => false | _ => true end.

Lemma classify_name : forall o, simple_shape (shape_of o) = true -> classify (opcode_name o) = TOp o.
Proof. destruct o; intros H; simpl in H; try discriminate H; vm_compute; reflexivity. Qed.
Lemma classify_def : classify (opcode_name O_DEF) = TDef.
Proof. reflexivity. Qed.
Lemma classify_if : classify (opcode_name O_IF) = TIf.
Proof. reflexivity. Qed.
Lemma classify_loop : classify (opcode_name O_LOOP) = TLoop.
Proof. reflexivity. Qed.
Lemma classify_try : classify "OP_TRY" = TTry.
Proof. reflexivity. Qed.
Lemma classify_close : classify "}" = TClose.
Proof. reflexivity. Qed.
Lemma classify_else : classify "ELSE" = TBad.
Proof. reflexivity. Qed.
Lemma classify_except : classify "EXCEPT" = TBad.
Proof. reflexivity. Qed.

Definition nop_ok (code : nat) : bool :=
  match classify (nop_name code) with TNop c => Nat.eqb c code | _ => false end.
Lemma nop_ok_all : forallb nop_ok (seq 92 164) = true.
Proof. vm_compute. reflexivity. Qed.
Lemma classify_nop : forall code, (n_opcodes <= code < 256)%nat -> classify (nop_name code) = TNop code.
Proof.
  intros code H. rewrite n_opcodes_val in H.
  assert (I : In code (seq 92 164)) by (apply in_seq; lia).
  pose proof (proj1 (forallb_forall _ _) nop_ok_all code I) as K. unfold nop_ok in K.
  destruct (classify (nop_name code)); try discriminate K. apply Nat.eqb_eq in K. subst. reflexivity.
Qed.

Lemma close_eqb : forall t, classify t <> TClose -> (t =? "}")%string = false.
Proof.
  intros t H. destruct (t =? "}")%string eqn:E; [|reflexivity].
  exfalso. apply H. unfold classify. rewrite E. reflexivity.
Qed.

Definition good_next (r : list string) : Prop :=
  match r with [] => True | t :: _ => classify t <> TBad end.
Definition closing (r : list string) : Prop := r = [] \/ exists r', r = "}"%string :: r'.

Lemma parse_tail_none : forall rec kw r,
  classify kw = TBad -> good_next r -> parse_tail rec kw r = Some (None, r).
Proof.
  intros rec kw [|t r] K G; [reflexivity|]. unfold parse_tail.
  destruct (t =? kw)%string eqn:E; [|reflexivity].
  apply String.eqb_eq in E. subst t. simpl in G. congruence.
Qed.

Lemma parse_block_ok : forall rec p ts r,
  rec (ts ++ "}"%string :: r) = Some (p, "}"%string :: r) ->
  parse_block rec ("{"%string :: ts ++ "}"%string :: r) = Some (p, r).
Proof. intros rec p ts r H. unfold parse_block. cbn [String.eqb Ascii.eqb Bool.eqb]. rewrite H. reflexivity. Qed.

Section ParseProofs.
  Variable fl2 : Z -> Z.

  Lemma parse_seq_step : forall f t r, (t =? "}")%string = false ->
    parse_seq fl2 (S f) (t :: r) =
    match parse_one fl2 (parse_seq fl2 f) t r with
    | Some (i, r') =>
        match parse_seq fl2 f r' with Some (p, r'') => Some (i :: p, r'') | None => None end
    | None => None
    end.
  Proof. intros f t r H. cbn [parse_seq]. rewrite H. reflexivity. Qed.

  Lemma parse_seq_closing : forall fuel r, closing r -> parse_seq fl2 fuel r = Some ([], r).
  Proof. intros fuel r [->|[r' ->]]; destruct fuel; reflexivity. Qed.

  Definition parse_first (f : nat) (ts : list string) : option (instr * list string) :=
    match ts with [] => None | t :: r => parse_one fl2 (parse_seq fl2 f) t r end.

  Lemma ptoks1_head : forall i, wf i = true ->
    exists t r0, ptoks1 fl2 i = t :: r0 /\ classify t <> TClose /\ classify t <> TBad.
  Proof.
    intros i W.
    destruct i; cbn [wf] in W; cbn [ptoks1 simple_toks];
      try (destruct (shape_of o) eqn:Es; try discriminate W;
           do 2 eexists; (split; [reflexivity|]);
           rewrite classify_name by (rewrite Es; reflexivity); split; discriminate).
    - do 2 eexists. split; [reflexivity|]. rewrite classify_name by reflexivity. split; discriminate.
    - do 2 eexists. split; [reflexivity|]. rewrite classify_name by reflexivity. split; discriminate.
    - do 2 eexists. split; [reflexivity|]. rewrite classify_name by reflexivity. split; discriminate.
    - do 2 eexists. split; [reflexivity|]. rewrite classify_def. split; discriminate.
    - do 2 eexists. split; [reflexivity|]. rewrite classify_if. split; discriminate.
    - do 2 eexists. split; [reflexivity|]. rewrite classify_if. split; discriminate.
    - do 2 eexists. split; [reflexivity|]. rewrite classify_try. split; discriminate.
    - do 2 eexists. split; [reflexivity|]. rewrite classify_loop. split; discriminate.
    - apply andb_prop in W as [W1 W2]. apply Nat.leb_le in W1. apply Nat.ltb_lt in W2.
      do 2 eexists. split; [reflexivity|]. rewrite classify_nop by lia. split; discriminate.
  Qed.

  Definition rt_at (i : instr) : Prop :=
    wf i = true -> forall f r, (List.length (ptoks1 fl2 i) <= S f)%nat -> good_next r ->
    parse_first f (ptoks1 fl2 i ++ r) = Some (i, r).

  Definition rt_prog (p : list instr) : Prop :=
    wf_prog p = true -> forall fuel r, (List.length (ptoks fl2 p) <= fuel)%nat -> closing r ->
    parse_seq fl2 fuel (ptoks fl2 p ++ r) = Some (p, r).

  Lemma good_next_ptoks : forall p r, wf_prog p = true -> closing r -> good_next (ptoks fl2 p ++ r).
  Proof.
    intros [|i p] r W C.
    - cbn [ptoks flat_map app]. destruct C as [->|[r' ->]]; cbn [good_next]; [exact I|].
      rewrite classify_close. discriminate.
    - rewrite wf_prog_cons in W. apply andb_prop in W as [Wi _].
      destruct (ptoks1_head i Wi) as (t & r0 & E & _ & B).
      unfold ptoks. cbn [flat_map]. rewrite E. cbn [app good_next]. exact B.
  Qed.

  Lemma rt_prog_of : forall p, Forall rt_at p -> rt_prog p.
  Proof.
    induction 1 as [|i p Hi Hp IH]; intros W fuel r L C.
    - cbn [ptoks flat_map app]. apply parse_seq_closing. exact C.
    - rewrite wf_prog_cons in W. apply andb_prop in W as [Wi Wp].
      change (ptoks fl2 (i :: p)) with (ptoks1 fl2 i ++ ptoks fl2 p) in *.
      rewrite app_length in L. rewrite <- app_assoc.
      destruct (ptoks1_head i Wi) as (t & r0 & E & Cl & _).
      assert (N : (1 <= List.length (ptoks1 fl2 i))%nat) by (rewrite E; cbn [List.length]; lia).
      destruct fuel as [|f]; [lia|].
      pose proof (Hi Wi f (ptoks fl2 p ++ r) ltac:(lia) (good_next_ptoks p r Wp C)) as P1.
      rewrite E in *. cbn [app parse_first] in *.
      rewrite parse_seq_step by (apply close_eqb; exact Cl).
      rewrite P1. rewrite (IH Wp f r) by (try assumption; lia). reflexivity.
  Qed.

  Lemma rt_at_all : forall i, rt_at i.
  Proof.
    induction i using instr_ind'; intros W fu r L G; cbn [wf] in W.
    - (* IOp0 *)
      cbn [ptoks1 simple_toks app parse_first]. unfold parse_one.
      destruct (shape_of o) eqn:Es; try discriminate W.
      rewrite classify_name by (rewrite Es; reflexivity). unfold parse_simple. rewrite Es. reflexivity.
    - (* IOp1 *)
      cbn [ptoks1 simple_toks app parse_first]. unfold parse_one.
      destruct (shape_of o) eqn:Es; try discriminate W;
        rewrite classify_name by (rewrite Es; reflexivity); unfold parse_simple; rewrite Es.
      + rewrite untok_d_d, s8_of_s8. reflexivity.
      + rewrite untok_x1_tok. reflexivity.
    - (* IVar1 *)
      apply andb_prop in W as [W1 W2].
      cbn [ptoks1 simple_toks]. unfold parse_first, parse_one.
      destruct (shape_of o) eqn:Es; try discriminate W1; cbn [app];
        rewrite classify_name by (rewrite Es; reflexivity); unfold parse_simple; rewrite Es.
      + rewrite untok_d_d, untok_x_x, Z.eqb_refl, W2. reflexivity.
      + rewrite untok_x_x, W2. reflexivity.
      + unfold int_tok. destruct v as [|x t].
        * rewrite untok_d_x, untok_x_x, W2. reflexivity.
        * destruct (bytes_to_int (x :: t)) as [z|]; [|rewrite untok_d_x, untok_x_x, W2; reflexivity].
          destruct (int_to_bytes fl2 z) as [v'|] eqn:Ei; [|rewrite untok_d_x, untok_x_x, W2; reflexivity].
          destruct (bytes_eqb v' (x :: t)) eqn:Eb; [|rewrite untok_d_x, untok_x_x, W2; reflexivity].
          apply bytes_eqb_eq in Eb. subst v'. rewrite untok_d_d, Ei, W2. reflexivity.
    - (* IWriteCache *)
      cbn [ptoks1 simple_toks app parse_first]. unfold parse_one.
      rewrite classify_name by reflexivity. unfold parse_simple. cbn [shape_of].
      rewrite untok_x_x, untok_u8_tok, W. reflexivity.
    - (* IPush2 *)
      cbn [ptoks1 simple_toks app parse_first]. unfold parse_one.
      rewrite classify_name by reflexivity. unfold parse_simple. cbn [shape_of].
      rewrite untok_d_d, untok_x_x, Z.eqb_refl, W. reflexivity.
    - (* IFix *)
      cbn [ptoks1 simple_toks app parse_first]. unfold parse_one.
      destruct (shape_of o) eqn:Es; cbn [fix_len] in W; try discriminate W;
        rewrite classify_name by (rewrite Es; reflexivity); unfold parse_simple; rewrite Es;
        rewrite untok_x_x, W; reflexivity.
    - (* ISwap *)
      cbn [ptoks1 simple_toks app parse_first]. unfold parse_one.
      rewrite classify_name by reflexivity. unfold parse_simple. cbn [shape_of].
      rewrite !untok_u8_tok. reflexivity.
    - (* IMultisig *)
      cbn [ptoks1 simple_toks app parse_first]. unfold parse_one.
      destruct (shape_of o) eqn:Es; try discriminate W.
      rewrite classify_name by (rewrite Es; reflexivity). unfold parse_simple. rewrite Es.
      rewrite untok_x1_tok, !untok_u8_tok. reflexivity.
    - (* IDef *)
      apply andb_prop in W as [W _]. pose proof (rt_prog_of _ H W) as Q.
      cbn [ptoks1] in *. change (flat_map (ptoks1 fl2) body) with (ptoks fl2 body) in *.
      cbn [List.length] in L. rewrite app_length in L. cbn [List.length] in L.
      cbn [app parse_first]. rewrite <- app_assoc. cbn [app]. unfold parse_one.
      rewrite classify_def, undec_dec, u8_of_b2z.
      rewrite (parse_block_ok _ body) by (apply Q; [lia|right; eauto]). reflexivity.
    - (* IIf *)
      apply andb_prop in W as [W _]. pose proof (rt_prog_of _ H W) as Q.
      cbn [ptoks1] in *. change (flat_map (ptoks1 fl2) body) with (ptoks fl2 body) in *.
      cbn [List.length] in L. rewrite app_length in L. cbn [List.length] in L.
      cbn [app parse_first]. rewrite <- app_assoc. cbn [app]. unfold parse_one.
      rewrite classify_if.
      rewrite (parse_block_ok _ body) by (apply Q; [lia|right; eauto]).
      rewrite parse_tail_none by (try exact G; reflexivity). reflexivity.
    - (* IIfElse *)
      apply andb_prop in W as [W _]. apply andb_prop in W as [W W3]. apply andb_prop in W as [W1 _].
      pose proof (rt_prog_of _ H W1) as Q1. pose proof (rt_prog_of _ H0 W3) as Q2.
      cbn [ptoks1] in *. change (flat_map (ptoks1 fl2) b1) with (ptoks fl2 b1) in *.
      change (flat_map (ptoks1 fl2) b2) with (ptoks fl2 b2) in *.
      cbn [List.length] in L. rewrite app_length in L. cbn [List.length] in L.
      rewrite app_length in L. cbn [List.length] in L.
      cbn [app parse_first]. rewrite <- app_assoc. cbn [app]. rewrite <- app_assoc. cbn [app].
      unfold parse_one. rewrite classify_if.
      rewrite (parse_block_ok _ b1) by (apply Q1; [lia|right; eauto]).
      unfold parse_tail. cbn [String.eqb Ascii.eqb Bool.eqb].
      rewrite (parse_block_ok _ b2) by (apply Q2; [lia|right; eauto]). reflexivity.
    - (* ITry *)
      apply andb_prop in W as [W _]. apply andb_prop in W as [W W3]. apply andb_prop in W as [W1 _].
      pose proof (rt_prog_of _ H W1) as Q1. pose proof (rt_prog_of _ H0 W3) as Q2.
      cbn [ptoks1] in *. change (flat_map (ptoks1 fl2) b1) with (ptoks fl2 b1) in *.
      change (flat_map (ptoks1 fl2) b2) with (ptoks fl2 b2) in *.
      unfold parse_first. cbn [app]. unfold parse_one. rewrite classify_try.
      destruct (ptoks fl2 b2) as [|t2 ts2] eqn:E2.
      + (* empty except body: not printed *)
        assert (b2 = []) as ->.
        { destruct b2 as [|i2 b2']; [reflexivity|]. exfalso. unfold ptoks in E2. cbn [flat_map] in E2.
          apply app_eq_nil in E2 as [E2 _]. exact (ptoks1_nonempty _ _ E2). }
        cbn [List.length] in L. rewrite !app_length in L. cbn [List.length] in L.
        cbn [app]. rewrite <- app_assoc. cbn [app].
        rewrite (parse_block_ok _ b1) by (apply Q1; [lia|right; eauto]).
        rewrite parse_tail_none by (try exact G; reflexivity). reflexivity.
      + cbn iota in L |- *. rewrite <- E2 in L, Q2 |- *. clear E2.
        cbn [List.length] in L. rewrite !app_length in L. cbn [List.length] in L.
        rewrite <- !app_assoc. cbn [app].
        rewrite (parse_block_ok _ b1) by (apply Q1; [lia|right; eauto]).
        unfold parse_tail. cbn [String.eqb Ascii.eqb Bool.eqb].
        rewrite (parse_block_ok _ b2) by (apply Q2; [lia|right; eauto]). reflexivity.
    - (* ILoop *)
      apply andb_prop in W as [W _]. pose proof (rt_prog_of _ H W) as Q.
      cbn [ptoks1] in *. change (flat_map (ptoks1 fl2) body) with (ptoks fl2 body) in *.
      cbn [List.length] in L. rewrite app_length in L. cbn [List.length] in L.
      cbn [app parse_first]. rewrite <- app_assoc. cbn [app]. unfold parse_one.
      rewrite classify_loop.
      rewrite (parse_block_ok _ body) by (apply Q; [lia|right; eauto]). reflexivity.
    - (* INop *)
      apply andb_prop in W as [W1 W2]. apply Nat.leb_le in W1. apply Nat.ltb_lt in W2.
      cbn [ptoks1 simple_toks app parse_first]. unfold parse_one.
      rewrite classify_nop by lia. rewrite untok_d_d, s8_of_s8. reflexivity.
  Qed.

  Lemma parse_seq_ptoks : forall p fuel r,
    wf_prog p = true -> (List.length (ptoks fl2 p) <= fuel)%nat -> closing r ->
    parse_seq fl2 fuel (ptoks fl2 p ++ r) = Some (p, r).
  Proof.
    intros p fuel r W L C. apply rt_prog_of; try assumption.
    apply Forall_forall. intros i _. apply rt_at_all.
  Qed.

  (* C12.9 *)
  Theorem listing_roundtrip : forall p ind,
    wf_prog p = true -> parse_listing fl2 (tokens_of (print fl2 ind p)) = Some p.
  Proof.
    intros p ind W. rewrite tokens_print. unfold parse_listing.
    rewrite <- (app_nil_r (ptoks fl2 p)) at 2.
    rewrite parse_seq_ptoks by (try assumption; try lia; left; reflexivity). reflexivity.
  Qed.

  Theorem listing_roundtrip_bytes : forall p,
    wf_prog p = true ->
    option_map encode (parse_listing fl2 (tokens_of (print fl2 0 p))) = Some (encode p).
  Proof. intros p W. rewrite listing_roundtrip by exact W. reflexivity. Qed.

  (* C12.8 *)
  Theorem decompile_encode : forall p,
    wf_prog p = true -> decompile fl2 (encode p) = Some (print fl2 0 p).
  Proof. intros p W. unfold decompile. rewrite decode_encode by exact W. reflexivity. Qed.

  (* decompile raises exactly when decode does, and what it lists is what the bytes hold *)
  Theorem decompile_sound : forall b ls,
    decompile fl2 b = Some ls ->
    exists p, ls = print fl2 0 p /\ encode p = b /\ wf_prog p = true /\
              parse_listing fl2 (tokens_of ls) = Some p.
  Proof.
    intros b ls H. unfold decompile in H. destruct (decode b) as [p|] eqn:E; [|discriminate].
    injection H as <-. apply decode_sound in E as [E W]. exists p.
    repeat split; try assumption. apply listing_roundtrip. exact W.
  Qed.

  Theorem decompile_none_iff : forall b, decompile fl2 b = None <-> decode b = None.
  Proof. intros b. unfold decompile. destruct (decode b); simpl; split; congruence. Qed.
End ParseProofs.

(* under the assumption made on math.log2 (CodecProofs.fl2_ok) the d-or-x test of the decompiler
   never raises: bytes_to_int and int_to_bytes both succeed on a non-empty operand *)
Lemma int_tok_total : forall fl2, fl2_ok fl2 -> forall v, v <> [] ->
  exists z v', bytes_to_int v = Some z /\ int_to_bytes fl2 z = Some v'.
Proof.
  intros fl2 F v N. destruct (bytes_to_int_total v N) as (z & E & _).
  destruct (int_roundtrip fl2 F z) as (v' & E' & _). eauto.
Qed.
