(* Reasoning principles for the interpreter: bind law, popping n items. *)
From Coq Require Import ZArith List Bool Lia.
From Coq.Strings Require Import Byte String.
From TS Require Import Bytes Codec State Prog Ops Interp StateLemmas.
Import ListNotations.
Local Open Scope nat_scope.

Section IL.
Variable orc : oracle.
Variable cfg : config.
Variable run : nat -> state -> outcome unit.

Lemma interp_bind A B (p : prog A) (f : A -> prog B) fr st :
  interp orc cfg run (bind p f) fr st =
  match interp orc cfg run p fr st with
  | Done a fr' st' => interp orc cfg run (f a) fr' st'
  | Raised e fr' st' => Raised e fr' st'
  | OutOfFuel => OutOfFuel
  | Unmodelled w => Unmodelled w
  end.
Proof.
  revert fr st. induction p as [a|e|w|X a k IH]; intros fr st; cbn [bind interp]; try reflexivity.
  destruct (step orc cfg run a fr st) as [x fr' st'|e fr' st'| |w]; try reflexivity. apply IH.
Qed.

Lemma with_stack_stack st s : st_stack (with_stack st s) = s.
Proof. reflexivity. Qed.
Lemma with_stack_twice st s s' : with_stack (with_stack st s) s' = with_stack st s'.
Proof. reflexivity. Qed.
Lemma with_stack_same st : with_stack st (st_stack st) = st.
Proof. destruct st; reflexivity. Qed.

Lemma repeat_get_ok n : forall fr st,
  n <= List.length (st_stack st) ->
  interp orc cfg run (repeat_get n) fr st =
    Done (firstn n (st_stack st)) fr (with_stack st (skipn n (st_stack st))).
Proof.
  induction n as [|n IH]; intros fr st H.
  - cbn. rewrite with_stack_same. reflexivity.
  - cbn [repeat_get]. unfold get, act. cbn [bind interp step].
    destruct (st_stack st) as [|x s] eqn:E; [simpl in H; lia|].
    rewrite interp_bind. rewrite IH by (simpl in *; lia).
    cbn. reflexivity.
Qed.

Lemma repeat_get_underflow n : forall fr st,
  List.length (st_stack st) < n ->
  interp orc cfg run (repeat_get n) fr st = Raised IndexError fr (with_stack st []).
Proof.
  induction n as [|n IH]; intros fr st H; [lia|].
  cbn [repeat_get]. unfold get, act. cbn [bind interp step].
  destruct (st_stack st) as [|x s] eqn:E.
  - rewrite <- E. rewrite with_stack_same. reflexivity.
  - rewrite interp_bind. rewrite IH by (simpl in *; lia). reflexivity.
Qed.

End IL.
