(* C05: OP_TAPROOT — script path runs the script iff (script, key) recomputes to the root; key path is CHECK_SIG under the root. *)
From Coq Require Import ZArith List Bool Lia.
From Coq.Strings Require Import Byte String.
From TS Require Import Bytes Codec State Prog Ops Interp StateLemmas InterpLemmas NopSpec StackLemmas ConfigSpec.
Import ListNotations.
Local Open Scope nat_scope.

Section TR.
Variable orc : oracle.
Variable cfg : config.
Variable run : nat -> state -> outcome unit.
Notation fits := (fits cfg).

Ltac sget := erewrite get_step by (first [reflexivity | eassumption]); cbn [bind].
Ltac sput := erewrite put_step;
  [ | first [reflexivity | eassumption]
    | first [eassumption | match goal with H : forall b, StackLemmas.fits _ [b] |- _ => apply H end]
    | unfold StackLemmas.space; simpl List.length; lia ]; cbn [bind].

(* clamp_scalar(h) with from_private_key = False on a 32-byte string: clear bit 255 *)
Definition clamp32 (h : bytes) : bytes :=
  set_nth_byte (firstn 32 h) 31 (fun b => z2b (Z.land (b2z b) 127)).

Lemma clamp_scalar_32 h A (k : bytes -> prog A) fr st :
  List.length h = 32 ->
  interp orc cfg run (bind (clamp_scalar h false) k) fr st = interp orc cfg run (k (clamp32 h)) fr st.
Proof.
  intro H. unfold clamp_scalar, blen. rewrite H. change (Z.of_nat 32 <? 32)%Z with false. reflexivity.
Qed.

(* script path: stack  root :: pubkey :: script :: rest  with a 32-byte second item *)
Theorem taproot_script_path fr st a tail root pubkey script rest hs h point agg :
  data_at fr st = a :: tail ->
  st_stack st = root :: pubkey :: script :: rest ->
  List.length root = 32 -> List.length pubkey = 32 -> List.length h = 32 ->
  orc PSha256 [script] = OOk [hs] -> orc PSha256 [pubkey ++ hs] = OOk [h] ->
  orc PBaseMult [clamp32 h] = OOk [point] ->
  orc PValidPoint [point] = OOk [[x01]] -> orc PValidPoint [pubkey] = OOk [[x01]] ->
  orc PPointAdd [point; pubkey] = OOk [agg] ->
  fits script -> List.length rest + 1 <= c_max_items cfg -> 1 <= c_max_item_size cfg ->
  interp orc cfg run OP_TAPROOT fr st =
    if bytes_eqb agg root
    then interp orc cfg run eval_body (adv fr 1) (with_stack st (script :: rest))
    else Done tt (adv fr 1) (with_stack st ([x00] :: rest)).
Proof.
  intros Hd Hs Lr Lp Lh O1 O2 O3 O4 O5 O6 F1 Hsp Hone.
  assert (Fb : forall b, fits [b]) by (intro b; unfold StackLemmas.fits; simpl; lia).
  unfold OP_TAPROOT, read, get, put, sert, act. cbn [bind].
  rewrite (read1 orc cfg run fr st a tail) by exact Hd. cbn [bind].
  sget. unfold blen. rewrite Lr. change (Z.of_nat 32 =? 32)%Z with true. cbn [bind].
  erewrite peek_step by reflexivity. cbn [bind]. rewrite Lp.
  change (Z.of_nat 32 =? 32)%Z with true. cbn [bind].
  sget. sget.
  unfold prim1 at 1, prim_list, act. cbn [bind]. rewrite prim_act_step, O1. cbn [bind].
  unfold prim1 at 1, prim_list, act. cbn [bind]. rewrite prim_act_step, O2. cbn [bind].
  rewrite clamp_scalar_32 by exact Lh.
  unfold derive_point, prim1 at 1, prim_list, act. cbn [bind]. rewrite prim_act_step, O3. cbn [bind].
  unfold aggregate_points. cbn [check_points sum_with]. unfold prim_bool, prim1, prim_list, vert, act. cbn [bind].
  assert (Hb : bytes_to_bool [x01] = true) by reflexivity.
  rewrite prim_act_step, O4. cbn [bind]. rewrite Hb. cbn [bind].
  rewrite prim_act_step, O5. cbn [bind]. rewrite Hb. cbn [bind].
  rewrite prim_act_step, O6. cbn [bind].
  destruct (bytes_eqb agg root).
  - sput. reflexivity.
  - sput. reflexivity.
Qed.

(* key path: second item is not 32 bytes long -> exactly the signature check of C02 with the root as key,
   after the signature extensions ran once *)
Theorem taproot_key_path fr st a tail root item rest :
  data_at fr st = a :: tail ->
  st_stack st = root :: item :: rest ->
  List.length root = 32 -> List.length item <> 32 ->
  List.length rest + 2 <= c_max_items cfg -> 32 <= c_max_item_size cfg ->
  interp orc cfg run OP_TAPROOT fr st =
    interp orc cfg run (check_sig_body (b2z a)) (adv fr 1)
           (sigext_log cfg (with_stack st (root :: item :: rest))).
Proof.
  intros Hd Hs Lr Li Hsp Hsz.
  unfold OP_TAPROOT, read, get, put, sert, act. cbn [bind].
  rewrite (read1 orc cfg run fr st a tail) by exact Hd. cbn [bind].
  sget. unfold blen. rewrite Lr. change (Z.of_nat 32 =? 32)%Z with true. cbn [bind].
  erewrite peek_step by reflexivity. cbn [bind].
  replace (Z.of_nat (List.length item) =? 32)%Z with false by (symmetry; apply Z.eqb_neq; lia).
  erewrite put_step; [|reflexivity|unfold StackLemmas.fits; lia|unfold StackLemmas.space; simpl; lia].
  cbn [bind]. rewrite interp_bind, run_sig_ext_spec.
  replace (be_to_Z [a]) with (b2z a) by (unfold be_to_Z; cbn [be_acc]; rewrite Z.shiftl_0_l; reflexivity).
  reflexivity.
Qed.

End TR.
