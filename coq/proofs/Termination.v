(* C07 (termination): for every oracle, configuration, state, tape and pointer some fuel suffices.

   The measure is lexicographic.  An activation is given (c, L): c a lower bound of its tape's call
   counter when it starts (Budget.run_tape_floor: the counter of its own tape never drops below c
   while it runs) and L the length of its tape.
     - a CALL / EVAL sub-activation starts with counter >= c + 1, and only if c < callstack_limit:
       Z.to_nat (callstack_limit - c) decreases;
     - an IF / IF_ELSE / TRY / EXCEPT / LOOP body starts with counter >= c on a tape that was read
       from the current one: L decreases;
     - within an activation the pointer strictly increases with every instruction, and one
       instruction performs finitely many actions ([prog] is an inductive type).
   Fuel monotonicity (Budget.run_tape_fuel_le) lets the fuels found for the parts be added up. *)
From Coq Require Import ZArith List Bool Lia Wf_nat.
From Coq.Strings Require Import Byte String.
From TS Require Import Bytes Codec State Prog Ops Interp StateLemmas Closure Pointer InterpLemmas
  Discipline Budget.
Import ListNotations.
Local Open Scope nat_scope.

Section Term.
Variable orc : oracle.
Variable cfg : config.

Definition terminates (tid ptr : nat) (st : state) : Prop :=
  exists f, run_tape orc cfg f tid ptr st <> OutOfFuel.

Notation rtf := (rt orc cfg).

(* a tape id outside the heap denotes the empty tape *)
Lemma outside_terminates t ptr s : List.length (st_tapes s) <= t -> terminates t ptr s.
Proof.
  intro H. exists 1. rewrite run_tape_eq. rewrite nth_tape_outside by exact H. simpl. discriminate.
Qed.

Lemma rt_heap_ok f : Closure.run_ok R_heap (rtf f).
Proof. intros t s. apply run_tape_heap. Qed.
Lemma rt_floor_ok c f : floor_ok c (rtf f).
Proof. intros t s H. apply run_tape_floor. exact H. Qed.

(* ---- one activation with measure (c, L), assuming smaller activations terminate ---- *)

Section Activation.
Variable c : Z.
Variable L : nat.
Variable tid : nat.

Hypothesis Hsub : forall t s,
  t < List.length (st_tapes s) ->
  ((c < c_limit cfg)%Z /\ (c + 1 <= count_of s t)%Z) \/
  ((c <= count_of s t)%Z /\ List.length (data_of s t) < L) ->
  terminates t 0 s.

Lemma sub_term t s :
  (t < List.length (st_tapes s) ->
   ((c < c_limit cfg)%Z /\ (c + 1 <= count_of s t)%Z) \/
   ((c <= count_of s t)%Z /\ List.length (data_of s t) < L)) ->
  terminates t 0 s.
Proof.
  intro H. destruct (Nat.lt_ge_cases t (List.length (st_tapes s))) as [Hlt|Hge].
  - apply Hsub; auto.
  - apply outside_terminates. exact Hge.
Qed.

Lemma after_run_term fr t s :
  terminates t 0 s -> exists f, after_run fr (rtf f t s) <> SFuel.
Proof.
  intros [f Hf]. exists f. unfold rt. destruct (run_tape orc cfg f t 0 s); simpl; try discriminate.
  exfalso. apply Hf. reflexivity.
Qed.

Lemma try_run_term fr t s :
  terminates t 0 s ->
  exists f, match rtf f t s with
            | Done _ _ st' => SOk None fr st'
            | Raised e _ st' => SOk (Some e) fr st'
            | OutOfFuel => SFuel
            | Unmodelled w => SUnmod w
            end <> SFuel.
Proof.
  intros [f Hf]. exists f. unfold rt. destruct (run_tape orc cfg f t 0 s); simpl; try discriminate.
  exfalso. apply Hf. reflexivity.
Qed.

Lemma step_term X (a : action X) m (Q : X -> bmode -> Prop) fr st :
  b_ok cfg c L a m Q -> bsem c L tid m fr st -> exists f, step orc cfg (rtf f) a fr st <> SFuel.
Proof.
  intros H Hs. pose proof Hs as (Ht & Hl & Hu). pose proof Ht as (T1 & T2 & T3 & T4 & T5 & T6).
  destruct a; cbn [b_ok] in H; simpl;
    try (exists 0; discriminate).
  - exists 0. destruct (st_stack st); discriminate.
  - exists 0. destruct (_ <? _); [discriminate|]. destruct (_ <=? _); discriminate.
  - exists 0. destruct (st_stack st); discriminate.
  - exists 0. destruct (_ && _); discriminate.
  - exists 0. destruct (_ <? _); discriminate.
  - (* ACallDef *)
    destruct H as (Hup & Hlim & HQ). specialize (Hu Hup).
    unfold cur. rewrite T1. fold (count_of st tid). apply after_run_term. apply sub_term. intro Hin.
    left. split; [exact Hlim|]. rewrite set_count_length in Hin. unfold count_of at 1.
    rewrite nth_tape_set_count_same by exact Hin. exact Hu.
  - (* ARunSub *)
    destruct H as (Hk & HQ).
    unfold cur. rewrite T1. fold (count_of st tid).
    apply after_run_term. apply sub_term. intro Hin.
    match goal with |- context [data_of ?s _] => set (st2 := s) in * end.
    assert (E2 : st_tapes st2 = st_tapes st ++
              [{| to_data := data;
                  to_count := match k with SubCopy => count_of st tid | SubEval => (count_of st tid + 1)%Z end;
                  to_defs := List.length (st_defs st) |}]) by reflexivity. unfold count_of at 1 2, data_of. simpl List.length.
    rewrite (nth_tape_app_new st st2 _ E2). simpl.
    destruct k; [right; split; [lia|exact Hk]|left; split; [exact Hk|lia]].
  - (* ATrySub *)
    destruct H as (Hk & HQ).
    unfold cur. rewrite T1. fold (count_of st tid).
    apply try_run_term. apply sub_term. intro Hin.
    match goal with |- context [data_of ?s _] => set (st2 := s) in * end.
    assert (E2 : st_tapes st2 = st_tapes st ++
              [{| to_data := data; to_count := count_of st tid;
                  to_defs := List.length (st_defs st) |}]) by reflexivity. unfold count_of at 1 2, data_of. simpl List.length.
    rewrite (nth_tape_app_new st st2 _ E2). simpl. right; split; [lia|exact Hk].
  - (* ARunLoop *)
    destruct H as (Hlp & HQ). destruct (Hl _ Hlp) as (L1 & L2 & L3).
    apply after_run_term. apply sub_term. intro Hin. right. split; assumption.
Qed.

Lemma interp_term A (p : prog A) : forall m (post : A -> bmode -> Prop) fr st,
  bud cfg c L p m post -> bsem c L tid m fr st ->
  exists f, interp orc cfg (rtf f) p fr st <> OutOfFuel.
Proof.
  induction p as [a|e|w|X a k IH]; intros m post fr st Hd Hs; cbn [bud] in Hd;
    try (exists 0; discriminate).
  destruct (step_term X a m _ fr st Hd Hs) as [f1 Hf1].
  pose proof (step_sound orc cfg c L tid (rtf f1) (rt_floor_ok c f1) X a m _ fr st Hd Hs) as Hss.
  destruct (step orc cfg (rtf f1) a fr st) as [x fr' st'|e fr' st'| |w] eqn:Es.
  - destruct Hss as (_ & m' & Hd' & Hs').
    destruct (IH x m' post fr' st' Hd' Hs') as [f2 Hf2].
    exists (f1 + f2). cbn [interp].
    rewrite (step_fuel_le orc cfg f1 (f1 + f2) X a fr st) by (try lia; rewrite Es; discriminate).
    rewrite Es.
    rewrite (interp_fuel_le orc cfg f2 (f1 + f2) A (k x) fr' st') by (try lia; exact Hf2).
    exact Hf2.
  - exists f1. cbn [interp]. rewrite Es. discriminate.
  - exfalso. apply Hf1. reflexivity.
  - exists f1. cbn [interp]. rewrite Es. discriminate.
Qed.

Lemma activation_term : forall k ptr st,
  tid < List.length (st_tapes st) -> List.length (data_of st tid) = L -> (c <= count_of st tid)%Z ->
  L - ptr <= k -> terminates tid ptr st.
Proof.
  induction k as [|k IH]; intros ptr st Hin HL Hc Hk.
  - exists 1. rewrite run_tape_eq. fold (data_of st tid). rewrite HL.
    replace (L <=? ptr) with true by (symmetry; apply Nat.leb_le; lia). discriminate.
  - destruct (Nat.le_gt_cases L ptr) as [Hle|Hlt].
    + exists 1. rewrite run_tape_eq. fold (data_of st tid). rewrite HL.
      replace (L <=? ptr) with true by (symmetry; apply Nat.leb_le; lia). discriminate.
    + assert (Hlt' : ptr < List.length (data_of st tid)) by lia.
      pose proof (bsem_start c tid ptr st Hin Hlt' Hc) as Hs0. rewrite HL in Hs0.
      pose proof (dispatch_bud cfg c L (code_at st tid ptr) mode0) as Hb.
      destruct (interp_term unit _ mode0 _ _ st Hb Hs0) as [f1 Hf1].
      pose proof (bud_sound orc cfg c L tid (rtf f1) (rt_floor_ok c f1) unit _ mode0 _ _ st Hb Hs0) as Hsnd.
      pose proof (interp_ptr orc cfg (rtf f1) (rt_heap_ok f1) unit (dispatch (code_at st tid ptr))
                    {| fr_tid := tid; fr_ptr := S ptr |} st) as Hp.
      destruct (interp orc cfg (rtf f1) (dispatch (code_at st tid ptr))
                       {| fr_tid := tid; fr_ptr := S ptr |} st) as [u fr' st'|e fr' st'| |w] eqn:Ei.
      * destruct Hsnd as (_ & m' & _ & ((B1 & B2 & B3 & B4 & B5 & B6) & _)).
        destruct Hp as (_ & _ & Hp). simpl in Hp.
        assert (Hge : S ptr <= fr_ptr fr') by (apply Hp; [exact Hin|unfold data_of in *; lia]).
        destruct (IH (fr_ptr fr') st' B2 B3 B6 ltac:(lia)) as [f2 Hf2].
        exists (S (f1 + f2)). rewrite run_tape_eq. fold (data_of st tid). rewrite HL.
        replace (L <=? ptr) with false by (symmetry; apply Nat.leb_gt; lia).
        rewrite (interp_fuel_le orc cfg f1 (f1 + f2)) by (try lia; rewrite Ei; discriminate).
        rewrite Ei.
        rewrite (run_tape_fuel_le orc cfg f2 (f1 + f2)) by (try lia; exact Hf2).
        exact Hf2.
      * exists (S f1). rewrite run_tape_eq. fold (data_of st tid). rewrite HL.
        replace (L <=? ptr) with false by (symmetry; apply Nat.leb_gt; lia).
        rewrite Ei. discriminate.
      * exfalso. apply Hf1. reflexivity.
      * exists (S f1). rewrite run_tape_eq. fold (data_of st tid). rewrite HL.
        replace (L <=? ptr) with false by (symmetry; apply Nat.leb_gt; lia).
        rewrite Ei. discriminate.
Qed.

End Activation.

(* ---- the lexicographic induction ---- *)

Lemma terminates_measure : forall d L c tid ptr st,
  Z.to_nat (c_limit cfg - c) <= d ->
  tid < List.length (st_tapes st) -> (c <= count_of st tid)%Z -> List.length (data_of st tid) = L ->
  terminates tid ptr st.
Proof.
  induction d as [|d IHd]; intro L; induction L as [L IHL] using lt_wf_ind;
    intros c tid ptr st Hd Hin Hc HL.
  - apply (activation_term c L tid) with (k := L - ptr); auto.
    intros t s Ht [[H1 H2]|[H1 H2]]; [lia|].
    eapply (IHL _ H2 c); eauto.
  - apply (activation_term c L tid) with (k := L - ptr); auto.
    intros t s Ht [[H1 H2]|[H1 H2]].
    + apply (IHd (List.length (data_of s t)) (c + 1)%Z); auto. lia.
    + eapply (IHL _ H2 c); eauto.
Qed.

(* deliverable 4: termination of run_tape, from EVERY state, tape and pointer *)
Theorem run_tape_terminates : forall tid ptr st,
  exists fuel, run_tape orc cfg fuel tid ptr st <> OutOfFuel.
Proof.
  intros tid ptr st.
  destruct (Nat.lt_ge_cases tid (List.length (st_tapes st))) as [Hlt|Hge].
  - apply (terminates_measure (Z.to_nat (c_limit cfg - count_of st tid)) (List.length (data_of st tid))
             (count_of st tid)); auto; lia.
  - apply outside_terminates. exact Hge.
Qed.

(* ... and from that fuel on the result is the same for every larger fuel *)
Corollary run_tape_total tid ptr st :
  exists fuel r, r <> OutOfFuel /\ forall fuel', fuel <= fuel' -> run_tape orc cfg fuel' tid ptr st = r.
Proof.
  destruct (run_tape_terminates tid ptr st) as [f Hf].
  exists f, (run_tape orc cfg f tid ptr st). split; [exact Hf|].
  intros f' Hle. apply run_tape_fuel_le; assumption.
Qed.

Theorem run_script_terminates : forall script vals,
  exists fuel, run_script orc cfg fuel script vals <> OutOfFuel.
Proof. intros script vals. apply run_tape_terminates. Qed.

Corollary run_script_total script vals :
  exists fuel r, r <> OutOfFuel /\ forall fuel', fuel <= fuel' -> run_script orc cfg fuel' script vals = r.
Proof. apply run_tape_total. Qed.

(* ---- run_auth_scripts ---- *)

Lemma auth_rest_terminates : forall scripts prev st,
  exists fuel, forall fuel', fuel <= fuel' -> auth_rest orc cfg fuel' scripts prev st <> AuthFuel.
Proof.
  induction scripts as [|s rest IH]; intros prev st.
  - exists 0. intros f' _. simpl. destruct (st_stack st) as [|x [|y l]]; discriminate.
  - destruct (run_tape_terminates (List.length (st_tapes st)) 0 (next_script_state st prev s)) as [f1 Hf1].
    destruct (run_tape orc cfg f1 (List.length (st_tapes st)) 0 (next_script_state st prev s))
      as [u fr' st'|e fr' st'| |w] eqn:Er.
    + destruct (IH (List.length (st_tapes st)) st') as [f2 Hf2].
      exists (f1 + f2). intros f' Hle. rewrite auth_rest_cons.
      rewrite (run_tape_fuel_le orc cfg f1 f') by (try lia; rewrite Er; discriminate).
      rewrite Er. apply Hf2. lia.
    + exists f1. intros f' Hle. rewrite auth_rest_cons.
      rewrite (run_tape_fuel_le orc cfg f1 f') by (try lia; rewrite Er; discriminate).
      rewrite Er. discriminate.
    + exfalso. apply Hf1. reflexivity.
    + exists f1. intros f' Hle. rewrite auth_rest_cons.
      rewrite (run_tape_fuel_le orc cfg f1 f') by (try lia; rewrite Er; discriminate).
      rewrite Er. discriminate.
Qed.

Theorem run_auth_scripts_terminates : forall scripts vals,
  exists fuel, forall fuel', fuel <= fuel' -> run_auth_scripts orc cfg fuel' scripts vals <> AuthFuel.
Proof.
  intros [|s rest] vals.
  - exists 0. intros f' _. discriminate.
  - destruct (run_script_terminates s vals) as [f1 Hf1]. unfold run_auth_scripts.
    destruct (run_script orc cfg f1 s vals) as [u fr' st'|e fr' st'| |w] eqn:Er.
    + destruct (auth_rest_terminates rest 0 st') as [f2 Hf2].
      exists (f1 + f2). intros f' Hle. unfold run_script in *.
      rewrite (run_tape_fuel_le orc cfg f1 f') by (try lia; rewrite Er; discriminate).
      rewrite Er. apply Hf2. lia.
    + exists f1. intros f' Hle. unfold run_script in *.
      rewrite (run_tape_fuel_le orc cfg f1 f') by (try lia; rewrite Er; discriminate).
      rewrite Er. discriminate.
    + exfalso. apply Hf1. reflexivity.
    + exists f1. intros f' Hle. unfold run_script in *.
      rewrite (run_tape_fuel_le orc cfg f1 f') by (try lia; rewrite Er; discriminate).
      rewrite Er. discriminate.
Qed.

Corollary run_auth_scripts_total scripts vals :
  exists fuel r, r <> AuthFuel /\
    forall fuel', fuel <= fuel' -> run_auth_scripts orc cfg fuel' scripts vals = r.
Proof.
  destruct (run_auth_scripts_terminates scripts vals) as [f Hf].
  exists f, (run_auth_scripts orc cfg f scripts vals). split; [apply Hf; lia|].
  intros f' Hle. apply run_auth_scripts_fuel_le; [exact Hle|apply Hf; lia].
Qed.

End Term.

Print Assumptions run_tape_terminates.
Print Assumptions run_tape_total.
Print Assumptions run_script_terminates.
Print Assumptions run_script_total.
Print Assumptions run_auth_scripts_terminates.
Print Assumptions run_auth_scripts_total.
