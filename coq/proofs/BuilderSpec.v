(* C13 (first pair): make_single_sig_lock / make_single_sig_witness — the authorisation verdict, exactly. *)
From Coq Require Import ZArith List Bool Lia.
From Coq.Strings Require Import Byte String.
From TS Require Import Bytes Codec State Prog Ops Interp StateLemmas InterpLemmas NopSpec StackLemmas
  BytesLemmas TapeLemmas SigSpec ConfigSpec AuthSpec Asm.
Import ListNotations.
Local Open Scope nat_scope.

(* bytes produced by the builders (tied to tapescript.tools by the correspondence run, and to the documented
   encoding by the lemmas below) *)
Definition push1_bytes (v : bytes) : bytes := x03 :: z2b (blen v) :: v.
Definition single_sig_witness (sig : bytes) : bytes := push1_bytes sig.
Definition single_sig_lock (pk : bytes) (fl : byte) : bytes := push1_bytes pk ++ [x23; fl].

Lemma single_sig_lock_encoding pk fl :
  single_sig_lock pk fl = encode [IVar1 O_PUSH1 pk; IOp1 O_CHECK_SIG fl].
Proof. reflexivity. Qed.
Lemma single_sig_witness_encoding sig : single_sig_witness sig = encode [IVar1 O_PUSH1 sig].
Proof. unfold single_sig_witness, push1_bytes, encode. cbn. rewrite app_nil_r. reflexivity. Qed.

Lemma sigfield_not_returned i : In i fields18 -> ckey_eqb returned_key (sigfield_key i) = false.
Proof. intro H. simpl in H. repeat (destruct H as [<-|H]; [reflexivity|]). contradiction. Qed.

Lemma msg_of_del_returned f c : msg_of f (cache_del c returned_key) = msg_of f c.
Proof.
  apply excluded_fields_irrelevant. intros i Hi _.
  apply cache_get_del_other. apply sigfield_not_returned. exact Hi.
Qed.

Section B.
Variable orc : oracle.
Variable cfg : config.
Hypothesis Hsize : 65 <= c_max_item_size cfg.
Hypothesis Hitems : 2 <= c_max_items cfg.

Definition sig_accepts (pk sig : bytes) (allowed : Z) (c : cache) : Prop :=
  flags_permitted (sig_flag sig) allowed = true /\
  exists m x, msg_of (sig_flag sig) c = Some m /\ List.length m <= c_max_item_size cfg /\
              orc PVerify [pk; m; firstn 64 sig] = OOk [x] /\ bytes_to_bool x = true.

Lemma witness_runs f sig vals :
  (List.length sig = 64 \/ List.length sig = 65) ->
  run_script orc cfg (S (S f)) (single_sig_witness sig) vals =
    Done tt {| fr_tid := 0; fr_ptr := 2 + List.length sig |}
         (with_stack (init_state cfg (single_sig_witness sig) vals) [sig]).
Proof.
  intro Hl. unfold run_script.
  set (st0 := init_state cfg (single_sig_witness sig) vals).
  assert (Hd : tdata st0 0 = [] ++ x03 :: (z2b (blen sig) :: sig ++ [])).
  { unfold tdata, st0, init_state, nth_tape. cbn. rewrite app_nil_r. reflexivity. }
  change 0 with (List.length (@nil byte)) at 2.
  rewrite (run_tape_fetch orc cfg _ 0 st0 [] x03 _ Hd).
  change (dispatch (N.to_nat (Byte.to_N x03))) with OP_PUSH1.
  assert (Hd1 : tdata st0 0 = [x03] ++ z2b (blen sig) :: sig ++ []) by exact Hd.
  change (S (List.length (@nil byte))) with (List.length [x03]).
  rewrite (push1_exec orc cfg _ 0 st0 [x03] sig [] []); try assumption; try reflexivity;
    try (unfold fits, space; simpl; lia).
  cbn [fr_ptr List.length].
  rewrite run_tape_end.
  - f_equal.
  - unfold tdata, nth_tape. cbn. lia.
Qed.

(* the pair (witness pushing sig, lock for key pk with allowed-flags byte fl) *)
Theorem single_sig_exact f pk sig fl vals :
  List.length pk = 32 -> (List.length sig = 64 \/ List.length sig = 65) ->
  match run_auth_scripts orc cfg (S (S (S f))) [single_sig_witness sig; single_sig_lock pk fl] vals with
  | AuthVerdict b _ => b = true <-> sig_accepts pk sig (b2z fl) (init_cache cfg vals)
  | AuthFuel => False
  | AuthUnmod _ => exists m l, msg_of (sig_flag sig) (init_cache cfg vals) = Some m /\
                               orc PVerify [pk; m; firstn 64 sig] = OOk l /\ List.length l <> 1
  end.
Proof.
  intros Hpk Hsig.
  unfold run_auth_scripts. rewrite witness_runs by exact Hsig.
  rewrite auth_rest_unfold.
  set (st1 := with_stack (init_state cfg (single_sig_witness sig) vals) [sig]).
  set (tid := fst (next_start st1 0 (single_sig_lock pk fl))).
  set (st2 := snd (next_start st1 0 (single_sig_lock pk fl))).
  assert (Hd : tdata st2 tid = [] ++ x03 :: (z2b (blen pk) :: pk ++ [x23; fl])).
  { unfold tdata, st2, tid, nth_tape, st1. cbn. reflexivity. }
  change 0 with (List.length (@nil byte)) at 1.
  rewrite (run_tape_fetch orc cfg _ tid st2 [] x03 _ Hd).
  change (dispatch (N.to_nat (Byte.to_N x03))) with OP_PUSH1.
  change (S (List.length (@nil byte))) with (List.length [x03]).
  assert (Hst : st_stack st2 = [sig]) by reflexivity.
  rewrite (push1_exec orc cfg _ tid st2 [x03] pk [x23; fl] [sig]); try assumption; try reflexivity;
    try (unfold fits, space; simpl; lia).
  cbn [fr_ptr].
  set (st3 := with_stack st2 [pk; sig]).
  assert (Hd3 : tdata st3 tid = (x03 :: z2b (blen pk) :: pk) ++ x23 :: [fl]).
  { unfold tdata, st3, st2, tid, nth_tape, st1. cbn. reflexivity. }
  replace (List.length [x03] + 1 + List.length pk) with (List.length (x03 :: z2b (blen pk) :: pk)) by (simpl; lia).
  rewrite (run_tape_fetch orc cfg _ tid st3 _ x23 [fl] Hd3).
  change (dispatch (N.to_nat (Byte.to_N x23))) with OP_CHECK_SIG.
  assert (Hda : data_at {| fr_tid := tid; fr_ptr := S (List.length (x03 :: z2b (blen pk) :: pk)) |} st3 = [fl]).
  { unfold data_at, cur. cbn [fr_tid fr_ptr]. fold (tdata st3 tid). rewrite Hd3.
    replace (S (List.length (x03 :: z2b (blen pk) :: pk))) with (List.length ((x03 :: z2b (blen pk) :: pk) ++ [x23]))
      by (rewrite app_length; simpl; lia).
    replace ((x03 :: z2b (blen pk) :: pk) ++ x23 :: [fl]) with (((x03 :: z2b (blen pk) :: pk) ++ [x23]) ++ [fl])
      by (rewrite <- app_assoc; reflexivity).
    apply skipn_after. }
  rewrite (check_sig_decomposed orc cfg _ _ st3 fl [] Hda).
  rewrite (check_sig_body_exact orc cfg _ (b2z fl) _ (sigext_log cfg st3) pk sig []) by reflexivity.
  cbv zeta. unfold blen. rewrite Hpk. change (Z.of_nat 32 =? 32)%Z with true. cbn [negb].
  assert (Hs2 : ((Z.of_nat (List.length sig) =? 64) || (Z.of_nat (List.length sig) =? 65))%Z = true).
  { destruct Hsig as [->| ->]; reflexivity. }
  rewrite Hs2. cbn [negb].
  assert (Hc : st_cache (sigext_log cfg st3) = cache_del (init_cache cfg vals) returned_key) by reflexivity.
  rewrite Hc, msg_of_del_returned.
  unfold sig_accepts.
  destruct (flags_permitted (sig_flag sig) (b2z fl)) eqn:Ef; cbn [negb].
  2:{ split; [discriminate|]. intros [H _]. discriminate. }
  destruct (msg_of (sig_flag sig) (init_cache cfg vals)) as [m|] eqn:Em.
  2:{ split; [discriminate|]. intros (_ & m & x & H & _). discriminate. }
  cbn [List.length].
  replace (c_max_items cfg <=? 0) with false by (symmetry; apply Nat.leb_gt; lia).
  rewrite orb_false_r.
  destruct (c_max_item_size cfg <? List.length m) eqn:El.
  { apply Nat.ltb_lt in El. split; [discriminate|]. intros (_ & m' & x & H & Hlen & _).
    injection H as <-. lia. }
  apply Nat.ltb_ge in El.
  match goal with |- context [orc PVerify ?a] => destruct (orc PVerify a) as [[|x [|y l]]|e] eqn:Eo end.
  - cbv beta iota. exists m, []. split; [reflexivity|]. split; [exact Eo|]. simpl. lia.
  - replace (c_max_item_size cfg <? 1) with false by (symmetry; apply Nat.ltb_ge; lia).
    set (v := if bytes_to_bool x then [xff] else [x00]).
    match goal with |- context [run_tape orc cfg (S f) tid ?p ?s] =>
      rewrite (run_tape_end orc cfg f tid s p) end.
    2:{ unfold tdata, nth_tape. cbn. unfold adv. cbn. rewrite app_length. simpl. lia. }
    cbn [auth_rest st_stack with_stack].
    unfold v. destruct (bytes_to_bool x) eqn:Eb.
    + split; [intros _|reflexivity]. split; [reflexivity|]. exists m, x. split; [reflexivity|]. split; [exact El|]. split; [exact Eo|exact Eb].
    + split; [discriminate|]. intros (_ & m' & x' & H1 & _ & H2 & H3).
      injection H1 as <-. assert (Hx : OOk [x'] = OOk [x]) by (rewrite <- H2; exact Eo). injection Hx as <-. congruence.
  - cbv beta iota. exists m, (x :: y :: l). split; [reflexivity|]. split; [exact Eo|]. simpl. lia.
  - cbv beta iota. split; [discriminate|]. intros (_ & m' & x & H1 & _ & H2 & _).
    injection H1 as <-. assert (Hx : OOk [x] = OErr e) by (rewrite <- H2; exact Eo). discriminate.
Qed.

End B.
