(* C02: the message covered by a signature and the exact behaviour of the signature check. *)
From Coq Require Import ZArith List Bool Lia.
From Coq.Strings Require Import Byte String.
From TS Require Import Bytes Codec State Prog Ops Interp StateLemmas InterpLemmas.
Import ListNotations.
Open Scope Z_scope.

(* ---- the flag-selected message, as a pure function of flag byte and cache ---- *)
Fixpoint msg_pure (idx : list Z) (flag : Z) (c : cache) (acc : bytes) : option bytes :=
  match idx with
  | [] => Some acc
  | i :: t =>
    match cache_get c (sigfield_key i) with
    | None => msg_pure t flag c acc
    | Some v =>
      if Z.testbit flag (i - 1) then msg_pure t flag c acc
      else match v with VOne (ABytes b) | VOne (AByteArr b) => msg_pure t flag c (acc ++ b) | _ => None end
    end
  end.
Definition fields18 : list Z := [1;2;3;4;5;6;7;8].
Definition msg_of (flag : Z) (c : cache) : option bytes := msg_pure fields18 flag c [].

(* the documented reading: concatenation, in index order, of the present fields whose bit is clear *)
Definition covered (flag : Z) (c : cache) (i : Z) : bytes :=
  match cache_get c (sigfield_key i) with
  | Some (VOne (ABytes b)) => if Z.testbit flag (i - 1) then [] else b
  | _ => []
  end.
Definition msg_doc (flag : Z) (c : cache) : bytes := List.concat (map (covered flag c) fields18).

(* all present, covered fields are byte strings (otherwise the instruction raises TypeError) *)
Definition fields_ok (flag : Z) (c : cache) (idx : list Z) : Prop :=
  forall i, In i idx -> Z.testbit flag (i - 1) = false ->
    match cache_get c (sigfield_key i) with Some (VOne (ABytes _)) | None => True | _ => False end.

Lemma msg_pure_doc idx flag c acc :
  fields_ok flag c idx -> msg_pure idx flag c acc = Some (acc ++ List.concat (map (covered flag c) idx)).
Proof.
  revert acc. induction idx as [|i t IH]; intros acc H; cbn [msg_pure map List.concat].
  - rewrite app_nil_r. reflexivity.
  - assert (Ht : fields_ok flag c t) by (intros j Hj; apply H; right; exact Hj).
    pose proof (H i (or_introl eq_refl)) as Hi. unfold covered at 1.
    destruct (cache_get c (sigfield_key i)) as [v|] eqn:E.
    + destruct (Z.testbit flag (i - 1)) eqn:B.
      * rewrite IH by exact Ht. destruct v as [[]|]; reflexivity.
      * specialize (Hi eq_refl). destruct v as [[b| | | | | |]|]; try contradiction.
        rewrite IH by exact Ht. rewrite app_assoc. reflexivity.
    + rewrite IH by exact Ht. reflexivity.
Qed.

Theorem msg_of_doc flag c : fields_ok flag c fields18 -> msg_of flag c = Some (msg_doc flag c).
Proof. intro H. unfold msg_of, msg_doc. rewrite msg_pure_doc by exact H. reflexivity. Qed.

(* fields whose flag bit is set, and absent fields, are irrelevant *)
Theorem excluded_fields_irrelevant flag c1 c2 :
  (forall i, In i fields18 -> Z.testbit flag (i - 1) = false ->
     cache_get c1 (sigfield_key i) = cache_get c2 (sigfield_key i)) ->
  msg_of flag c1 = msg_of flag c2.
Proof.
  unfold msg_of. generalize (@nil byte) as acc. generalize fields18 as idx.
  induction idx as [|i t IH]; intros acc H; cbn [msg_pure]; [reflexivity|].
  assert (Ht : forall j, In j t -> Z.testbit flag (j - 1) = false ->
                cache_get c1 (sigfield_key j) = cache_get c2 (sigfield_key j))
    by (intros j Hj; apply H; right; exact Hj).
  destruct (Z.testbit flag (i - 1)) eqn:B.
  - destruct (cache_get c1 (sigfield_key i)), (cache_get c2 (sigfield_key i)); apply IH; exact Ht.
  - rewrite <- (H i (or_introl eq_refl) B).
    destruct (cache_get c1 (sigfield_key i)) as [[[b| | | | | |]|]|]; try reflexivity; apply IH; exact Ht.
Qed.

Section Sig.
Variable orc : oracle.
Variable cfg : config.
Variable run : nat -> state -> outcome unit.

Lemma msg_go_pure idx flag : forall acc fr st,
  interp orc cfg run (msg_go idx flag acc) fr st =
    match msg_pure idx flag (st_cache st) acc with
    | Some m => Done m fr st
    | None => Raised TypeError fr st
    end.
Proof.
  induction idx as [|i t IH]; intros acc fr st; cbn [msg_go msg_pure]; [reflexivity|].
  unfold act. cbn [bind interp step].
  destruct (cache_get (st_cache st) (sigfield_key i)) as [v|]; [|apply IH].
  destruct (Z.testbit flag (i - 1)); [apply IH|].
  destruct v as [[b| | | | | |b]|]; try reflexivity; apply IH.
Qed.

Theorem get_message_core_spec flag fr st :
  interp orc cfg run (get_message_core flag) fr st =
    match msg_of flag (st_cache st) with Some m => Done m fr st | None => Raised TypeError fr st end.
Proof. unfold get_message_core, msg_of. apply msg_go_pure. Qed.

(* ---- permitted flags: the eight explicit bit tests = "flag is a subset of allowed" (all 65536 pairs) ---- *)
Definition zrange (n : nat) : list Z := map Z.of_nat (seq 0 n).
Lemma flags_sweep :
  forallb (fun f => forallb (fun a => Bool.eqb (flags_permitted f a) (Z.land f (255 - a) =? 0)) (zrange 256)) (zrange 256) = true.
Proof. vm_compute. reflexivity. Qed.

Lemma in_zrange z n : 0 <= z < Z.of_nat n -> In z (zrange n).
Proof.
  intro H. unfold zrange. apply in_map_iff. exists (Z.to_nat z). split; [lia|]. apply in_seq. lia.
Qed.

Theorem flags_permitted_subset f a :
  0 <= f < 256 -> 0 <= a < 256 -> flags_permitted f a = (Z.land f (255 - a) =? 0).
Proof.
  intros Hf Ha. pose proof flags_sweep as H.
  rewrite forallb_forall in H. specialize (H f (in_zrange f 256 Hf)).
  rewrite forallb_forall in H. specialize (H a (in_zrange a 256 Ha)).
  apply Bool.eqb_prop in H. exact H.
Qed.

(* ---- OP_CHECK_SIG body: total case analysis ---- *)
Definition sig_flag (sig : bytes) : Z := if blen sig =? 64 then 0 else b2z (last sig x00).

Definition can_push (b : bytes) (rest : list bytes) : Prop :=
  (List.length b <= c_max_item_size cfg)%nat /\ (List.length rest < c_max_items cfg)%nat.

Lemma put_ok fr st rest b A (k : unit -> prog A) :
  can_push b rest -> st_stack st = rest ->
  interp orc cfg run (Act (APut b) k) fr st = interp orc cfg run (k tt) fr (with_stack st (b :: rest)).
Proof.
  intros [H1 H2] Hs. cbn [interp step]. rewrite Hs.
  destruct (c_max_item_size cfg <? List.length b)%nat eqn:E1; [apply Nat.ltb_lt in E1; lia|].
  destruct (c_max_items cfg <=? List.length rest)%nat eqn:E2; [apply Nat.leb_le in E2; lia|].
  reflexivity.
Qed.

Theorem check_sig_body_exact allowed fr st vkey sig rest :
  st_stack st = vkey :: sig :: rest ->
  interp orc cfg run (check_sig_body allowed) fr st =
    let st0 := with_stack st rest in
    if negb (blen vkey =? 32) then Raised ValueError fr st0
    else if negb ((blen sig =? 64) || (blen sig =? 65)) then Raised ValueError fr st0
    else if negb (flags_permitted (sig_flag sig) allowed) then Raised ScriptExecutionError fr st0
    else match msg_of (sig_flag sig) (st_cache st) with
         | None => Raised TypeError fr st0
         | Some m =>
           if (c_max_item_size cfg <? List.length m)%nat || (c_max_items cfg <=? List.length rest)%nat
           then Raised ScriptExecutionError fr st0
           else match orc PVerify [vkey; m; firstn 64 sig] with
                | OErr e => Raised e fr st0
                | OOk [x] =>
                  if (c_max_item_size cfg <? 1)%nat then Raised ScriptExecutionError fr st0
                  else Done tt fr (with_stack st ((if bytes_to_bool x then [xff] else [x00]) :: rest))
                | OOk _ => Unmodelled "oracle arity"
                end
         end.
Proof.
  intro Hs. unfold check_sig_body, put_bool, prim_bool, prim1, prim_list, get, put, vert, sert, act.
  cbn [bind interp step]. rewrite Hs. cbn [bind interp step st_stack with_stack]. cbv zeta.
  destruct (blen vkey =? 32); cbn [negb bind interp]; [|reflexivity].
  destruct ((blen sig =? 64) || (blen sig =? 65)); cbn [negb bind interp]; [|reflexivity].
  fold (sig_flag sig).
  destruct (flags_permitted (sig_flag sig) allowed); cbn [negb bind interp]; [|reflexivity].
  rewrite interp_bind. rewrite get_message_core_spec. cbn [st_cache with_stack].
  destruct (msg_of (sig_flag sig) (st_cache st)) as [m|]; [|reflexivity].
  cbn [bind interp step st_stack with_stack].
  destruct (c_max_item_size cfg <? List.length m)%nat; [reflexivity|].
  destruct (c_max_items cfg <=? List.length rest)%nat eqn:E; [reflexivity|].
  cbn [orb bind interp step st_stack with_stack].
  destruct (orc PVerify [vkey; m; firstn 64 sig]) as [[|x [|y l]]|e]; cbn [bind interp step].
  - reflexivity.
  - destruct (bytes_to_bool x); cbn [interp step st_stack with_stack]; simpl List.length;
      destruct (c_max_item_size cfg <? 1)%nat; try reflexivity;
      destruct (c_max_items cfg <=? List.length rest)%nat eqn:E2; try reflexivity; discriminate.
  - reflexivity.
  - reflexivity.
Qed.

End Sig.

(* what "the check yielded true" implies, whatever the inputs: right lengths, permitted flag, and the
   oracle's verify said yes for exactly (key, flag-selected message, first 64 signature bytes) *)
Theorem check_sig_true_only_if orc cfg run allowed fr st vkey sig rest fr' st' :
  st_stack st = vkey :: sig :: rest ->
  interp orc cfg run (check_sig_body allowed) fr st = Done tt fr' st' ->
  st_stack st' = [xff] :: rest ->
  blen vkey = 32 /\ (blen sig = 64 \/ blen sig = 65) /\ flags_permitted (sig_flag sig) allowed = true /\
  exists m x, msg_of (sig_flag sig) (st_cache st) = Some m /\
              orc PVerify [vkey; m; firstn 64 sig] = OOk [x] /\ bytes_to_bool x = true.
Proof.
  intros Hs Hi Ht. rewrite (check_sig_body_exact orc cfg run allowed fr st vkey sig rest Hs) in Hi.
  cbv zeta in Hi.
  destruct (blen vkey =? 32) eqn:E1; cbn [negb] in Hi; [|discriminate].
  destruct ((blen sig =? 64) || (blen sig =? 65)) eqn:E2; cbn [negb] in Hi; [|discriminate].
  destruct (flags_permitted (sig_flag sig) allowed) eqn:E3; cbn [negb] in Hi; [|discriminate].
  destruct (msg_of (sig_flag sig) (st_cache st)) as [m|] eqn:E4; [|discriminate].
  destruct ((c_max_item_size cfg <? List.length m)%nat || (c_max_items cfg <=? List.length rest)%nat); [discriminate|].
  destruct (orc PVerify [vkey; m; firstn 64 sig]) as [[|x [|y l]]|e] eqn:E5; try discriminate.
  destruct (c_max_item_size cfg <? 1)%nat; [discriminate|].
  injection Hi as _ Hst. subst st'. cbn [st_stack with_stack] in Ht.
  split; [apply Z.eqb_eq; exact E1|]. split.
  { apply orb_true_iff in E2. destruct E2 as [E2|E2]; apply Z.eqb_eq in E2; auto. }
  split; [reflexivity|]. exists m, x. split; [reflexivity|]. split; [exact E5|].
  destruct (bytes_to_bool x); [reflexivity|]. injection Ht as Ht. discriminate.
Qed.
