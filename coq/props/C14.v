(* C14 — Delegate-key lock (tools.make_delegate_key_lock) and Certificate.pack / unpack.

   The lock is the 85 real bytes the builder emits (Builders.delegate_key_lock root fl = the documented encoding
   of its 27 instructions); the witness pushes the delegate's signature and then the 105-byte certificate
   cert = D(32) ++ begin(4) ++ end(4) ++ can(1) ++ csig(64).  For every oracle, configuration with room for
   4 items of 105 bytes and an integer "ts_threshold", every initial cache whose "timestamp" is the integer ts,
   and every fuel >= 28, run_auth_scripts [witness; lock] answers True exactly when

     1. begin <= ts, within the slack rule of OP_CHECK_TIMESTAMP      (ts_verdict (be begin) ts thr = true)
     2. NOT (end <= ts within the slack rule)                         (ts_verdict (be end) ts thr = false);
        given 1 this is exactly ts < end  (C14_end_test_meaning; without 1 the NOT also negates the slack
        clause: finding D11)
     3. the oracle's verify answers exactly one truthy item for (root, D ++ begin ++ end ++ can, csig)
     4. the delegate's signature is accepted under D for the flag-selected signature fields (C13's sig_accepts:
        permitted flag, message fits, oracle answers exactly one truthy item).

   Outcomes other than a verdict: never out of fuel; outside the model only when 1-3 hold and the oracle answers
   the final verification with a number of items other than one.  begin / end are read unsigned big-endian.
   No assumption on the rest of vals (a "returned" entry is removed by run_auth_scripts; bytes keys s, P, e, b, d
   are overwritten by the lock), on the other flags, plugins or contracts.

   Certificate: cert_pack / cert_unpack transcribe Certificate.preimage + pack / unpack (None = the method
   raises).  unpack (pack c) = c for 32-byte keys, 64-byte signatures and 0 <= begin, end < 2^31, when
   floor(log2) used by int_to_bytes is exact below 2^31 (true of Z.log2 = fl2_exact, and of the model's own
   i2b which is exact below 2^32); fl2_ok alone does not suffice (C14_fl2_ok_not_enough).
   C14_delegate_lock_packed composes both parts. *)
From Coq Require Import ZArith List Bool.
From Coq.Strings Require Import Byte String.
From TS Require Import Bytes Codec State Prog Ops Interp NopSpec StackLemmas SigSpec TimeSpec CodecProofs
  Builders BuilderSpec BuilderSpecC14 BuilderSpecC14b.
From TS Require BuilderSourcesProofs.
Import ListNotations.
Local Open Scope nat_scope.

(* ---------- the verdict ---------- *)

Theorem C14_delegate_lock_exact :
  forall (orc : oracle) (cfg : config),
  105 <= c_max_item_size cfg -> 4 <= c_max_items cfg ->
  forall (fuel : nat) (root D b e csig sig : bytes) (can fl : byte) (ts thr : Z) (vals : cache),
  28 <= fuel ->
  List.length root = 32 -> List.length D = 32 -> List.length b = 4 -> List.length e = 4 ->
  List.length csig = 64 -> (List.length sig = 64 \/ List.length sig = 65) ->
  flag_get (c_flags cfg) (FKStr (str "ts_threshold")) = Some (FVInt thr) ->
  cache_get (init_cache cfg vals) (KStr (str "timestamp")) = Some (VOne (AInt ts)) ->
  match run_auth_scripts orc cfg fuel
          [delegate_key_witness sig (D ++ b ++ e ++ [can] ++ csig); delegate_key_lock root fl] vals with
  | AuthVerdict v _ =>
      v = true <->
        ts_verdict cfg (be_to_Z b) ts thr = true /\
        ts_verdict cfg (be_to_Z e) ts thr = false /\
        (exists x, orc PVerify [root; D ++ b ++ e ++ [can]; csig] = OOk [x] /\ bytes_to_bool x = true) /\
        sig_accepts orc cfg D sig (b2z fl) (init_cache cfg vals)
  | AuthFuel => False
  | AuthUnmod _ =>
      ts_verdict cfg (be_to_Z b) ts thr = true /\
      ts_verdict cfg (be_to_Z e) ts thr = false /\
      (exists x, orc PVerify [root; D ++ b ++ e ++ [can]; csig] = OOk [x] /\ bytes_to_bool x = true) /\
      exists m l, msg_of (sig_flag sig) (init_cache cfg vals) = Some m /\
                  orc PVerify [D; m; firstn 64 sig] = OOk l /\ List.length l <> 1
  end.
Proof. exact delegate_lock_exact_fuel. Qed.

Theorem C14_delegate_lock_true_iff :
  forall (orc : oracle) (cfg : config),
  105 <= c_max_item_size cfg -> 4 <= c_max_items cfg ->
  forall (fuel : nat) (root D b e csig sig : bytes) (can fl : byte) (ts thr : Z) (vals : cache),
  28 <= fuel ->
  List.length root = 32 -> List.length D = 32 -> List.length b = 4 -> List.length e = 4 ->
  List.length csig = 64 -> (List.length sig = 64 \/ List.length sig = 65) ->
  flag_get (c_flags cfg) (FKStr (str "ts_threshold")) = Some (FVInt thr) ->
  cache_get (init_cache cfg vals) (KStr (str "timestamp")) = Some (VOne (AInt ts)) ->
  ((exists stf, run_auth_scripts orc cfg fuel
       [delegate_key_witness sig (D ++ b ++ e ++ [can] ++ csig); delegate_key_lock root fl] vals
       = AuthVerdict true stf)
   <->
   ts_verdict cfg (be_to_Z b) ts thr = true /\
   ts_verdict cfg (be_to_Z e) ts thr = false /\
   (exists x, orc PVerify [root; D ++ b ++ e ++ [can]; csig] = OOk [x] /\ bytes_to_bool x = true) /\
   (flags_permitted (sig_flag sig) (b2z fl) = true /\
    exists m x, msg_of (sig_flag sig) (init_cache cfg vals) = Some m /\
                List.length m <= c_max_item_size cfg /\
                orc PVerify [D; m; firstn 64 sig] = OOk [x] /\ bytes_to_bool x = true)).
Proof. exact delegate_lock_true_iff_fuel. Qed.

(* the second condition, read with the first *)
Theorem C14_end_test_meaning :
  forall cfg cb ce ts thr,
  ts_verdict cfg cb ts thr = true -> (ts_verdict cfg ce ts thr = false <-> (ts < ce)%Z).
Proof. exact end_test_meaning. Qed.

(* the bytes *)
Theorem C14_lock_bytes :
  forall root fl,
  delegate_key_lock root fl =
    [x02;x29; x38; x09;x01;x73;x01; x1d; x02;x28; x38; x06; x02;x24; x38; x09;x01;x65;x01;
     x02;x20; x38; x09;x01;x62;x01; x09;x01;x64;x01; x0a;x01;x62; x26; x0a;x01;x65; x25; x2e; x20;
     x0a;x01;x73; x35; x03] ++ z2b (blen root) :: root ++ [x4a; x20; x0a;x01;x64; x23;fl].
Proof. exact delegate_key_lock_bytes. Qed.

(* ---------- instruction level (the steps the verdict is assembled from) ---------- *)

Theorem C14_split_exact :
  forall orc cfg run fr st i a r s,
  st_stack st = [i] :: (a ++ r) :: s ->
  (b2z i < 128)%Z -> Z.to_nat (b2z i) = List.length a -> r <> [] ->
  fits cfg a -> fits cfg r -> S (List.length s) < c_max_items cfg ->
  interp orc cfg run OP_SPLIT fr st = Done tt fr (with_stack st (r :: a :: s)).
Proof. exact split_exec. Qed.

Theorem C14_write_cache_exact :
  forall orc cfg run fr st k rest x s,
  data_at fr st = x01 :: k :: x01 :: rest -> st_stack st = x :: s ->
  interp orc cfg run OP_WRITE_CACHE fr st =
    Done tt {| fr_tid := fr_tid fr; fr_ptr := fr_ptr fr + 3 |}
         (with_cache (with_stack st s) (cache_set (st_cache st) (KBytes [k]) (VMany [ABytes x]))).
Proof. exact write_cache1_exec. Qed.

Theorem C14_read_cache_exact :
  forall orc cfg run fr st k rest v s,
  data_at fr st = x01 :: k :: rest ->
  cache_get (st_cache st) (KBytes [k]) = Some (VMany [ABytes v]) ->
  st_stack st = s -> fits cfg v -> space cfg s ->
  interp orc cfg run OP_READ_CACHE fr st =
    Done tt {| fr_tid := fr_tid fr; fr_ptr := fr_ptr fr + 2 |} (with_stack st (v :: s)).
Proof. exact read_cache1_exec. Qed.

Theorem C14_check_sig_stack_exact :
  forall orc cfg run fr st vkey msg sig s,
  st_stack st = vkey :: msg :: sig :: s -> List.length vkey = 32 -> List.length sig = 64 -> room cfg s ->
  interp orc cfg run OP_CHECK_SIG_STACK fr st =
    Done tt fr (with_stack st
      (boolb (match orc PVerify [vkey; msg; sig] with OOk [x] => bytes_to_bool x | _ => false end) :: s)).
Proof. exact check_sig_stack_exec. Qed.

(* ---------- the certificate ---------- *)

Theorem C14_cert_roundtrip :
  forall (fl2 : Z -> Z) (D : bytes) (b e : Z) (can : bool) (csig : bytes),
  (forall a, (0 < a < 2 ^ 31)%Z -> fl2 a = Z.log2 a) ->
  List.length D = 32 -> List.length csig = 64 -> (0 <= b < 2 ^ 31)%Z -> (0 <= e < 2 ^ 31)%Z ->
  exists p, cert_pack fl2 D b e can csig = Some p /\ List.length p = 105 /\
            cert_unpack p = Some (D, b, e, can, csig).
Proof. exact cert_roundtrip. Qed.

Theorem C14_cert_roundtrip_exact_log2 :
  forall (D : bytes) (b e : Z) (can : bool) (csig : bytes),
  List.length D = 32 -> List.length csig = 64 -> (0 <= b < 2 ^ 31)%Z -> (0 <= e < 2 ^ 31)%Z ->
  exists p, cert_pack fl2_exact D b e can csig = Some p /\ List.length p = 105 /\
            cert_unpack p = Some (D, b, e, can, csig).
Proof. exact cert_roundtrip_exact. Qed.

(* the serialisation has the five fields at the offsets the lock splits at, timestamps big-endian *)
Theorem C14_cert_pack_shape :
  forall (fl2 : Z -> Z) (D : bytes) (b e : Z) (can : bool) (csig : bytes),
  (forall a, (0 < a < 2 ^ 31)%Z -> fl2 a = Z.log2 a) ->
  List.length D = 32 -> List.length csig = 64 -> (0 <= b < 2 ^ 31)%Z -> (0 <= e < 2 ^ 31)%Z ->
  exists bb eb,
    cert_pack fl2 D b e can csig = Some (D ++ bb ++ eb ++ [if can then xff else x00] ++ csig) /\
    List.length bb = 4 /\ List.length eb = 4 /\
    be_to_Z bb = b /\ be_to_Z eb = e /\ bytes_to_int bb = Some b /\ bytes_to_int eb = Some e.
Proof. exact cert_pack_shape. Qed.

(* left-padding with zero bytes keeps the value *)
Theorem C14_zero_pad_value : forall n l, be_to_Z (repeat x00 n ++ l) = be_to_Z l.
Proof. exact be_to_Z_zero_pad. Qed.

Theorem C14_fl2_ok_not_enough :
  exists fl2, fl2_ok fl2 /\
    exists p, cert_pack fl2 (repeat x00 32) (2 ^ 30) 0 true (repeat x00 64) = Some p /\ cert_unpack p = None.
Proof. exact fl2_ok_not_enough. Qed.

(* ---------- both: the lock on a packed certificate ---------- *)

Theorem C14_delegate_lock_packed :
  forall (orc : oracle) (cfg : config),
  105 <= c_max_item_size cfg -> 4 <= c_max_items cfg ->
  forall (fl2 : Z -> Z) (fuel : nat)
         (root D : bytes) (bts ets : Z) (can : bool) (csig sig : bytes) (fl : byte) (ts thr : Z) (vals : cache),
  (forall a, (0 < a < 2 ^ 31)%Z -> fl2 a = Z.log2 a) -> 28 <= fuel ->
  List.length root = 32 -> List.length D = 32 -> List.length csig = 64 ->
  (0 <= bts < 2 ^ 31)%Z -> (0 <= ets < 2 ^ 31)%Z ->
  (List.length sig = 64 \/ List.length sig = 65) ->
  flag_get (c_flags cfg) (FKStr (str "ts_threshold")) = Some (FVInt thr) ->
  cache_get (init_cache cfg vals) (KStr (str "timestamp")) = Some (VOne (AInt ts)) ->
  exists pre cert,
    cert_preimage fl2 D bts ets can = Some pre /\ cert_pack fl2 D bts ets can csig = Some cert /\
    ((exists stf, run_auth_scripts orc cfg fuel [delegate_key_witness sig cert; delegate_key_lock root fl] vals
                  = AuthVerdict true stf)
     <-> ts_verdict cfg bts ts thr = true /\ (ts < ets)%Z /\
         (exists x, orc PVerify [root; pre; csig] = OOk [x] /\ bytes_to_bool x = true) /\
         sig_accepts orc cfg D sig (b2z fl) (init_cache cfg vals)).
Proof. exact delegate_lock_packed. Qed.

(* ---------- the premises are satisfiable; the model run gives the predicted verdict ---------- *)

Definition toy_orc : oracle := fun p _ => match p with PVerify => OOk [[x01]] | _ => OErr OtherError end.
Definition toy_cfg (now : Z) : config :=
  {| c_max_items := 1024; c_max_item_size := 1024; c_limit := 64;
     c_flags := [(FKStr (str "ts_threshold"), FVInt 60)];
     c_sigext := []; c_ctplugins := []; c_contracts := []; c_now := now |}.
Definition toy_root : bytes := repeat x44 32.
Definition toy_D : bytes := repeat x11 32.
Definition toy_begin : bytes := [x00; x00; x03; x84].     (* 900 *)
Definition toy_end : bytes := [x00; x00; x04; x4c].       (* 1100 *)
Definition toy_csig : bytes := repeat x22 64.
Definition toy_sig : bytes := repeat x33 64.
Definition toy_scripts : list bytes :=
  [delegate_key_witness toy_sig (toy_D ++ toy_begin ++ toy_end ++ [xff] ++ toy_csig); delegate_key_lock toy_root x00].

Definition verdict_of (r : auth_result) : option bool :=
  match r with AuthVerdict v _ => Some v | _ => None end.

(* now = 1000 (the default "timestamp"): 900 <= 1000 < 1100 *)
Example C14_example_inside :
  verdict_of (run_auth_scripts toy_orc (toy_cfg 1000) 28 toy_scripts []) = Some true.
Proof. vm_compute. reflexivity. Qed.

(* the right-hand side of C14_delegate_lock_true_iff holds for these values (so the theorem predicts True) *)
Example C14_example_predicted :
  ts_verdict (toy_cfg 1000) (be_to_Z toy_begin) 1000 60 = true /\
  ts_verdict (toy_cfg 1000) (be_to_Z toy_end) 1000 60 = false /\
  (exists x, toy_orc PVerify [toy_root; toy_D ++ toy_begin ++ toy_end ++ [xff]; toy_csig] = OOk [x] /\
             bytes_to_bool x = true) /\
  sig_accepts toy_orc (toy_cfg 1000) toy_D toy_sig (b2z x00) (init_cache (toy_cfg 1000) []).
Proof.
  split; [vm_compute; reflexivity|]. split; [vm_compute; reflexivity|].
  split; [exists [x01]; split; reflexivity|].
  split; [vm_compute; reflexivity|].
  exists [], [x01]. split; [vm_compute; reflexivity|]. split; [vm_compute; apply Nat.le_0_l|].
  split; reflexivity.
Qed.

(* and the other premises of the theorem *)
Example C14_example_premises :
  105 <= c_max_item_size (toy_cfg 1000) /\ 4 <= c_max_items (toy_cfg 1000) /\
  List.length toy_root = 32 /\ List.length toy_D = 32 /\ List.length toy_begin = 4 /\ List.length toy_end = 4 /\
  List.length toy_csig = 64 /\ List.length toy_sig = 64 /\
  flag_get (c_flags (toy_cfg 1000)) (FKStr (str "ts_threshold")) = Some (FVInt 60) /\
  cache_get (init_cache (toy_cfg 1000) []) (KStr (str "timestamp")) = Some (VOne (AInt 1000)).
Proof. vm_compute. repeat split; repeat constructor. Qed.

(* at the end of the window (t = 1100) and before its beginning (t = 899): False *)
Example C14_example_at_end :
  verdict_of (run_auth_scripts toy_orc (toy_cfg 1100) 28 toy_scripts []) = Some false.
Proof. vm_compute. reflexivity. Qed.
Example C14_example_before_begin :
  verdict_of (run_auth_scripts toy_orc (toy_cfg 899) 28 toy_scripts []) = Some false.
Proof. vm_compute. reflexivity. Qed.
(* last second of the window *)
Example C14_example_last_second :
  verdict_of (run_auth_scripts toy_orc (toy_cfg 1099) 28 toy_scripts []) = Some true.
Proof. vm_compute. reflexivity. Qed.

(* a certificate packed by the transcription of Certificate.pack is the byte string used above *)
Example C14_example_pack :
  cert_pack fl2_exact toy_D 900 1100 true toy_csig = Some (toy_D ++ toy_begin ++ toy_end ++ [xff] ++ toy_csig) /\
  cert_unpack (toy_D ++ toy_begin ++ toy_end ++ [xff] ++ toy_csig) = Some (toy_D, 900%Z, 1100%Z, true, toy_csig).
Proof. split; vm_compute; reflexivity. Qed.

(* ---------------- the chain lock (proofs/BuilderSpecC14b.v), on the real bytes, for chains of ANY length ----------------
   init = the non-final certificates in the order the lock consumes them (the first is signed by the root), cn = the
   last one; pack = Certificate.pack.  chain_accepts unfolds (chain_pred) to: every certificate verifies under the
   previous key (the first under root) and is inside its window at t; every non-final certificate's may-delegate byte
   is non-zero; the final signature is accepted under the last delegate key. *)
Theorem C14_chain_lock_exact :
  forall orc cfg, 105 <= c_max_item_size cfg ->
  forall fl ts thr, flag_get (c_flags cfg) thr_key = Some (FVInt thr) ->
  forall sig, (List.length sig = 64 \/ List.length sig = 65) ->
  forall root, List.length root = 32 ->
  forall (init : list cert) (cn : cert) (f : nat) (vals : cache),
  Forall cert_wf init -> cert_wf cn ->
  2 * S (List.length init) + 3 <= c_max_items cfg ->
  (Z.of_nat (S (List.length init)) <= c_limit cfg)%Z ->
  cache_get (init_cache cfg vals) ts_key = Some (VOne (AInt ts)) ->
  match run_auth_scripts orc cfg (31 * S (List.length init) + 4 + f)
          [delegate_key_chain_witness sig (pack cn) (map pack (rev init)); delegate_key_chain_lock root fl] vals with
  | AuthVerdict v _ => v = true <-> chain_accepts orc cfg fl ts thr sig root (init_cache cfg vals) init cn
  | AuthFuel => False
  | AuthUnmod _ => chain_unmod orc cfg ts thr sig root (init_cache cfg vals) init cn
  end.
Proof. exact chain_lock_exact. Qed.

(* what chain_accepts says, by cases on the chain *)
Theorem C14_chain_accepts_meaning :
  forall orc cfg fl ts thr sig root c0 cn,
  (chain_accepts orc cfg fl ts thr sig root c0 [] cn <->
     cert_ok orc cfg ts thr root cn /\ sig_accepts orc cfg (cD cn) sig (b2z fl) c0) /\
  (forall ci init,
   chain_accepts orc cfg fl ts thr sig root c0 (ci :: init) cn <->
     cert_ok orc cfg ts thr root ci /\ ccan ci <> x00 /\
     chain_accepts orc cfg fl ts thr sig (cD ci) c0 init cn).
Proof. intros. split; [|intros ci init]; unfold chain_accepts; simpl; tauto. Qed.

(* a chain longer than the call-stack limit is always refused: the budget condition of the theorem is exact *)
Theorem C14_chain_lock_over_budget :
  forall orc cfg, 105 <= c_max_item_size cfg ->
  forall fl ts thr, flag_get (c_flags cfg) thr_key = Some (FVInt thr) ->
  forall sig, (List.length sig = 64 \/ List.length sig = 65) ->
  forall root, List.length root = 32 ->
  forall (init : list cert) (cn : cert) (f : nat) (vals : cache),
  Forall cert_wf init -> cert_wf cn ->
  2 * S (List.length init) + 3 <= c_max_items cfg ->
  (c_limit cfg < Z.of_nat (S (List.length init)))%Z ->
  cache_get (init_cache cfg vals) ts_key = Some (VOne (AInt ts)) ->
  match run_auth_scripts orc cfg (31 * S (List.length init) + 4 + f)
          [delegate_key_chain_witness sig (pack cn) (map pack (rev init)); delegate_key_chain_lock root fl] vals with
  | AuthVerdict v _ => v = false
  | _ => False
  end.
Proof. exact chain_lock_over_budget. Qed.

(* observations proved on a toy oracle (and reproduced on the implementation): the LAST certificate's may-delegate byte is
   never looked at; a non-final certificate with byte 00 ends the chain (the next certificate is then taken for a
   signature and refused); ANY non-zero byte lets the chain go on, while Certificate.unpack reads only ff as True *)
Definition C14_chain_observations := (dk_last_can_ignored, dk_terminal_cannot_delegate, dk_can_01_delegates, dk_flag_lies).

Print Assumptions C14_chain_lock_exact.
Print Assumptions C14_chain_accepts_meaning.
Print Assumptions C14_chain_lock_over_budget.
Print Assumptions C14_chain_observations.
(* ---------- the delegation builders as SOURCE (model/BuilderSources.v mirrors the f-string templates of tools.py token for token — 83 Examples
   against the real .src / .bytes; proofs/BuilderSourcesProofs.v: the template TEXT compiles, for all arguments, to the bytes of
   model/Builders.v that the theorems above are about; closed statements printed by Check) ---------- *)
Definition C14_src_delegate_key_lock_compiles := @BuilderSourcesProofs.delegate_key_lock_compiles.
Definition C14_src_delegate_key_chain_lock_compiles := @BuilderSourcesProofs.delegate_key_chain_lock_compiles.
Definition C14_src_delegate_key_witness_compiles := @BuilderSourcesProofs.delegate_key_witness_compiles.
Definition C14_src_delegate_key_chain_witness_compiles := @BuilderSourcesProofs.delegate_key_chain_witness_compiles.
Check C14_src_delegate_key_lock_compiles.
Check C14_src_delegate_key_chain_lock_compiles.
Check C14_src_delegate_key_witness_compiles.
Print Assumptions C14_src_delegate_key_lock_compiles.
Print Assumptions C14_src_delegate_key_chain_lock_compiles.
Print Assumptions C14_src_delegate_key_witness_compiles.
Print Assumptions C14_src_delegate_key_chain_witness_compiles.

Print Assumptions C14_delegate_lock_exact.
Print Assumptions C14_delegate_lock_true_iff.
Print Assumptions C14_end_test_meaning.
Print Assumptions C14_lock_bytes.
Print Assumptions C14_split_exact.
Print Assumptions C14_write_cache_exact.
Print Assumptions C14_read_cache_exact.
Print Assumptions C14_check_sig_stack_exact.
Print Assumptions C14_cert_roundtrip.
Print Assumptions C14_cert_roundtrip_exact_log2.
Print Assumptions C14_cert_pack_shape.
Print Assumptions C14_zero_pad_value.
Print Assumptions C14_fl2_ok_not_enough.
Print Assumptions C14_delegate_lock_packed.
Print Assumptions C14_example_inside.
Print Assumptions C14_example_predicted.
