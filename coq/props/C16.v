(* C16 — Time constraints accept exactly their documented window (instruction level).
   For every oracle, configuration, frame, state: the exact result of OP_CHECK_TIMESTAMP / OP_CHECK_EPOCH
   and their _VERIFY forms, including the error cases. [be_to_Z c] is the unsigned big-endian value of the
   constraint. Lock builders (after / before / between): exact verdict of run_auth_scripts on the builders' real
   bytes (Builders.v, tied to tools.py by correspondence); the before-lock theorem documents known finding D11. *)
From Coq Require Import ZArith List.
From Coq.Strings Require Import Byte.
From TS Require Import Bytes State Prog Ops Interp TimeSpec TablesCheck Builders LockSpecC16.
From TS Require BuilderSourcesProofs.
Import ListNotations.
Open Scope Z_scope.

Theorem C16_check_timestamp_exact :
  forall orc cfg run fr st c rest ts thr,
  st_stack st = c :: rest -> c <> [] ->
  cache_get (st_cache st) ts_key = Some (VOne (AInt ts)) ->
  flag_get (c_flags cfg) thr_key = Some (FVInt thr) ->
  room cfg rest ->
  interp orc cfg run OP_CHECK_TIMESTAMP fr st =
    Done tt fr (with_stack st (boolb (ts_verdict cfg (be_to_Z c) ts thr) :: rest)).
Proof. exact check_timestamp_spec. Qed.

(* the verdict is literally: t >= c and (threshold <= 0 or t - now < threshold) *)
Theorem C16_verdict_formula :
  forall cfg c ts thr, ts_verdict cfg c ts thr = true <-> (c <= ts /\ (thr <= 0 \/ ts - c_now cfg < thr)).
Proof.
  intros. unfold ts_verdict. rewrite Bool.andb_true_iff, Bool.orb_true_iff, Z.leb_le, Z.leb_le, Z.ltb_lt. tauto.
Qed.

Theorem C16_check_timestamp_verify_exact :
  forall orc cfg run fr st c rest ts thr,
  st_stack st = c :: rest -> c <> [] ->
  cache_get (st_cache st) ts_key = Some (VOne (AInt ts)) ->
  flag_get (c_flags cfg) thr_key = Some (FVInt thr) ->
  room cfg rest ->
  interp orc cfg run OP_CHECK_TIMESTAMP_VERIFY fr st =
    if ts_verdict cfg (be_to_Z c) ts thr then Done tt fr (with_stack st rest)
    else Raised ScriptExecutionError fr (with_stack st rest).
Proof. exact check_timestamp_verify_spec. Qed.

Theorem C16_check_epoch_exact :
  forall orc cfg run fr st c rest thr,
  st_stack st = c :: rest -> c <> [] ->
  flag_get (c_flags cfg) ethr_key = Some (FVInt thr) -> 0 <= thr ->
  room cfg rest ->
  interp orc cfg run OP_CHECK_EPOCH fr st =
    Done tt fr (with_stack st (boolb (epoch_verdict cfg (be_to_Z c) thr) :: rest)).
Proof. exact check_epoch_spec. Qed.

Theorem C16_epoch_formula :
  forall cfg c thr, epoch_verdict cfg c thr = true <-> c - c_now cfg < thr.
Proof. intros. unfold epoch_verdict. apply Z.ltb_lt. Qed.

Theorem C16_check_epoch_verify_exact :
  forall orc cfg run fr st c rest thr,
  st_stack st = c :: rest -> c <> [] ->
  flag_get (c_flags cfg) ethr_key = Some (FVInt thr) -> 0 <= thr ->
  room cfg rest ->
  interp orc cfg run OP_CHECK_EPOCH_VERIFY fr st =
    if epoch_verdict cfg (be_to_Z c) thr then Done tt fr (with_stack st rest)
    else Raised ScriptExecutionError fr (with_stack st rest).
Proof. exact check_epoch_verify_spec. Qed.

Theorem C16_malformed_is_error :
  forall orc cfg run fr st rest,
  st_stack st = [] :: rest ->
  interp orc cfg run OP_CHECK_TIMESTAMP fr st = Raised ScriptExecutionError fr (with_stack st rest).
Proof. exact check_timestamp_empty_constraint. Qed.

Theorem C16_bad_cache_timestamp_is_error :
  forall orc cfg run fr st c rest,
  st_stack st = c :: rest -> c <> [] ->
  (forall ts, cache_get (st_cache st) ts_key <> Some (VOne (AInt ts))) ->
  interp orc cfg run OP_CHECK_TIMESTAMP fr st = Raised ScriptExecutionError fr (with_stack st rest).
Proof. exact check_timestamp_bad_cache. Qed.

Theorem C16_bad_threshold_is_error :
  forall orc cfg run fr st c rest ts,
  st_stack st = c :: rest -> c <> [] ->
  cache_get (st_cache st) ts_key = Some (VOne (AInt ts)) ->
  (forall thr, flag_get (c_flags cfg) thr_key <> Some (FVInt thr)) ->
  interp orc cfg run OP_CHECK_TIMESTAMP fr st = Raised ScriptExecutionError fr (with_stack st rest).
Proof. exact check_timestamp_bad_threshold. Qed.

(* the hypotheses are satisfiable with the default configuration (generated from the live package) *)
Example C16_nonvacuous :
  let cfg := default_config 1000 in
  flag_get (c_flags cfg) thr_key = Some (FVInt 60) /\ flag_get (c_flags cfg) ethr_key = Some (FVInt 60)
  /\ room cfg [] /\ ts_verdict cfg 900 1059 60 = true /\ ts_verdict cfg 900 1060 60 = false
  /\ ts_verdict cfg 900 899 60 = false.
Proof. vm_compute. repeat split; try reflexivity; try discriminate; (repeat constructor). Qed.

(* D11: 'CHECK_TIMESTAMP ; NOT' (the timestamp-before lock) is not "t < ts": it also accepts t >= ts beyond the slack *)
Theorem C16_before_lock_refuted :
  exists cfg c ts thr, 0 < thr /\ negb (ts_verdict cfg c ts thr) = true /\ c <= ts.
Proof.
  exists (default_config 0), 30, 60, 60. vm_compute. repeat split; discriminate.
Qed.

(* ---- the lock builders, on their real bytes; c = int_to_bytes(ts), 2..255 bytes ---- *)
Theorem C16_after_lock_exact :
  forall orc cfg ts thr f c vals,
  flag_get (c_flags cfg) thr_key = Some (FVInt thr) ->
  (2 <= List.length c <= 255 /\ List.length c <= c_max_item_size cfg)%nat -> (1 <= c_max_items cfg)%nat ->
  cache_get (init_cache cfg vals) ts_key = Some (VOne (AInt ts)) ->
  match run_auth_scripts orc cfg (S (S (S f))) [ts_after_lock c false] vals with
  | AuthVerdict b _ => b = true <-> (be_to_Z c <= ts /\ (thr <= 0 \/ ts - c_now cfg < thr))
  | _ => False
  end.
Proof. exact ts_after_accepts_iff. Qed.

Theorem C16_between_lock_exact :
  forall orc cfg ts thr f c1 c2 vals,
  flag_get (c_flags cfg) thr_key = Some (FVInt thr) ->
  (2 <= List.length c1 <= 255 /\ List.length c1 <= c_max_item_size cfg)%nat ->
  (2 <= List.length c2 <= 255 /\ List.length c2 <= c_max_item_size cfg)%nat -> (1 <= c_max_items cfg)%nat ->
  cache_get (init_cache cfg vals) ts_key = Some (VOne (AInt ts)) ->
  match run_auth_scripts orc cfg (S (S (S (S (S (S f)))))) [ts_between_lock c1 c2 false] vals with
  | AuthVerdict b _ =>
    b = true <-> (be_to_Z c1 <= ts /\ (thr <= 0 \/ ts - c_now cfg < thr) /\ ts < be_to_Z c2)
  | _ => False
  end.
Proof. exact ts_between_accepts_iff. Qed.

(* D11: the before lock accepts t < ts, but ALSO every t that is beyond the slack *)
Theorem C16_before_lock_exact_D11 :
  forall orc cfg ts thr f c vals,
  flag_get (c_flags cfg) thr_key = Some (FVInt thr) ->
  (2 <= List.length c <= 255 /\ List.length c <= c_max_item_size cfg)%nat -> (1 <= c_max_items cfg)%nat ->
  cache_get (init_cache cfg vals) ts_key = Some (VOne (AInt ts)) ->
  match run_auth_scripts orc cfg (S (S (S (S f)))) [ts_before_lock c false] vals with
  | AuthVerdict b _ => b = true <-> (ts < be_to_Z c \/ (0 < thr /\ thr <= ts - c_now cfg))
  | _ => False
  end.
Proof. exact ts_before_accepts_iff. Qed.

Theorem C16_after_verify_lock_exact :
  forall orc cfg ts thr f c vals,
  flag_get (c_flags cfg) thr_key = Some (FVInt thr) ->
  (2 <= List.length c <= 255 /\ List.length c <= c_max_item_size cfg)%nat -> (2 <= c_max_items cfg)%nat ->
  cache_get (init_cache cfg vals) ts_key = Some (VOne (AInt ts)) ->
  match run_auth_scripts orc cfg (S (S (S f))) [[x01]; ts_after_lock c true] vals with
  | AuthVerdict b _ => b = true <-> (be_to_Z c <= ts /\ (thr <= 0 \/ ts - c_now cfg < thr))
  | _ => False
  end.
Proof. exact ts_after_verify_accepts_iff. Qed.

Theorem C16_between_verify_lock_exact :
  forall orc cfg ts thr f c1 c2 vals,
  flag_get (c_flags cfg) thr_key = Some (FVInt thr) ->
  (2 <= List.length c1 <= 255 /\ List.length c1 <= c_max_item_size cfg)%nat ->
  (2 <= List.length c2 <= 255 /\ List.length c2 <= c_max_item_size cfg)%nat -> (2 <= c_max_items cfg)%nat ->
  cache_get (init_cache cfg vals) ts_key = Some (VOne (AInt ts)) ->
  match run_auth_scripts orc cfg (S (S (S (S (S (S (S f))))))) [[x01]; ts_between_lock c1 c2 true] vals with
  | AuthVerdict b _ =>
    b = true <-> (be_to_Z c1 <= ts /\ (thr <= 0 \/ ts - c_now cfg < thr) /\ ts < be_to_Z c2)
  | _ => False
  end.
Proof. exact ts_between_verify_accepts_iff. Qed.

(* ---------- the timestamp lock builders as SOURCE (model/BuilderSources.v mirrors the f-string templates of tools.py token for token — 83 Examples
   against the real .src / .bytes; proofs/BuilderSourcesProofs.v: the template TEXT compiles, for all arguments, to the bytes of
   model/Builders.v that the theorems above are about; closed statements printed by Check) ---------- *)
Definition C16_src_ts_after_lock_compiles := @BuilderSourcesProofs.ts_after_lock_compiles.
Definition C16_src_ts_before_lock_compiles := @BuilderSourcesProofs.ts_before_lock_compiles.
Definition C16_src_ts_between_lock_compiles := @BuilderSourcesProofs.ts_between_lock_compiles.
Check C16_src_ts_after_lock_compiles.
Check C16_src_ts_before_lock_compiles.
Check C16_src_ts_between_lock_compiles.
Print Assumptions C16_src_ts_after_lock_compiles.
Print Assumptions C16_src_ts_before_lock_compiles.
Print Assumptions C16_src_ts_between_lock_compiles.

Print Assumptions C16_check_timestamp_exact.
Print Assumptions C16_after_lock_exact.
Print Assumptions C16_between_lock_exact.
Print Assumptions C16_before_lock_exact_D11.
Print Assumptions C16_after_verify_lock_exact.
Print Assumptions C16_between_verify_lock_exact.
Print Assumptions C16_verdict_formula.
Print Assumptions C16_check_timestamp_verify_exact.
Print Assumptions C16_check_epoch_exact.
Print Assumptions C16_check_epoch_verify_exact.
Print Assumptions C16_malformed_is_error.
Print Assumptions C16_bad_cache_timestamp_is_error.
Print Assumptions C16_bad_threshold_is_error.
Print Assumptions C16_before_lock_refuted.
