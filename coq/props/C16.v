(* C16 — Time constraints accept exactly their documented window (instruction level).
   For every oracle, configuration, frame, state: the exact result of OP_CHECK_TIMESTAMP / OP_CHECK_EPOCH
   and their _VERIFY forms, including the error cases. [be_to_Z c] is the unsigned big-endian value of the
   constraint. Lock builders (after / before / between) are covered at bytecode level by the correspondence
   stream and the boundary grid; D11 (before-lock negates the slack clause) is a known finding. *)
From Coq Require Import ZArith List.
From Coq.Strings Require Import Byte.
From TS Require Import Bytes State Prog Ops Interp TimeSpec TablesCheck.
Import ListNotations.
Open Scope Z_scope.

Theorem C16_check_timestamp_exact :
  forall orc cfg run fr st c rest ts thr,
  st_stack st = c :: rest -> c <> [] ->
  cache_get (st_cache st) ts_key = Some (VOne (AInt ts)) ->
  flag_get (c_flags cfg) thr_key = Some (FVInt thr) ->
  room cfg rest ->
  interp orc cfg run OP_CHECK_TIMESTAMP fr st =
    Done tt fr (with_stack st (boolb (ts_verdict cfg (be_to_Z c) ts thr) :: rest)).
Proof. exact check_timestamp_spec. Qed.

(* the verdict is literally: t >= c and (threshold <= 0 or t - now < threshold) *)
Theorem C16_verdict_formula :
  forall cfg c ts thr, ts_verdict cfg c ts thr = true <-> (c <= ts /\ (thr <= 0 \/ ts - c_now cfg < thr)).
Proof.
  intros. unfold ts_verdict. rewrite Bool.andb_true_iff, Bool.orb_true_iff, Z.leb_le, Z.leb_le, Z.ltb_lt. tauto.
Qed.

Theorem C16_check_timestamp_verify_exact :
  forall orc cfg run fr st c rest ts thr,
  st_stack st = c :: rest -> c <> [] ->
  cache_get (st_cache st) ts_key = Some (VOne (AInt ts)) ->
  flag_get (c_flags cfg) thr_key = Some (FVInt thr) ->
  room cfg rest ->
  interp orc cfg run OP_CHECK_TIMESTAMP_VERIFY fr st =
    if ts_verdict cfg (be_to_Z c) ts thr then Done tt fr (with_stack st rest)
    else Raised ScriptExecutionError fr (with_stack st rest).
Proof. exact check_timestamp_verify_spec. Qed.

Theorem C16_check_epoch_exact :
  forall orc cfg run fr st c rest thr,
  st_stack st = c :: rest -> c <> [] ->
  flag_get (c_flags cfg) ethr_key = Some (FVInt thr) -> 0 <= thr ->
  room cfg rest ->
  interp orc cfg run OP_CHECK_EPOCH fr st =
    Done tt fr (with_stack st (boolb (epoch_verdict cfg (be_to_Z c) thr) :: rest)).
Proof. exact check_epoch_spec. Qed.

Theorem C16_epoch_formula :
  forall cfg c thr, epoch_verdict cfg c thr = true <-> c - c_now cfg < thr.
Proof. intros. unfold epoch_verdict. apply Z.ltb_lt. Qed.

Theorem C16_check_epoch_verify_exact :
  forall orc cfg run fr st c rest thr,
  st_stack st = c :: rest -> c <> [] ->
  flag_get (c_flags cfg) ethr_key = Some (FVInt thr) -> 0 <= thr ->
  room cfg rest ->
  interp orc cfg run OP_CHECK_EPOCH_VERIFY fr st =
    if epoch_verdict cfg (be_to_Z c) thr then Done tt fr (with_stack st rest)
    else Raised ScriptExecutionError fr (with_stack st rest).
Proof. exact check_epoch_verify_spec. Qed.

Theorem C16_malformed_is_error :
  forall orc cfg run fr st rest,
  st_stack st = [] :: rest ->
  interp orc cfg run OP_CHECK_TIMESTAMP fr st = Raised ScriptExecutionError fr (with_stack st rest).
Proof. exact check_timestamp_empty_constraint. Qed.

Theorem C16_bad_cache_timestamp_is_error :
  forall orc cfg run fr st c rest,
  st_stack st = c :: rest -> c <> [] ->
  (forall ts, cache_get (st_cache st) ts_key <> Some (VOne (AInt ts))) ->
  interp orc cfg run OP_CHECK_TIMESTAMP fr st = Raised ScriptExecutionError fr (with_stack st rest).
Proof. exact check_timestamp_bad_cache. Qed.

Theorem C16_bad_threshold_is_error :
  forall orc cfg run fr st c rest ts,
  st_stack st = c :: rest -> c <> [] ->
  cache_get (st_cache st) ts_key = Some (VOne (AInt ts)) ->
  (forall thr, flag_get (c_flags cfg) thr_key <> Some (FVInt thr)) ->
  interp orc cfg run OP_CHECK_TIMESTAMP fr st = Raised ScriptExecutionError fr (with_stack st rest).
Proof. exact check_timestamp_bad_threshold. Qed.

(* the hypotheses are satisfiable with the default configuration (generated from the live package) *)
Example C16_nonvacuous :
  let cfg := default_config 1000 in
  flag_get (c_flags cfg) thr_key = Some (FVInt 60) /\ flag_get (c_flags cfg) ethr_key = Some (FVInt 60)
  /\ room cfg [] /\ ts_verdict cfg 900 1059 60 = true /\ ts_verdict cfg 900 1060 60 = false
  /\ ts_verdict cfg 900 899 60 = false.
Proof. vm_compute. repeat split; try reflexivity; try discriminate; (repeat constructor). Qed.

(* D11: 'CHECK_TIMESTAMP ; NOT' (the timestamp-before lock) is not "t < ts": it also accepts t >= ts beyond the slack *)
Theorem C16_before_lock_refuted :
  exists cfg c ts thr, 0 < thr /\ negb (ts_verdict cfg c ts thr) = true /\ c <= ts.
Proof.
  exists (default_config 0), 30, 60, 60. vm_compute. repeat split; discriminate.
Qed.

Print Assumptions C16_check_timestamp_exact.
Print Assumptions C16_verdict_formula.
Print Assumptions C16_check_timestamp_verify_exact.
Print Assumptions C16_check_epoch_exact.
Print Assumptions C16_check_epoch_verify_exact.
Print Assumptions C16_malformed_is_error.
Print Assumptions C16_bad_cache_timestamp_is_error.
Print Assumptions C16_bad_threshold_is_error.
Print Assumptions C16_before_lock_refuted.
