(* C15 — PTLC / HTLC locks authorise exactly what their builders document, at the level of the emitted bytes.
   ptlc_lock / htlc_sha256_lock / htlc_shake256_lock are the byte strings of model/Builders.v (tied to
   tapescript.tools.make_ptlc_lock / make_htlc_*_lock by the correspondence run, command BLD); the witnesses
   are  PUSH1 sig ; TRUE  (claim),  PUSH1 sig ; FALSE  (refund)  and  PUSH1 sig ; PUSH1 preimage  (HTLC).
   For every oracle (hashes and signature verification are NOT modelled), every cache and every configuration
   with room for 4 items of 65 bytes, run_auth_scripts on [witness; lock]:
     - PTLC claim:   True  <->  sig verifies under the receiver key (flag-selected message), at any time;
     - PTLC refund:  True  <->  timestamp constraint met (C16 verdict) and sig verifies under the refund key;
     - HTLC:         True  <->  hash(preimage) = digest and sig verifies under the receiver key,
                            or  hash(preimage) <> digest, constraint met and sig verifies under the refund key.
   Never out of fuel; outside the model (AuthUnmod) only if the PVerify oracle answers with a list that is not
   exactly one item.  [sig_accepts] is spelled out in C15_sig_accepts_meaning. *)
From Coq Require Import ZArith List Bool Lia.
From Coq.Strings Require Import Byte String.
From TS Require Import Bytes State Prog Ops Interp Asm Builders SigSpec TimeSpec TapeLemmas BuilderSpec
  BuilderSpecC15 BuilderSpecC15b TablesCheck.
From TS Require BuilderSourcesProofs.
Import ListNotations.
Local Open Scope nat_scope.

(* the emitted bytes, opcode by opcode: 2c = IF_ELSE, 03 = PUSH1, 26 = CHECK_TIMESTAMP_VERIFY, 23 = CHECK_SIG,
   1e = SHA256, 1f = SHAKE256, 21 = EQUAL; two-byte big-endian body lengths *)
Theorem C15_ptlc_lock_bytes :
  forall rcv c refund fl,
  ptlc_lock rcv c refund fl =
    [x2c] ++ (len2 (x03 :: z2b (blen rcv) :: rcv) ++ (x03 :: z2b (blen rcv) :: rcv) ++
              len2 ((x03 :: z2b (blen c) :: c) ++ x26 :: x03 :: z2b (blen refund) :: refund) ++
              ((x03 :: z2b (blen c) :: c) ++ x26 :: x03 :: z2b (blen refund) :: refund)) ++ [x23; fl].
Proof. exact ptlc_lock_bytes. Qed.

Theorem C15_htlc_sha256_lock_bytes :
  forall digest rcv c refund fl,
  htlc_sha256_lock digest rcv c refund fl =
    (x1e :: (x03 :: z2b (blen digest) :: digest) ++ [x21; x2c]) ++
    ifelse_ops (claim_arm rcv) (refund_arm_bytes c refund) ++ [x23; fl].
Proof. exact htlc_sha256_lock_bytes. Qed.

Theorem C15_htlc_shake256_lock_bytes :
  forall n digest rcv c refund fl,
  htlc_shake256_lock n digest rcv c refund fl =
    (x1f :: n :: (x03 :: z2b (blen digest) :: digest) ++ [x21; x2c]) ++
    ifelse_ops (claim_arm rcv) (refund_arm_bytes c refund) ++ [x23; fl].
Proof. exact htlc_shake256_lock_bytes. Qed.

(* OP_IF_ELSE executed by the interpreter, pointer just behind the opcode: reads both length-prefixed bodies,
   pops the condition, runs the selected body as a NEW tape object (id = number of tape objects so far) with
   a NEW copy of the current definition table and the same call count, from offset 0; then propagates the
   control flag; the pointer ends behind the second body *)
Theorem C15_if_else_exec :
  forall orc cfg (run : nat -> state -> outcome unit) tid st ptr (pre b1 b2 tail : bytes) cond s,
  tdata st tid = pre ++ (Z_to_be 2 (blen b1) ++ b1 ++ Z_to_be 2 (blen b2) ++ b2) ++ tail ->
  ptr = List.length pre ->
  (blen b1 < 65536)%Z -> (blen b2 < 65536)%Z ->
  st_stack st = cond :: s ->
  interp orc cfg run OP_IF_ELSE {| fr_tid := tid; fr_ptr := ptr |} st =
    let fr' := {| fr_tid := tid; fr_ptr := ptr + (2 + List.length b1 + 2 + List.length b2) |} in
    let body := if bytes_to_bool cond then b1 else b2 in
    let c := nth_tape st tid in
    let st2 :=
      {| st_stack := s; st_cache := st_cache st;
         st_tapes := st_tapes st ++ [{| to_data := body; to_count := to_count c; to_defs := List.length (st_defs st) |}];
         st_defs := st_defs st ++ [nth_defs st (to_defs c)];
         st_log := st_log st; st_rand := st_rand st |} in
    match run (List.length (st_tapes st)) st2 with
    | Done _ _ st' => interp orc cfg run propagate_return fr' st'
    | Raised e _ st' => Raised e fr' st'
    | OutOfFuel => OutOfFuel
    | Unmodelled w => Unmodelled w
    end.
Proof. exact if_else_exec_explicit. Qed.

Theorem C15_sig_accepts_meaning :
  forall orc cfg pk sig allowed c,
  sig_accepts orc cfg pk sig allowed c <->
  (flags_permitted (sig_flag sig) allowed = true /\
   exists m x, msg_of (sig_flag sig) c = Some m /\ List.length m <= c_max_item_size cfg /\
               orc PVerify [pk; m; firstn 64 sig] = OOk [x] /\ bytes_to_bool x = true).
Proof. exact sig_accepts_meaning. Qed.

(* 1. PTLC claim *)
Theorem C15_ptlc_claim_exact :
  forall (orc : oracle) (cfg : config), 65 <= c_max_item_size cfg -> 4 <= c_max_items cfg ->
  forall f rcv c refund sig fl vals,
  List.length rcv = 32 -> List.length refund = 32 -> List.length c <= 255 ->
  (List.length sig = 64 \/ List.length sig = 65) ->
  match run_auth_scripts orc cfg (S (S (S (S (S f)))))
          [ptlc_claim_witness sig; ptlc_lock rcv c refund fl] vals with
  | AuthVerdict b _ => b = true <-> sig_accepts orc cfg rcv sig (b2z fl) (init_cache cfg vals)
  | AuthFuel => False
  | AuthUnmod _ => exists m l, msg_of (sig_flag sig) (init_cache cfg vals) = Some m /\
                               orc PVerify [rcv; m; firstn 64 sig] = OOk l /\ List.length l <> 1
  end.
Proof. exact ptlc_claim_exact. Qed.

(* 2. PTLC refund *)
Theorem C15_ptlc_refund_exact :
  forall (orc : oracle) (cfg : config), 65 <= c_max_item_size cfg -> 4 <= c_max_items cfg ->
  forall f rcv c refund sig fl vals ts thr,
  List.length rcv = 32 -> List.length refund = 32 ->
  2 <= List.length c <= 255 -> List.length c <= c_max_item_size cfg ->
  (List.length sig = 64 \/ List.length sig = 65) ->
  cache_get (init_cache cfg vals) (KStr (str "timestamp")) = Some (VOne (AInt ts)) ->
  flag_get (c_flags cfg) (FKStr (str "ts_threshold")) = Some (FVInt thr) ->
  match run_auth_scripts orc cfg (S (S (S (S (S f)))))
          [ptlc_refund_witness sig; ptlc_lock rcv c refund fl] vals with
  | AuthVerdict b _ =>
      b = true <-> ts_verdict cfg (be_to_Z c) ts thr = true /\
                   sig_accepts orc cfg refund sig (b2z fl) (init_cache cfg vals)
  | AuthFuel => False
  | AuthUnmod _ => ts_verdict cfg (be_to_Z c) ts thr = true /\
                   exists m l, msg_of (sig_flag sig) (init_cache cfg vals) = Some m /\
                               orc PVerify [refund; m; firstn 64 sig] = OOk l /\ List.length l <> 1
  end.
Proof. exact ptlc_refund_exact. Qed.

(* 3. HTLC, sha256 *)
Theorem C15_htlc_sha256_exact :
  forall (orc : oracle) (cfg : config), 65 <= c_max_item_size cfg -> 4 <= c_max_items cfg ->
  forall f digest rcv c refund sig preimage h fl vals ts thr,
  List.length rcv = 32 -> List.length refund = 32 ->
  2 <= List.length c <= 255 -> List.length c <= c_max_item_size cfg ->
  (List.length sig = 64 \/ List.length sig = 65) ->
  List.length digest = 32 -> List.length h = 32 ->
  List.length preimage < 256 -> List.length preimage <= c_max_item_size cfg ->
  orc PSha256 [preimage] = OOk [h] ->
  cache_get (init_cache cfg vals) (KStr (str "timestamp")) = Some (VOne (AInt ts)) ->
  flag_get (c_flags cfg) (FKStr (str "ts_threshold")) = Some (FVInt thr) ->
  match run_auth_scripts orc cfg (S (S (S (S (S (S (S (S f))))))))
          [htlc_witness sig preimage; htlc_sha256_lock digest rcv c refund fl] vals with
  | AuthVerdict b _ =>
      b = true <->
      (h = digest /\ sig_accepts orc cfg rcv sig (b2z fl) (init_cache cfg vals)) \/
      (h <> digest /\ ts_verdict cfg (be_to_Z c) ts thr = true /\
       sig_accepts orc cfg refund sig (b2z fl) (init_cache cfg vals))
  | AuthFuel => False
  | AuthUnmod _ =>
      (h = digest /\
       exists m l, msg_of (sig_flag sig) (init_cache cfg vals) = Some m /\
                   orc PVerify [rcv; m; firstn 64 sig] = OOk l /\ List.length l <> 1) \/
      (h <> digest /\ ts_verdict cfg (be_to_Z c) ts thr = true /\
       exists m l, msg_of (sig_flag sig) (init_cache cfg vals) = Some m /\
                   orc PVerify [refund; m; firstn 64 sig] = OOk l /\ List.length l <> 1)
  end.
Proof. exact htlc_sha256_exact. Qed.

(* 4. HTLC, shake256 with digest size byte n *)
Theorem C15_htlc_shake256_exact :
  forall (orc : oracle) (cfg : config), 65 <= c_max_item_size cfg -> 4 <= c_max_items cfg ->
  forall f n digest rcv c refund sig preimage h fl vals ts thr,
  List.length rcv = 32 -> List.length refund = 32 ->
  2 <= List.length c <= 255 -> List.length c <= c_max_item_size cfg ->
  (List.length sig = 64 \/ List.length sig = 65) ->
  List.length digest < 256 -> List.length digest <= c_max_item_size cfg ->
  List.length h <= c_max_item_size cfg ->
  List.length preimage < 256 -> List.length preimage <= c_max_item_size cfg ->
  orc PShake256 [preimage; [n]] = OOk [h] ->
  cache_get (init_cache cfg vals) (KStr (str "timestamp")) = Some (VOne (AInt ts)) ->
  flag_get (c_flags cfg) (FKStr (str "ts_threshold")) = Some (FVInt thr) ->
  match run_auth_scripts orc cfg (S (S (S (S (S (S (S (S f))))))))
          [htlc_witness sig preimage; htlc_shake256_lock n digest rcv c refund fl] vals with
  | AuthVerdict b _ =>
      b = true <->
      (h = digest /\ sig_accepts orc cfg rcv sig (b2z fl) (init_cache cfg vals)) \/
      (h <> digest /\ ts_verdict cfg (be_to_Z c) ts thr = true /\
       sig_accepts orc cfg refund sig (b2z fl) (init_cache cfg vals))
  | AuthFuel => False
  | AuthUnmod _ =>
      (h = digest /\
       exists m l, msg_of (sig_flag sig) (init_cache cfg vals) = Some m /\
                   orc PVerify [rcv; m; firstn 64 sig] = OOk l /\ List.length l <> 1) \/
      (h <> digest /\ ts_verdict cfg (be_to_Z c) ts thr = true /\
       exists m l, msg_of (sig_flag sig) (init_cache cfg vals) = Some m /\
                   orc PVerify [refund; m; firstn 64 sig] = OOk l /\ List.length l <> 1)
  end.
Proof. exact htlc_shake256_exact. Qed.

(* ---------- non-vacuity: a toy oracle, the default configuration, concrete bytes ---------- *)
Module Toy.
  (* "verification" accepts iff key and signature start with the same byte; "hashes" repeat the first byte *)
  Definition orc : oracle := fun p args =>
    match p, args with
    | PVerify, [pk; _; s] => OOk [[if Byte.eqb (hd x00 pk) (hd x00 s) then x01 else x00]]
    | PSha256, [d] => OOk [repeat (hd x00 d) 32]
    | PShake256, [d; [n]] => OOk [repeat (hd x00 d) (Z.to_nat (b2z n))]
    | _, _ => OErr OtherError
    end.
  Definition cfg : config := default_config 1000.
  Definition vals : cache := [(KStr (str "sigfield1"), VOne (ABytes [x42]))].
  Definition RCV : bytes := repeat x01 32.
  Definition REF : bytes := repeat x02 32.
  Definition SIG_RCV : bytes := repeat x01 64.
  Definition SIG_REF : bytes := repeat x02 64.
  Definition C_PAST : bytes := [x03; x84].      (* 900  <= 1000 *)
  Definition C_FUTURE : bytes := [x07; xd0].    (* 2000 >  1000 *)
  Definition DIGEST : bytes := repeat xaa 32.
  Definition verdict (r : auth_result) : option bool :=
    match r with AuthVerdict b _ => Some b | _ => None end.
End Toy.
Import Toy.

Example C15_premises_satisfiable :
  65 <= c_max_item_size cfg /\ 4 <= c_max_items cfg /\
  cache_get (init_cache cfg vals) (KStr (str "timestamp")) = Some (VOne (AInt 1000)) /\
  flag_get (c_flags cfg) (FKStr (str "ts_threshold")) = Some (FVInt 60) /\
  orc PSha256 [[xaa; x01]] = OOk [DIGEST] /\ orc PShake256 [[xaa; x01]; [x20]] = OOk [DIGEST] /\
  ts_verdict cfg (be_to_Z C_PAST) 1000 60 = true /\ ts_verdict cfg (be_to_Z C_FUTURE) 1000 60 = false /\
  sig_accepts orc cfg RCV SIG_RCV 0 (init_cache cfg vals) /\
  sig_accepts orc cfg REF SIG_REF 0 (init_cache cfg vals) /\
  ~ sig_accepts orc cfg RCV SIG_REF 0 (init_cache cfg vals) /\
  ~ sig_accepts orc cfg REF SIG_RCV 0 (init_cache cfg vals).
Proof.
  assert (A : forall pk s, sig_accepts orc cfg pk s 0 (init_cache cfg vals) ->
                           List.length s = 64 -> Byte.eqb (hd x00 pk) (hd x00 (firstn 64 s)) = true).
  { intros pk s (_ & m & x & _ & _ & Ho & Hb) _. unfold orc in Ho. injection Ho as <-.
    destruct (Byte.eqb _ _); [reflexivity|discriminate Hb]. }
  repeat split; try (vm_compute; reflexivity); try (apply Nat.leb_le; vm_compute; reflexivity).
  - exists [x42], [x01]. repeat split; try (vm_compute; reflexivity). apply Nat.leb_le. vm_compute. reflexivity.
  - exists [x42], [x01]. repeat split; try (vm_compute; reflexivity). apply Nat.leb_le. vm_compute. reflexivity.
  - intro H. apply A in H; [|reflexivity]. vm_compute in H. discriminate H.
  - intro H. apply A in H; [|reflexivity]. vm_compute in H. discriminate H.
Qed.

(* the verdict computed by the model on the concrete bytes agrees with the right-hand sides above *)
Example C15_ptlc_computed :
  verdict (run_auth_scripts orc cfg 5 [ptlc_claim_witness SIG_RCV; ptlc_lock RCV C_FUTURE REF x00] vals) = Some true /\
  verdict (run_auth_scripts orc cfg 5 [ptlc_claim_witness SIG_REF; ptlc_lock RCV C_FUTURE REF x00] vals) = Some false /\
  verdict (run_auth_scripts orc cfg 5 [ptlc_refund_witness SIG_REF; ptlc_lock RCV C_PAST REF x00] vals) = Some true /\
  verdict (run_auth_scripts orc cfg 5 [ptlc_refund_witness SIG_REF; ptlc_lock RCV C_FUTURE REF x00] vals) = Some false /\
  verdict (run_auth_scripts orc cfg 5 [ptlc_refund_witness SIG_RCV; ptlc_lock RCV C_PAST REF x00] vals) = Some false.
Proof. vm_compute. repeat split; reflexivity. Qed.

Example C15_htlc_computed :
  (* right preimage, receiver's signature *)
  verdict (run_auth_scripts orc cfg 8 [htlc_witness SIG_RCV [xaa; x01]; htlc_sha256_lock DIGEST RCV C_FUTURE REF x00] vals) = Some true /\
  (* right preimage, refund key's signature: the refund arm is not taken *)
  verdict (run_auth_scripts orc cfg 8 [htlc_witness SIG_REF [xaa; x01]; htlc_sha256_lock DIGEST RCV C_PAST REF x00] vals) = Some false /\
  (* wrong preimage: refund arm, after / before the timeout, and with the receiver's signature *)
  verdict (run_auth_scripts orc cfg 8 [htlc_witness SIG_REF [xbb; x01]; htlc_sha256_lock DIGEST RCV C_PAST REF x00] vals) = Some true /\
  verdict (run_auth_scripts orc cfg 8 [htlc_witness SIG_REF [xbb; x01]; htlc_sha256_lock DIGEST RCV C_FUTURE REF x00] vals) = Some false /\
  verdict (run_auth_scripts orc cfg 8 [htlc_witness SIG_RCV [xbb; x01]; htlc_sha256_lock DIGEST RCV C_PAST REF x00] vals) = Some false /\
  (* shake256, 32-byte digest *)
  verdict (run_auth_scripts orc cfg 8 [htlc_witness SIG_RCV [xaa; x01]; htlc_shake256_lock x20 DIGEST RCV C_FUTURE REF x00] vals) = Some true /\
  verdict (run_auth_scripts orc cfg 8 [htlc_witness SIG_REF [xbb; x01]; htlc_shake256_lock x20 DIGEST RCV C_PAST REF x00] vals) = Some true /\
  verdict (run_auth_scripts orc cfg 8 [htlc_witness SIG_REF [xbb; x01]; htlc_shake256_lock x20 DIGEST RCV C_FUTURE REF x00] vals) = Some false.
Proof. vm_compute. repeat split; reflexivity. Qed.

(* the theorems instantiated at the toy data: every premise is discharged by computation *)
Example C15_ptlc_refund_instance :
  match run_auth_scripts orc cfg 5 [ptlc_refund_witness SIG_REF; ptlc_lock RCV C_PAST REF x00] vals with
  | AuthVerdict b _ =>
      b = true <-> ts_verdict cfg (be_to_Z C_PAST) 1000 60 = true /\
                   sig_accepts orc cfg REF SIG_REF (b2z x00) (init_cache cfg vals)
  | AuthFuel => False
  | AuthUnmod _ => ts_verdict cfg (be_to_Z C_PAST) 1000 60 = true /\
                   exists m l, msg_of (sig_flag SIG_REF) (init_cache cfg vals) = Some m /\
                               orc PVerify [REF; m; firstn 64 SIG_REF] = OOk l /\ List.length l <> 1
  end.
Proof.
  apply (C15_ptlc_refund_exact orc cfg); try (vm_compute; reflexivity);
    try (apply Nat.leb_le; vm_compute; reflexivity).
  - split; apply Nat.leb_le; vm_compute; reflexivity.
  - left. reflexivity.
Qed.

(* ---------- second HTLC layout: keys committed by hash (proofs/BuilderSpecC15b.v) ----------
   witness = PUSH1 sig ; PUSH1 key ; PUSH1 preimage.  [verdict_spec r P U]: r is a verdict b with b = true <-> P,
   never out of fuel, and outside the model only if U (the PVerify oracle answered with a list of length <> 1). *)
Theorem C15_htlc2_sha256_exact :
  forall orc cfg, 65 <= c_max_item_size cfg -> 4 <= c_max_items cfg ->
  forall fuel digest hr c hf sig key preimage h hk fl vals ts thr,
  10 <= fuel ->
  List.length key = 32 -> (List.length sig = 64 \/ List.length sig = 65) ->
  List.length hr < 256 -> List.length hr <= c_max_item_size cfg ->
  List.length hf < 256 -> List.length hf <= c_max_item_size cfg ->
  2 <= List.length c <= 255 -> List.length c <= c_max_item_size cfg ->
  List.length digest = 32 -> List.length h = 32 ->
  List.length preimage < 256 -> List.length preimage <= c_max_item_size cfg ->
  orc PSha256 [preimage] = OOk [h] ->
  orc PShake256 [key; [x14]] = OOk [hk] ->
  cache_get (init_cache cfg vals) ts_key = Some (VOne (AInt ts)) ->
  flag_get (c_flags cfg) thr_key = Some (FVInt thr) ->
  let c0 := init_cache cfg vals in
  verdict_spec
    (run_auth_scripts orc cfg fuel [htlc2_witness sig key preimage; htlc2_sha256_lock digest hr c hf fl] vals)
    ((h = digest /\ hk = hr /\ sig_accepts orc cfg key sig (b2z fl) c0) \/
     (h <> digest /\ ts_verdict cfg (be_to_Z c) ts thr = true /\ hk = hf /\
      sig_accepts orc cfg key sig (b2z fl) c0))
    ((h = digest /\ hk = hr /\ bad_arity orc key sig c0) \/
     (h <> digest /\ ts_verdict cfg (be_to_Z c) ts thr = true /\ hk = hf /\ bad_arity orc key sig c0)).
Proof. exact htlc2_sha256_exact. Qed.

Theorem C15_htlc2_shake256_exact :
  forall orc cfg, 65 <= c_max_item_size cfg -> 4 <= c_max_items cfg ->
  forall fuel n digest hr c hf sig key preimage h hk fl vals ts thr,
  10 <= fuel ->
  List.length key = 32 -> (List.length sig = 64 \/ List.length sig = 65) ->
  List.length hr < 256 -> List.length hr <= c_max_item_size cfg ->
  List.length hf < 256 -> List.length hf <= c_max_item_size cfg ->
  2 <= List.length c <= 255 -> List.length c <= c_max_item_size cfg ->
  List.length digest < 256 -> List.length digest <= c_max_item_size cfg ->
  List.length h <= c_max_item_size cfg ->
  List.length preimage < 256 -> List.length preimage <= c_max_item_size cfg ->
  orc PShake256 [preimage; [n]] = OOk [h] ->
  orc PShake256 [key; [n]] = OOk [hk] ->
  cache_get (init_cache cfg vals) ts_key = Some (VOne (AInt ts)) ->
  flag_get (c_flags cfg) thr_key = Some (FVInt thr) ->
  let c0 := init_cache cfg vals in
  verdict_spec
    (run_auth_scripts orc cfg fuel [htlc2_witness sig key preimage; htlc2_shake256_lock n digest hr c hf fl] vals)
    ((h = digest /\ hk = hr /\ sig_accepts orc cfg key sig (b2z fl) c0) \/
     (h <> digest /\ ts_verdict cfg (be_to_Z c) ts thr = true /\ hk = hf /\
      sig_accepts orc cfg key sig (b2z fl) c0))
    ((h = digest /\ hk = hr /\ bad_arity orc key sig c0) \/
     (h <> digest /\ ts_verdict cfg (be_to_Z c) ts thr = true /\ hk = hf /\ bad_arity orc key sig c0)).
Proof. exact htlc2_shake256_exact. Qed.

Print Assumptions C15_htlc2_sha256_exact.
Print Assumptions C15_htlc2_shake256_exact.
(* ---------- the PTLC / HTLC builders as SOURCE (model/BuilderSources.v mirrors the f-string templates of tools.py token for token — 83 Examples
   against the real .src / .bytes; proofs/BuilderSourcesProofs.v: the template TEXT compiles, for all arguments, to the bytes of
   model/Builders.v that the theorems above are about; closed statements printed by Check) ---------- *)
Definition C15_src_ptlc_lock_compiles := @BuilderSourcesProofs.ptlc_lock_compiles.
Definition C15_src_htlc_sha256_lock_compiles := @BuilderSourcesProofs.htlc_sha256_lock_compiles.
Definition C15_src_htlc_shake256_lock_compiles := @BuilderSourcesProofs.htlc_shake256_lock_compiles.
Definition C15_src_htlc2_sha256_lock_compiles := @BuilderSourcesProofs.htlc2_sha256_lock_compiles.
Definition C15_src_htlc2_shake256_lock_compiles := @BuilderSourcesProofs.htlc2_shake256_lock_compiles.
Definition C15_src_htlc_witness_compiles := @BuilderSourcesProofs.htlc_witness_compiles.
Definition C15_src_htlc2_witness_compiles := @BuilderSourcesProofs.htlc2_witness_compiles.
Definition C15_src_sig_then_compiles := @BuilderSourcesProofs.sig_then_compiles.
Definition C15_src_ptlc_witness_tweak_compiles := @BuilderSourcesProofs.ptlc_witness_tweak_compiles.
Check C15_src_ptlc_lock_compiles.
Check C15_src_htlc_sha256_lock_compiles.
Check C15_src_htlc_shake256_lock_compiles.
Print Assumptions C15_src_ptlc_lock_compiles.
Print Assumptions C15_src_htlc_sha256_lock_compiles.
Print Assumptions C15_src_htlc_shake256_lock_compiles.
Print Assumptions C15_src_htlc2_sha256_lock_compiles.
Print Assumptions C15_src_htlc2_shake256_lock_compiles.
Print Assumptions C15_src_htlc_witness_compiles.
Print Assumptions C15_src_htlc2_witness_compiles.
Print Assumptions C15_src_sig_then_compiles.
Print Assumptions C15_src_ptlc_witness_tweak_compiles.

Print Assumptions C15_ptlc_lock_bytes.
Print Assumptions C15_htlc_sha256_lock_bytes.
Print Assumptions C15_htlc_shake256_lock_bytes.
Print Assumptions C15_if_else_exec.
Print Assumptions C15_sig_accepts_meaning.
Print Assumptions C15_ptlc_claim_exact.
Print Assumptions C15_ptlc_refund_exact.
Print Assumptions C15_htlc_sha256_exact.
Print Assumptions C15_htlc_shake256_exact.
Print Assumptions C15_premises_satisfiable.
Print Assumptions C15_ptlc_computed.
Print Assumptions C15_htlc_computed.
Print Assumptions C15_ptlc_refund_instance.
