(* C05 — Taproot: script path and key path of OP_TAPROOT are exact.
   Script path (second item 32 bytes): the supplied script is EVALuated iff base_mult(clamp(sha256(key ||
   sha256(script)))) + key equals the root; otherwise x00 is pushed and cache, heap and log are untouched (no
   sub-tape: no instruction of the supplied script runs). Key path: exactly C02's signature check with the
   root as public key, after the signature extensions ran once. Hashes and curve operations are oracles. *)
From Coq Require Import ZArith List Bool.
From Coq.Strings Require Import Byte.
From TS Require Import Bytes State Prog Ops Interp NopSpec StackLemmas ConfigSpec TaprootSpec.
Import ListNotations.
Local Open Scope nat_scope.

Theorem C05_script_path_exact :
  forall orc cfg run fr st a tail root pubkey script rest hs h point agg,
  data_at fr st = a :: tail ->
  st_stack st = root :: pubkey :: script :: rest ->
  List.length root = 32 -> List.length pubkey = 32 -> List.length h = 32 ->
  orc PSha256 [script] = OOk [hs] -> orc PSha256 [pubkey ++ hs] = OOk [h] ->
  orc PBaseMult [clamp32 h] = OOk [point] ->
  orc PValidPoint [point] = OOk [[x01]] -> orc PValidPoint [pubkey] = OOk [[x01]] ->
  orc PPointAdd [point; pubkey] = OOk [agg] ->
  fits cfg script -> List.length rest + 1 <= c_max_items cfg -> 1 <= c_max_item_size cfg ->
  interp orc cfg run OP_TAPROOT fr st =
    if bytes_eqb agg root
    then interp orc cfg run eval_body (adv fr 1) (with_stack st (script :: rest))
    else Done tt (adv fr 1) (with_stack st ([x00] :: rest)).
Proof. exact taproot_script_path. Qed.

Theorem C05_key_path_exact :
  forall orc cfg run fr st a tail root item rest,
  data_at fr st = a :: tail ->
  st_stack st = root :: item :: rest ->
  List.length root = 32 -> List.length item <> 32 ->
  List.length rest + 2 <= c_max_items cfg -> 32 <= c_max_item_size cfg ->
  interp orc cfg run OP_TAPROOT fr st =
    interp orc cfg run (check_sig_body (b2z a)) (adv fr 1)
           (sigext_log cfg (with_stack st (root :: item :: rest))).
Proof. exact taproot_key_path. Qed.

Print Assumptions C05_script_path_exact.
Print Assumptions C05_key_path_exact.
