(* C05 — Taproot: script path and key path of OP_TAPROOT are exact.
   Script path (second item 32 bytes): the supplied script is EVALuated iff base_mult(clamp(sha256(key ||
   sha256(script)))) + key equals the root; otherwise x00 is pushed and cache, heap and log are untouched (no
   sub-tape: no instruction of the supplied script runs). Key path: exactly C02's signature check with the
   root as public key, after the signature extensions ran once. Hashes and curve operations are oracles. *)
From Coq Require Import ZArith List Bool.
From Coq.Strings Require Import Byte.
From Coq.Strings Require Import String.
From TS Require Import Bytes State Prog Ops Interp NopSpec StackLemmas ConfigSpec TaprootSpec TapeLemmas AuthSpec
  Builders BuilderSpec TaprootNonNative.
From TS Require BuilderSourcesProofs.
From TS Require TaprootFootprints TaprootFootprintsExact.
Import ListNotations.
Local Open Scope nat_scope.

Theorem C05_script_path_exact :
  forall orc cfg run fr st a tail root pubkey script rest hs h point agg,
  data_at fr st = a :: tail ->
  st_stack st = root :: pubkey :: script :: rest ->
  List.length root = 32 -> List.length pubkey = 32 -> List.length h = 32 ->
  orc PSha256 [script] = OOk [hs] -> orc PSha256 [pubkey ++ hs] = OOk [h] ->
  orc PBaseMult [clamp32 h] = OOk [point] ->
  orc PValidPoint [point] = OOk [[x01]] -> orc PValidPoint [pubkey] = OOk [[x01]] ->
  orc PPointAdd [point; pubkey] = OOk [agg] ->
  fits cfg script -> List.length rest + 1 <= c_max_items cfg -> 1 <= c_max_item_size cfg ->
  interp orc cfg run OP_TAPROOT fr st =
    if bytes_eqb agg root
    then interp orc cfg run eval_body (adv fr 1) (with_stack st (script :: rest))
    else Done tt (adv fr 1) (with_stack st ([x00] :: rest)).
Proof. exact taproot_script_path. Qed.

Theorem C05_key_path_exact :
  forall orc cfg run fr st a tail root item rest,
  data_at fr st = a :: tail ->
  st_stack st = root :: item :: rest ->
  List.length root = 32 -> List.length item <> 32 ->
  List.length rest + 2 <= c_max_items cfg -> 32 <= c_max_item_size cfg ->
  interp orc cfg run OP_TAPROOT fr st =
    interp orc cfg run (check_sig_body (b2z a)) (adv fr 1)
           (sigext_log cfg (with_stack st (root :: item :: rest))).
Proof. exact taproot_key_path. Qed.

(* ---------------- native lock vs make_nonnative_taproot_lock (proofs/TaprootNonNative.v) ----------------
   Builders.nonnative_taproot_lock is the byte string of the real builder (BLD correspondence on every run).
   [vres] is the verdict with the final state dropped (the heaps of the two runs differ by construction). *)

(* key path: for EVERY witness script that ends with one item (a 64/65-byte signature) the two locks give the same
   verdict, True exactly when the signature is accepted under the root *)
Theorem C05_nonnative_key_path_same_verdict :
  forall orc cfg f w vals fr st1 root fl sig,
  run_script orc cfg (9 + f) w vals = Done tt fr st1 ->
  st_stack st1 = [sig] -> List.length root = 32 -> (List.length sig = 64 \/ List.length sig = 65) ->
  (to_count (nth_tape st1 0) <? c_limit cfg)%Z = true ->
  65 <= c_max_item_size cfg -> 3 <= c_max_items cfg ->
  vres_of_auth (run_auth_scripts orc cfg (9 + f) [w; nonnative_taproot_lock root fl] vals) =
    vres_of_auth (run_auth_scripts orc cfg (9 + f) [w; taproot_lock root fl] vals) /\
  (vres_of_auth (run_auth_scripts orc cfg (9 + f) [w; nonnative_taproot_lock root fl] vals) = VBool true <->
   sig_accepts orc cfg root sig (b2z fl) (st_cache st1)).
Proof. exact key_path_pair. Qed.

(* script path: both locks refuse a pair that does not recompute to the root, and otherwise run exactly `script` as a
   sub-tape from the same stack `rest` ... *)
Theorem C05_nonnative_script_path_both_exact :
  forall orc cfg f w vals fr st1 root fl key script rest hs h point agg,
  run_script orc cfg (20 + f) w vals = Done tt fr st1 ->
  st_stack st1 = key :: script :: rest ->
  List.length root = 32 -> List.length key = 32 -> List.length h = 32 ->
  orc PSha256 [script] = OOk [hs] -> orc PSha256 [key ++ hs] = OOk [h] ->
  orc PBaseMult [clamp32 h] = OOk [point] ->
  orc PValidPoint [point] = OOk [[x01]] -> orc PValidPoint [key] = OOk [[x01]] ->
  orc PPointAdd [point; key] = OOk [agg] ->
  fits cfg script -> fits cfg hs -> fits cfg (key ++ hs) -> fits cfg point -> fits cfg agg ->
  List.length rest + 4 <= c_max_items cfg -> 32 <= c_max_item_size cfg ->
  script <> [] ->
  flag_get (c_flags cfg) (FKStr (str "disallow_OP_EVAL")) = None ->
  (to_count (nth_tape st1 0) + 1 <? c_limit cfg)%Z = true ->
  let tid := List.length (st_tapes st1) in
  let sN := nn_eval_state cfg (snd (next_start st1 0 (nonnative_taproot_lock root fl))) tid root key script rest point in
  let sT := native_eval_state (snd (next_start st1 0 (taproot_lock root fl))) tid script rest in
  vres_of_auth (run_auth_scripts orc cfg (20 + f) [w; nonnative_taproot_lock root fl] vals) =
    (if bytes_eqb agg root then vres_of_run (run_tape orc cfg (S f) (tid + 3) 0 sN) else VBool false) /\
  vres_of_auth (run_auth_scripts orc cfg (20 + f) [w; taproot_lock root fl] vals) =
    (if bytes_eqb agg root then vres_of_run (run_tape orc cfg (S (17 + f)) (tid + 1) 0 sT) else VBool false).
Proof. exact script_path_pair. Qed.

(* ... but NOT in the same environment: the non-native sub-tape starts one call level deeper and sees the lock's own
   definition 0.  So the equivalence claimed by the property is false of the model — and of the code (known findings
   D18, D19, replayed on the implementation by the C05 check): *)
Example C05_nonnative_equivalence_refuted_definition_0 :
  let script := [x2a; x00; x06; x01] in      (* call d0 ; pop0 ; true *)
  vres_of_auth (run_auth_scripts toy_orc (toy_cfg 64) 40 [toy_witness script; nonnative_taproot_lock toy_root x00] []) = VBool true /\
  vres_of_auth (run_auth_scripts toy_orc (toy_cfg 64) 40 [toy_witness script; taproot_lock toy_root x00] []) = VBool false.
Proof. exact differ_on_call_d0. Qed.

Example C05_nonnative_equivalence_refuted_call_budget :
  let script := [x01; x06; x01] in            (* true ; pop0 ; true   under callstack_limit 1 *)
  vres_of_auth (run_auth_scripts toy_orc (toy_cfg 1) 40 [toy_witness script; nonnative_taproot_lock toy_root x00] []) = VBool false /\
  vres_of_auth (run_auth_scripts toy_orc (toy_cfg 1) 40 [toy_witness script; taproot_lock toy_root x00] []) = VBool true.
Proof. exact differ_on_call_budget. Qed.

(* In WHAT the two start states differ, exactly (proofs/TaprootFootprintsExact.v; sN / sT as in C05_nonnative_script_path_both_exact): the
   same code, stack, log and random counter; the same cache except that, with flag 2 on, key X holds the tweak point under the
   non-native lock; a call count one higher; and a definitions table that is the witness's own plus handle 0 -> the tape holding
   `push root`.  Nothing else: so every divergence of the two verdicts goes through one of the three footprints shown observable by
   the computed examples (definition 0: D18, call level: D19, cache key X: D23). *)
Definition C05_nonnative_start_states_differ_exactly_in := @TaprootFootprintsExact.footprints_exact.
Definition C05_nonnative_start_states_after_any_witness := @TaprootFootprintsExact.footprints_exact_witness.
Check C05_nonnative_start_states_differ_exactly_in.
Print Assumptions C05_nonnative_start_states_differ_exactly_in.
Print Assumptions C05_nonnative_start_states_after_any_witness.

(* third footprint (finding D23, proofs/TaprootFootprints.v): with flag 2 at its default the non-native lock's OP_DERIVE_POINT
   leaves the tweak point in the cache under the bytes key X, which the committed script can read *)
Example C05_nonnative_equivalence_refuted_cache_X :
  let script := [x0a; x01; x58; x06; x01] in      (* read_cache x58 ; pop0 ; true *)
  vres_of_auth (run_auth_scripts toy_orc (TaprootFootprints.toy_cfg_flag2 64) 40 [toy_witness script; nonnative_taproot_lock toy_root x00] []) = VBool true /\
  vres_of_auth (run_auth_scripts toy_orc (TaprootFootprints.toy_cfg_flag2 64) 40 [toy_witness script; taproot_lock toy_root x00] []) = VBool false.
Proof. exact TaprootFootprints.differ_on_cache_X. Qed.

Print Assumptions C05_nonnative_equivalence_refuted_cache_X.
Print Assumptions C05_nonnative_key_path_same_verdict.
Print Assumptions C05_nonnative_script_path_both_exact.
Print Assumptions C05_nonnative_equivalence_refuted_definition_0.
Print Assumptions C05_nonnative_equivalence_refuted_call_budget.
(* ---------- the taproot builders as SOURCE (model/BuilderSources.v mirrors the f-string templates of tools.py token for token — 83 Examples
   against the real .src / .bytes; proofs/BuilderSourcesProofs.v: the template TEXT compiles, for all arguments, to the bytes of
   model/Builders.v that the theorems above are about; closed statements printed by Check) ---------- *)
Definition C05_src_taproot_lock_compiles := @BuilderSourcesProofs.taproot_lock_compiles.
Definition C05_src_nonnative_taproot_lock_compiles := @BuilderSourcesProofs.nonnative_taproot_lock_compiles.
Definition C05_src_taproot_witness_scriptspend_compiles := @BuilderSourcesProofs.taproot_witness_scriptspend_compiles.
Check C05_src_taproot_lock_compiles.
Check C05_src_nonnative_taproot_lock_compiles.
Check C05_src_taproot_witness_scriptspend_compiles.
Print Assumptions C05_src_taproot_lock_compiles.
Print Assumptions C05_src_nonnative_taproot_lock_compiles.
Print Assumptions C05_src_taproot_witness_scriptspend_compiles.

Print Assumptions C05_script_path_exact.
Print Assumptions C05_key_path_exact.
