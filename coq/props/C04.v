(* C04 — Merklized scripts: only committed branches run.
   Binding at the instruction: with (script, sibling hash) on the stack, OP_MERKLEVAL either raises a
   script-execution error leaving cache, heap, log untouched — no sub-tape is created, so no instruction of the
   supplied script runs — or continues with exactly EVAL of that script; which of the two is decided by
   sha256(sha256(script)) xor sha256(sibling) = root. SHA-256 is an oracle: the statement holds for every
   hash function. Tree classes, builders and pack/unpack: correspondence + direct oracle (see evidence). *)
From Coq Require Import ZArith List Bool.
From Coq.Strings Require Import Byte.
From TS Require Import Bytes State Prog Ops Interp NopSpec StackLemmas MerkleSpec.
Import ListNotations.
Local Open Scope nat_scope.

Theorem C04_merkleval_binding :
  forall orc cfg run fr st root tail script sib rest h1 h2 h3,
  data_at fr st = root ++ tail -> List.length root = 32 ->
  st_stack st = script :: sib :: rest ->
  orc PSha256 [script] = OOk [h1] -> orc PSha256 [h1] = OOk [h2] -> orc PSha256 [sib] = OOk [h3] ->
  fits cfg script -> fits cfg sib -> fits cfg h1 -> fits cfg h2 -> fits cfg h3 ->
  fits cfg (merkle_commit h2 h3) -> fits cfg root ->
  List.length rest + 4 <= c_max_items cfg -> 1 <= c_max_item_size cfg ->
  interp orc cfg run OP_MERKLEVAL fr st =
    if bytes_eqb root (merkle_commit h2 h3)
    then interp orc cfg run eval_body (adv fr 32) (with_stack st (script :: rest))
    else Raised ScriptExecutionError (adv fr 32) (with_stack st (script :: rest)).
Proof. exact merkleval_binding. Qed.

Print Assumptions C04_merkleval_binding.
