(* C04 — Merklized scripts: only committed branches run.
   Binding at the instruction: with (script, sibling hash) on the stack, OP_MERKLEVAL either raises a
   script-execution error leaving cache, heap, log untouched — no sub-tape is created, so no instruction of the
   supplied script runs — or continues with exactly EVAL of that script; which of the two is decided by
   sha256(sha256(script)) xor sha256(sibling) = root. SHA-256 is an oracle: the statement holds for every
   hash function. Tree classes, builders and pack/unpack: correspondence + direct oracle (see evidence). *)
From Coq Require Import ZArith List Bool.
From Coq.Strings Require Import Byte.
From TS Require Import Bytes State Prog Ops Interp NopSpec StackLemmas MerkleSpec TapeLemmas Builders MerkleTree MerkleTreeProofs AuthSpec.
From TS Require TreeBuilders TreeBuildersProofs.
From TS Require BuilderSourcesProofs.
Import ListNotations.
Local Open Scope nat_scope.

Theorem C04_merkleval_binding :
  forall orc cfg run fr st root tail script sib rest h1 h2 h3,
  data_at fr st = root ++ tail -> List.length root = 32 ->
  st_stack st = script :: sib :: rest ->
  orc PSha256 [script] = OOk [h1] -> orc PSha256 [h1] = OOk [h2] -> orc PSha256 [sib] = OOk [h3] ->
  fits cfg script -> fits cfg sib -> fits cfg h1 -> fits cfg h2 -> fits cfg h3 ->
  fits cfg (merkle_commit h2 h3) -> fits cfg root ->
  List.length rest + 4 <= c_max_items cfg -> 1 <= c_max_item_size cfg ->
  interp orc cfg run OP_MERKLEVAL fr st =
    if bytes_eqb root (merkle_commit h2 h3)
    then interp orc cfg run eval_body (adv fr 32) (with_stack st (script :: rest))
    else Raised ScriptExecutionError (adv fr 32) (with_stack st (script :: rest)).
Proof. exact merkleval_binding. Qed.

(* ---------------- the tree classes (model/MerkleTree.v; tied to tapescript.tools by the MT correspondence) ----------------
   For every hash function H answered by the oracle with 32-byte values, every tree, every path p: *)

(* completeness: the unlocking script of the node at path p followed by the root lock runs EXACTLY the bytes of that
   node, as a fresh tape object in the state [descend] (stack = what lay under the witness, cache/log untouched,
   call count = depth), and the verdict is the verdict of that run *)
Theorem C04_committed_branch_runs :
  forall orc cfg H, (forall b, orc PSha256 [b] = OOk [H b]) -> (forall b, List.length (H b) = 32) ->
  forall p l r u w vals f,
  subtree (Node l r) p = Some u -> p <> [] -> unlock H (Node l r) p = Some w ->
  no_eval_ban cfg -> (Z.of_nat (List.length p) <= c_limit cfg)%Z ->
  fits cfg (tbytes H u) -> 33 <= c_max_item_size cfg -> 2 * List.length p + 2 <= c_max_items cfg ->
  let st2 := lock_state cfg w vals (wstack H (Node l r) p) (lock H l r) in
  run_auth_scripts orc cfg (2 * List.length p + S f) [w; lock H l r] vals =
    auth_finish
      (lock_result cfg 1 (List.length p)
         (run_tape orc cfg (S (List.length p + f)) (fst (descend H (Node l r) p 1 st2)) 0
                   (snd (descend H (Node l r) p 1 st2)))).
Proof. exact merkle_auth. Qed.

(* binding for a node's lock: unless the top pair hashes to the root, the lock raises in its own frame, no tape
   object is created, cache / log / definitions are those of the start *)
Theorem C04_uncommitted_pair_never_starts :
  forall orc cfg H, (forall b, orc PSha256 [b] = OOk [H b]) -> (forall b, List.length (H b) = 32) ->
  forall f tid st l r script sib rest,
  tdata st tid = lock H l r -> st_stack st = script :: sib :: rest ->
  fits cfg script -> fits cfg sib -> 32 <= c_max_item_size cfg -> List.length rest + 4 <= c_max_items cfg ->
  xor_bytes (H sib) (H (H script)) <> root H l r ->
  run_tape orc cfg (S f) tid 0 st =
    Raised ScriptExecutionError {| fr_tid := tid; fr_ptr := 33 |} (with_stack st (script :: rest)).
Proof. exact merkle_binding_tree. Qed.

(* serialisation: unpack (pack t) = t whenever pack does not raise (every packed subtree < 65536 bytes) *)
Theorem C04_pack_unpack :
  forall l r, packable (Node l r) = true -> unpack (pack (Node l r)) = Some (Node l r).
Proof. exact pack_unpack. Qed.

(* non-vacuity: a concrete hash, configuration and depth-2 tree for which the theorem gives verdict True *)
Example C04_committed_branch_demo : exists w st,
  unlock Demo.H (Node Demo.l Demo.r) [L; L] = Some w /\
  run_auth_scripts Demo.orc Demo.cfg (2 * 2 + S 3) [w; lock Demo.H Demo.l Demo.r] [] = AuthVerdict true st.
Proof. exact Demo.demo_true. Qed.

(* ---------------- the two builder functions (model/TreeBuilders.v, tied to make_merklized_script_prioritized / _balanced by the
   TB correspondence; proofs/TreeBuildersProofs.v).  Every input script is a committed leaf at a known path and depth, the
   builders return its unlocking script at its index, and that script + the lock runs exactly the leaf (any number of
   leaves; fillers of the balanced builder are arbitrary).  Closed statements printed by Check. *)
Definition C04_prioritized_leaf_paths := @TreeBuildersProofs.prioritized_paths.
Definition C04_prioritized_unlocks_are_in_input_order := @TreeBuildersProofs.prioritized_unlocks_spec.
Definition C04_prioritized_builder_complete := @TreeBuildersProofs.builders_complete_prioritized.
Definition C04_balanced_leaves_in_order_same_depth := @TreeBuildersProofs.balanced_leaves.
Definition C04_balanced_depth_is_log2_up := TreeBuildersProofs.bal_depth_log2_up.
Definition C04_balanced_unlocks_are_in_input_order := @TreeBuildersProofs.balanced_unlocks_spec.
Definition C04_balanced_builder_complete := @TreeBuildersProofs.builders_complete_balanced.
Definition C04_growing_a_prioritized_tree_keeps_old_leaves := (@TreeBuildersProofs.prioritized_onto_old, @TreeBuildersProofs.prioritized_onto_new).
Definition C04_one_leaf_filler_is_refused := @TreeBuildersProofs.prioritized_filler_rejects.
Check C04_prioritized_leaf_paths.
Check C04_prioritized_builder_complete.
Check C04_balanced_leaves_in_order_same_depth.
Check C04_balanced_builder_complete.

Print Assumptions C04_prioritized_leaf_paths.
Print Assumptions C04_prioritized_unlocks_are_in_input_order.
Print Assumptions C04_prioritized_builder_complete.
Print Assumptions C04_balanced_leaves_in_order_same_depth.
Print Assumptions C04_balanced_depth_is_log2_up.
Print Assumptions C04_balanced_unlocks_are_in_input_order.
Print Assumptions C04_balanced_builder_complete.
Print Assumptions C04_growing_a_prioritized_tree_keeps_old_leaves.
Print Assumptions C04_one_leaf_filler_is_refused.
(* ---------- locking / unlocking scripts of the tree classes as SOURCE (model/BuilderSources.v mirrors the f-string templates of tools.py token for token — 83 Examples
   against the real .src / .bytes; proofs/BuilderSourcesProofs.v: the template TEXT compiles, for all arguments, to the bytes of
   model/Builders.v that the theorems above are about; closed statements printed by Check) ---------- *)
Definition C04_src_merkle_lock_compiles := @BuilderSourcesProofs.merkle_lock_compiles.
Definition C04_src_unlock_piece_compiles := @BuilderSourcesProofs.unlock_piece_compiles.
Check C04_src_merkle_lock_compiles.
Check C04_src_unlock_piece_compiles.
Print Assumptions C04_src_merkle_lock_compiles.
Print Assumptions C04_src_unlock_piece_compiles.

Print Assumptions C04_committed_branch_runs.
Print Assumptions C04_uncommitted_pair_never_starts.
Print Assumptions C04_pack_unpack.
Print Assumptions C04_merkleval_binding.
