(* C07 — Stack, item-size, call-depth, loop and tape limits hold at every step (stack and tape parts). *)
From Coq Require Import ZArith List.
From Coq Require Import String.
From TS Require Import Bytes State Prog Ops Interp StateLemmas Closure Limits Pointer Discipline Budget Termination.
Import ListNotations.
Local Open Scope nat_scope.

(* the stack never exceeds max_items / max_item_size, in every final or raising state *)
Theorem C07_stack_limits_run_script :
  forall orc cfg fuel script vals,
  match run_script orc cfg fuel script vals with
  | Done _ _ st' | Raised _ _ st' => limits_ok cfg st'
  | _ => True
  end.
Proof. exact run_script_limits. Qed.

Theorem C07_stack_limits_run_auth_scripts :
  forall orc cfg fuel scripts vals,
  match run_auth_scripts orc cfg fuel scripts vals with
  | AuthVerdict _ st' => limits_ok cfg st'
  | _ => True
  end.
Proof. exact run_auth_scripts_limits. Qed.

(* and after every single action of every instruction *)
Theorem C07_every_action_keeps_limits : forall orc cfg, step_closed orc cfg (R_lim cfg).
Proof. exact step_closed_lim. Qed.

(* a read either raises ScriptExecutionError leaving everything unchanged, or advances inside the tape *)
Theorem C07_read_in_bounds :
  forall orc cfg run fr st n,
  match step orc cfg run (ARead n) fr st with
  | SOk b fr' st' => fr_ptr fr' <= List.length (to_data (cur fr st)) /\ fr_ptr fr <= fr_ptr fr' /\ st' = st
  | SRaise e fr' st' => e = ScriptExecutionError /\ fr' = fr /\ st' = st
  | _ => False
  end.
Proof. exact read_in_bounds. Qed.

(* one activation: same tape object, tape bytes never change, pointer only forward and never past the end *)
Theorem C07_pointer_monotone :
  forall orc cfg fuel tid ptr st,
  ptr_out {| fr_tid := tid; fr_ptr := ptr |} st (run_tape orc cfg fuel tid ptr st).
Proof. exact run_tape_ptr. Qed.

(* ---------------- call budget, loop bound, termination (proofs/Budget.v, proofs/Termination.v) ---------------- *)

(* the call counter of every tape object is <= max 0 callstack_limit in every final or raising state *)
Theorem C07_call_counters_capped_run_script :
  forall orc cfg fuel script vals,
  match run_script orc cfg fuel script vals with
  | Done _ _ st' | Raised _ _ st' => forall t, (count_of st' t <= Z.max 0 (c_limit cfg))%Z
  | _ => True
  end.
Proof. exact run_script_capped. Qed.

Theorem C07_call_counters_capped_run_auth_scripts :
  forall orc cfg fuel scripts vals,
  match run_auth_scripts orc cfg fuel scripts vals with
  | AuthVerdict _ st' => forall t, (count_of st' t <= Z.max 0 (c_limit cfg))%Z
  | _ => True
  end.
Proof. exact run_auth_scripts_capped. Qed.

(* CALL and EVAL (also inside MERKLEVAL / TAPROOT) at or over the budget raise ScriptExecutionError and change nothing *)
Theorem C07_call_over_budget_refused :
  forall orc cfg run fr st, (c_limit cfg <= to_count (cur fr st))%Z ->
  interp orc cfg run OP_CALL fr st = Raised ScriptExecutionError fr st.
Proof. exact OP_CALL_over_budget. Qed.

Theorem C07_eval_over_budget_refused :
  forall orc cfg run fr st, (c_limit cfg <= to_count (cur fr st))%Z ->
  match interp orc cfg run eval_body fr st with
  | Raised e fr' st' => e = ScriptExecutionError /\ fr' = fr /\ st' = st
  | _ => False
  end.
Proof. exact eval_body_over_budget. Qed.

(* ... and never start a sub-tape whose counter exceeds the limit *)
Theorem C07_call_starts_within_budget :
  forall orc cfg run fr st, fr_tid fr < List.length (st_tapes st) ->
  interp orc cfg run OP_CALL fr st = interp orc cfg (within_budget cfg run) OP_CALL fr st.
Proof. exact OP_CALL_bounded. Qed.

Theorem C07_eval_starts_within_budget :
  forall orc cfg run fr st,
  interp orc cfg run eval_body fr st = interp orc cfg (within_budget cfg run) eval_body fr st.
Proof. exact eval_body_bounded. Qed.

(* one LOOP instruction runs its body at most callstack_limit times, whatever the body does *)
Theorem C07_loop_iterations_bounded :
  forall orc cfg run fr st, run_loops orc cfg run OP_LOOP fr st <= Z.to_nat (c_limit cfg).
Proof. exact loop_bounded. Qed.

(* termination: from every state, tape and pointer some fuel suffices, and every larger fuel gives the same result *)
Theorem C07_every_run_terminates :
  forall orc cfg tid ptr st,
  exists fuel r, r <> OutOfFuel /\ forall fuel', fuel <= fuel' -> run_tape orc cfg fuel' tid ptr st = r.
Proof. exact run_tape_total. Qed.

Theorem C07_run_script_terminates :
  forall orc cfg script vals,
  exists fuel r, r <> OutOfFuel /\ forall fuel', fuel <= fuel' -> run_script orc cfg fuel' script vals = r.
Proof. exact run_script_total. Qed.

Theorem C07_run_auth_scripts_terminates :
  forall orc cfg scripts vals,
  exists fuel r, r <> AuthFuel /\ forall fuel', fuel <= fuel' -> run_auth_scripts orc cfg fuel' scripts vals = r.
Proof. exact run_auth_scripts_total. Qed.

(* the fuel is not an observable: a result that is not "out of fuel" is the result at every larger fuel *)
Theorem C07_fuel_monotone :
  forall orc cfg f tid ptr st r,
  run_tape orc cfg f tid ptr st = r -> r <> OutOfFuel -> forall k, run_tape orc cfg (f + k) tid ptr st = r.
Proof. exact run_tape_fuel_mono. Qed.

(* plain monotonicity of a tape's call counter is FALSE (a definition's counter is overwritten by its caller's):
   the refutation is kept so that nobody states it by accident *)
Example C07_count_not_monotone_refuted := count_not_monotone.

Print Assumptions C07_call_counters_capped_run_script.
Print Assumptions C07_call_counters_capped_run_auth_scripts.
Print Assumptions C07_call_over_budget_refused.
Print Assumptions C07_eval_over_budget_refused.
Print Assumptions C07_call_starts_within_budget.
Print Assumptions C07_eval_starts_within_budget.
Print Assumptions C07_loop_iterations_bounded.
Print Assumptions C07_every_run_terminates.
Print Assumptions C07_run_script_terminates.
Print Assumptions C07_run_auth_scripts_terminates.
Print Assumptions C07_fuel_monotone.
Print Assumptions C07_stack_limits_run_script.
Print Assumptions C07_stack_limits_run_auth_scripts.
Print Assumptions C07_every_action_keeps_limits.
Print Assumptions C07_read_in_bounds.
Print Assumptions C07_pointer_monotone.
