(* C07 — Stack, item-size, call-depth, loop and tape limits hold at every step (stack and tape parts). *)
From Coq Require Import ZArith List.
From TS Require Import Bytes State Prog Ops Interp StateLemmas Closure Limits Pointer.
Import ListNotations.
Local Open Scope nat_scope.

(* the stack never exceeds max_items / max_item_size, in every final or raising state *)
Theorem C07_stack_limits_run_script :
  forall orc cfg fuel script vals,
  match run_script orc cfg fuel script vals with
  | Done _ _ st' | Raised _ _ st' => limits_ok cfg st'
  | _ => True
  end.
Proof. exact run_script_limits. Qed.

Theorem C07_stack_limits_run_auth_scripts :
  forall orc cfg fuel scripts vals,
  match run_auth_scripts orc cfg fuel scripts vals with
  | AuthVerdict _ st' => limits_ok cfg st'
  | _ => True
  end.
Proof. exact run_auth_scripts_limits. Qed.

(* and after every single action of every instruction *)
Theorem C07_every_action_keeps_limits : forall orc cfg, step_closed orc cfg (R_lim cfg).
Proof. exact step_closed_lim. Qed.

(* a read either raises ScriptExecutionError leaving everything unchanged, or advances inside the tape *)
Theorem C07_read_in_bounds :
  forall orc cfg run fr st n,
  match step orc cfg run (ARead n) fr st with
  | SOk b fr' st' => fr_ptr fr' <= List.length (to_data (cur fr st)) /\ fr_ptr fr <= fr_ptr fr' /\ st' = st
  | SRaise e fr' st' => e = ScriptExecutionError /\ fr' = fr /\ st' = st
  | _ => False
  end.
Proof. exact read_in_bounds. Qed.

(* one activation: same tape object, tape bytes never change, pointer only forward and never past the end *)
Theorem C07_pointer_monotone :
  forall orc cfg fuel tid ptr st,
  ptr_out {| fr_tid := tid; fr_ptr := ptr |} st (run_tape orc cfg fuel tid ptr st).
Proof. exact run_tape_ptr. Qed.

Print Assumptions C07_stack_limits_run_script.
Print Assumptions C07_stack_limits_run_auth_scripts.
Print Assumptions C07_every_action_keeps_limits.
Print Assumptions C07_read_in_bounds.
Print Assumptions C07_pointer_monotone.
