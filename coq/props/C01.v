(* C01 — Authorization verdict is exact; a witness cannot truncate or skip the lock.
   (1) the verdict characterised independently of the driver: True iff every script runs from its own first
   instruction to a normal end and the stack then is exactly [ff]; False in every other case; a raise never
   escapes. (2) what a later script inherits from earlier ones: stack, cache minus the control flag,
   definitions, call count — and nothing else. (3) the RETURN-flag discipline (proofs/Discipline.v) is added
   to this file when it is complete; see DESIGN.md. *)
From Coq Require Import ZArith List Bool.
From Coq.Strings Require Import Byte.
From TS Require Import Bytes State Prog Ops Interp StateLemmas AuthSpec StrKeys Limits.
Import ListNotations.
Local Open Scope nat_scope.

Theorem C01_verdict_true_iff :
  forall orc cfg fuel s0 rest vals stf,
  run_auth_scripts orc cfg fuel (s0 :: rest) vals = AuthVerdict true stf <->
  exists fr st1 st2, run_script orc cfg fuel s0 vals = Done tt fr st1 /\ chain orc cfg fuel rest 0 st1 st2
                     /\ st_stack st2 = [[xff]] /\ stf = with_stack st2 [].
Proof. exact auth_true_iff. Qed.

Theorem C01_verdict_false_cases :
  forall orc cfg fuel s0 rest vals stf,
  run_auth_scripts orc cfg fuel (s0 :: rest) vals = AuthVerdict false stf ->
  (exists e fr st1, run_script orc cfg fuel s0 vals = Raised e fr st1) \/
  (exists fr st1, run_script orc cfg fuel s0 vals = Done tt fr st1 /\
     (chain_raises orc cfg fuel rest 0 st1 \/ exists st2, chain orc cfg fuel rest 0 st1 st2 /\ accepting st2 = false)).
Proof. exact auth_false_cases. Qed.

(* a later script is started on a fresh tape object holding exactly its bytes, at offset 0, with the control
   flag removed; stack, definitions and call count are inherited *)
Theorem C01_later_script_start :
  forall st prev s,
  let tid := fst (next_start st prev s) in
  let st' := snd (next_start st prev s) in
  to_data (nth_tape st' tid) = s /\
  to_count (nth_tape st' tid) = to_count (nth_tape st prev) /\
  to_defs (nth_tape st' tid) = to_defs (nth_tape st prev) /\
  st_stack st' = st_stack st /\ st_defs st' = st_defs st /\
  cache_get (st_cache st') returned_key = None.
Proof. exact next_start_spec. Qed.

(* the only outcomes: a verdict, or (model only) fuel exhausted / unmodelled primitive *)
Theorem C01_never_raises :
  forall orc cfg fuel scripts vals,
  match run_auth_scripts orc cfg fuel scripts vals with
  | AuthVerdict _ _ | AuthFuel | AuthUnmod _ => True
  end.
Proof. intros. destruct (run_auth_scripts orc cfg fuel scripts vals); exact I. Qed.

(* D1 regression witness: 'true return' followed by 'if { true } verify false' does not authorise *)
Example C01_return_does_not_leak :
  forall orc,
  let cfg := {| c_max_items := 1024; c_max_item_size := 1024; c_limit := 128%Z; c_flags := []; c_sigext := [];
                c_ctplugins := []; c_contracts := []; c_now := 0%Z |} in
  match run_auth_scripts orc cfg 50 [[x01; x30]; [x2b; x00; x01; x01; x20; x00]] [] with
  | AuthVerdict b _ => b = false
  | _ => False
  end.
Proof. intro orc. vm_compute. reflexivity. Qed.

Print Assumptions C01_verdict_true_iff.
Print Assumptions C01_verdict_false_cases.
Print Assumptions C01_later_script_start.
Print Assumptions C01_never_raises.
