(* C01 — Authorization verdict is exact; a witness cannot truncate or skip the lock.
   (1) the verdict characterised independently of the driver: True iff every script runs from its own first
   instruction to a normal end and the stack then is exactly [ff]; False in every other case; a raise never
   escapes. (2) what a later script inherits from earlier ones: stack, cache minus the control flag,
   definitions, call count — and nothing else. (3) the RETURN-flag discipline: in a run started with the control
   flag clear, EVERY instruction fetch at EVERY nesting level sees the flag clear and every raise happens with the
   flag clear; hence an IF/IF_ELSE/TRY body can end its script only through a RETURN executed inside that very
   body — nothing an earlier script or an earlier instruction did can make a later instruction be skipped. *)
From Coq Require Import ZArith List Bool.
From Coq.Strings Require Import Byte.
From TS Require Import Bytes State Prog Ops Interp StateLemmas AuthSpec StrKeys Limits Discipline.
From TS Require ReturnSemantics.
Import ListNotations.
Local Open Scope nat_scope.

Theorem C01_verdict_true_iff :
  forall orc cfg fuel s0 rest vals stf,
  run_auth_scripts orc cfg fuel (s0 :: rest) vals = AuthVerdict true stf <->
  exists fr st1 st2, run_script orc cfg fuel s0 vals = Done tt fr st1 /\ chain orc cfg fuel rest 0 st1 st2
                     /\ st_stack st2 = [[xff]] /\ stf = with_stack st2 [].
Proof. exact auth_true_iff. Qed.

Theorem C01_verdict_false_cases :
  forall orc cfg fuel s0 rest vals stf,
  run_auth_scripts orc cfg fuel (s0 :: rest) vals = AuthVerdict false stf ->
  (exists e fr st1, run_script orc cfg fuel s0 vals = Raised e fr st1) \/
  (exists fr st1, run_script orc cfg fuel s0 vals = Done tt fr st1 /\
     (chain_raises orc cfg fuel rest 0 st1 \/ exists st2, chain orc cfg fuel rest 0 st1 st2 /\ accepting st2 = false)).
Proof. exact auth_false_cases. Qed.

(* a later script is started on a fresh tape object holding exactly its bytes, at offset 0, with the control
   flag removed; stack, definitions and call count are inherited *)
Theorem C01_later_script_start :
  forall st prev s,
  let tid := fst (next_start st prev s) in
  let st' := snd (next_start st prev s) in
  to_data (nth_tape st' tid) = s /\
  to_count (nth_tape st' tid) = to_count (nth_tape st prev) /\
  to_defs (nth_tape st' tid) = to_defs (nth_tape st prev) /\
  st_stack st' = st_stack st /\ st_defs st' = st_defs st /\
  cache_get (st_cache st') returned_key = None.
Proof. exact next_start_spec. Qed.

(* the only outcomes: a verdict, or (model only) fuel exhausted / unmodelled primitive *)
Theorem C01_never_raises :
  forall orc cfg fuel scripts vals,
  match run_auth_scripts orc cfg fuel scripts vals with
  | AuthVerdict _ _ | AuthFuel | AuthUnmod _ => True
  end.
Proof. intros. destruct (run_auth_scripts orc cfg fuel scripts vals); exact I. Qed.

(* D1 regression witness: 'true return' followed by 'if { true } verify false' does not authorise *)
Example C01_return_does_not_leak :
  forall orc,
  let cfg := {| c_max_items := 1024; c_max_item_size := 1024; c_limit := 128%Z; c_flags := []; c_sigext := [];
                c_ctplugins := []; c_contracts := []; c_now := 0%Z |} in
  match run_auth_scripts orc cfg 50 [[x01; x30]; [x2b; x00; x01; x01; x20; x00]] [] with
  | AuthVerdict b _ => b = false
  | _ => False
  end.
Proof. intro orc. vm_compute. reflexivity. Qed.

(* ---- the RETURN-flag discipline ---- *)

(* every instruction (92 opcodes, NOP, unassigned codes) is typed by the discipline judgement *)
Theorem C01_every_instruction_disciplined :
  forall code, disc (dispatch code) M0 (fun _ m => final m).
Proof. exact dispatch_disc. Qed.

(* one activation of run_tape started with the flag clear: a raise leaves it clear; a normal end leaves it
   clear or the pointer at the end of the tape — for all programs, oracles, configurations, fuel, nestings *)
Theorem C01_run_tape_discipline :
  forall orc cfg fuel tid ptr st,
  flag_clear st ->
  match run_tape orc cfg fuel tid ptr st with
  | Done _ fr' st' => flag_clear st' \/ at_end fr' st'
  | Raised _ _ st' => flag_clear st'
  | _ => True
  end.
Proof. exact run_tape_discipline. Qed.

(* ... and the NEXT fetch again sees a clear flag: no stale RETURN can reach a later instruction *)
Theorem C01_every_fetch_sees_clear_flag :
  forall orc cfg f tid ptr st,
  flag_clear st -> ptr < List.length (to_data (nth_tape st tid)) ->
  match interp orc cfg (fun t s => run_tape orc cfg f t 0 s) (dispatch (code_at st tid ptr))
               {| fr_tid := tid; fr_ptr := S ptr |} st with
  | Done _ fr' st' =>
      fr_tid fr' = tid /\
      (fr_ptr fr' < List.length (to_data (nth_tape st' tid)) -> flag_clear st')
  | Raised _ _ st' => flag_clear st'
  | _ => True
  end.
Proof. exact fetch_flag_clear. Qed.

(* every later script of run_auth_scripts starts with the flag clear, whatever the earlier scripts did *)
Theorem C01_later_scripts_start_clear :
  forall st prev s, flag_clear (next_script_state st prev s).
Proof. exact auth_scripts_start_clear. Qed.

Theorem C01_auth_discipline :
  forall orc cfg fuel scripts vals,
  cache_get (init_cache cfg vals) returned_key = None ->
  match scripts with
  | [] => True
  | s :: rest =>
    flag_clear (init_state cfg s vals) /\
    match run_script orc cfg fuel s vals with
    | Done _ fr' st' => (flag_clear st' \/ at_end fr' st') /\ auth_rest_disc orc cfg fuel rest 0 st'
    | Raised _ _ st' => flag_clear st'
    | _ => True
    end
  end.
Proof. exact run_auth_scripts_discipline. Qed.

Print Assumptions C01_verdict_true_iff.
Print Assumptions C01_every_instruction_disciplined.
Print Assumptions C01_run_tape_discipline.
Print Assumptions C01_every_fetch_sees_clear_flag.
Print Assumptions C01_later_scripts_start_clear.
Print Assumptions C01_auth_discipline.
Print Assumptions C01_verdict_false_cases.
Print Assumptions C01_later_script_start.
Print Assumptions C01_never_raises.

(* ---- what OP_RETURN ends, exactly (proofs/ReturnSemantics.v; for every oracle, configuration and runner, hence at every nesting level).
   RETURN sets the control flag and moves the pointer of its own tape to the end.  IF / IF_ELSE / TRY_EXCEPT hand a RETURN of their body
   on: the enclosing tape ends too (pointer at its end, flag set) -- also when the RETURN happened in the EXCEPT body of a TRY whose body
   raised (a seeded change that dropped exactly this hand-over was at first only visible as a disagreement with the model).  CALL, LOOP
   and EVAL (without eval_return) absorb it: flag cleared, execution goes on after the instruction.  Whole-script corollaries: whatever
   follows `true if { return }` or `try { false verify } except { return }` is never executed.  Closed statements printed by Check. *)
Definition C01_return_exact := @ReturnSemantics.op_return_exact.
Definition C01_if_hands_return_on := @ReturnSemantics.op_if_exact.
Definition C01_if_else_hands_return_on := @ReturnSemantics.op_if_else_exact.
Definition C01_try_except_hands_return_on := @ReturnSemantics.op_try_except_exact.
Definition C01_return_in_except_body_ends_the_script := @ReturnSemantics.op_try_except_returned.
Definition C01_call_absorbs_return := @ReturnSemantics.op_call_exact.
Definition C01_loop_absorbs_return := @ReturnSemantics.op_loop_absorbs.
Definition C01_eval_absorbs_or_hands_on := @ReturnSemantics.eval_body_exact.
Definition C01_nothing_after_if_return_runs := @ReturnSemantics.script_if_return_any_post.
Definition C01_nothing_after_try_except_return_runs := @ReturnSemantics.script_try_except_return_any_post.
Check C01_return_exact.
Check C01_try_except_hands_return_on.
Check C01_return_in_except_body_ends_the_script.
Check C01_nothing_after_try_except_return_runs.
Print ReturnSemantics.hand_on.
Print ReturnSemantics.after_body.
Print Assumptions C01_return_exact.
Print Assumptions C01_if_hands_return_on.
Print Assumptions C01_if_else_hands_return_on.
Print Assumptions C01_try_except_hands_return_on.
Print Assumptions C01_return_in_except_body_ends_the_script.
Print Assumptions C01_call_absorbs_return.
Print Assumptions C01_loop_absorbs_return.
Print Assumptions C01_eval_absorbs_or_hands_on.
Print Assumptions C01_nothing_after_if_return_runs.
Print Assumptions C01_nothing_after_try_except_return_runs.
