(* C06 — Every instruction behaves as the language specification says.
   The Gallina semantics (model/Ops.v, Interp.v) IS the formal reading of docs.md / language_spec.md; conformance of
   the implementation to it is decided by differential execution (any disagreement is a failing input). Proved
   here: the dispatch follows the live opcode table; the documented control scoping: CALL and LOOP absorb a
   RETURN, a RETURN never survives to a later instruction fetch (with props/C01.v); exact instruction theorems
   are in props/C02 (signatures), C03 (multisig), C04 (MERKLEVAL), C05 (TAPROOT), C16 (time), C20 (NOP). *)
From Coq Require Import ZArith List.
From TS Require Import Bytes State Prog Ops Interp TablesCheck Discipline Scoping.
Import ListNotations.
Local Open Scope nat_scope.

(* the dispatch of run_tape follows the live opcode table: assigned codes run their instruction, all others NOP *)
Theorem C06_dispatch_total :
  forall code, code < 256 ->
    (code < Tables.gen_n_opcodes -> exists o, opcode_of_nat code = Some o /\ dispatch code = op_prog o) /\
    (Tables.gen_n_opcodes <= code -> dispatch code = NOP).
Proof.
  intros code H. destruct (dispatch_table code H) as [H1 H2]. split; intro Hc.
  - destruct (H1 Hc) as [o Ho]. exists o. split; [exact Ho|]. unfold dispatch. rewrite Ho. reflexivity.
  - unfold dispatch. rewrite (H2 Hc). reflexivity.
Qed.
(* a called function returns only to its caller; the caller continues normally *)
Theorem C06_call_absorbs_return :
  forall orc cfg f fr st,
  flag_clear st ->
  match interp orc cfg (fun t s => run_tape orc cfg f t 0 s) OP_CALL fr st with
  | Done _ _ st' | Raised _ _ st' => flag_clear st'
  | _ => True
  end.
Proof. exact call_absorbs_return. Qed.

(* a RETURN inside a loop body ends the loop only *)
Theorem C06_loop_absorbs_return :
  forall orc cfg f fr st,
  flag_clear st ->
  match interp orc cfg (fun t s => run_tape orc cfg f t 0 s) OP_LOOP fr st with
  | Done _ _ st' | Raised _ _ st' => flag_clear st'
  | _ => True
  end.
Proof. exact loop_absorbs_return. Qed.

(* D2 regression witness: 'true loop { return } if { } false' reaches the final FALSE *)
Example C06_return_in_loop_ends_only_the_loop :
  forall orc,
  let cfg := {| c_max_items := 1024; c_max_item_size := 1024; c_limit := 128%Z; c_flags := []; c_sigext := [];
                c_ctplugins := []; c_contracts := []; c_now := 0%Z |} in
  match run_script orc cfg 50 [Byte.x01; Byte.x45; Byte.x00; Byte.x01; Byte.x30; Byte.x2b; Byte.x00; Byte.x00; Byte.x00] [] with
  | Done _ _ st => st_stack st = [[Byte.x00]]
  | _ => False
  end.
Proof. intro orc. vm_compute. reflexivity. Qed.

Print Assumptions C06_dispatch_total.
Print Assumptions C06_call_absorbs_return.
Print Assumptions C06_loop_absorbs_return.
