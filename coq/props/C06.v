(* C06 — placeholder, extended below in later stages: frame theorems for the instruction semantics. *)
From Coq Require Import ZArith List.
From TS Require Import Bytes State Prog Ops Interp TablesCheck.
Import ListNotations.
Local Open Scope nat_scope.

(* the dispatch of run_tape follows the live opcode table: assigned codes run their instruction, all others NOP *)
Theorem C06_dispatch_total :
  forall code, code < 256 ->
    (code < Tables.gen_n_opcodes -> exists o, opcode_of_nat code = Some o /\ dispatch code = op_prog o) /\
    (Tables.gen_n_opcodes <= code -> dispatch code = NOP).
Proof.
  intros code H. destruct (dispatch_table code H) as [H1 H2]. split; intro Hc.
  - destruct (H1 Hc) as [o Ho]. exists o. split; [exact Ho|]. unfold dispatch. rewrite Ho. reflexivity.
  - unfold dispatch. rewrite (H2 Hc). reflexivity.
Qed.
Print Assumptions C06_dispatch_total.
