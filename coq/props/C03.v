(* C03 — OP_CHECK_MULTISIG: m distinct signatures by m distinct positions of the key list.
   Part 1: combinatorics of the greedy matching loop over an abstract check [chk] (MultisigPure).
   Part 2: the program-level loop of the model ([ms_find] / [ms_go], which pushes signature and key, runs
   [check_sig_body] and pops the verdict) computes exactly the pure loop, so Part 1 applies to the
   instruction (MultisigLink).  Ed25519 itself stays an oracle: [chk_ok] / [chk_ok_at] say that the
   signature check ends normally with verdict [chk s k]; [C03_chk_ok_at_real] discharges that premise for
   well-formed operands with [chk := real_chk orc cache]. *)
From Coq Require Import ZArith List Bool Arith.
From Coq.Sorting Require Import Permutation.
From Coq.Strings Require Import Byte String.
From TS Require Import Bytes State Prog Ops Interp SigSpec NopSpec MultisigPure MultisigLink.
Import ListNotations.
Local Open Scope nat_scope.

(* ---------- Part 1: the pure loop ---------- *)

Theorem C03_multisig_sound :
  forall (chk : bytes -> bytes -> bool) sigs keys, ms_verdict chk sigs keys = true ->
    NoDup sigs /\
    exists ks rest, List.length ks = List.length sigs /\
                    Forall2 (fun s k => chk s k = true) sigs ks /\
                    Permutation keys (ks ++ rest).
Proof. exact multisig_sound. Qed.

Theorem C03_multisig_sigs_le_keys :
  forall (chk : bytes -> bytes -> bool) sigs keys,
    ms_verdict chk sigs keys = true -> List.length sigs <= List.length keys.
Proof. exact multisig_sigs_le_keys. Qed.

Theorem C03_multisig_repeated_sig_fails :
  forall (chk : bytes -> bytes -> bool) sigs keys, ~ NoDup sigs -> ms_verdict chk sigs keys = false.
Proof. exact multisig_repeated_sig_fails. Qed.

Theorem C03_multisig_distinct_signers :
  forall (chk : bytes -> bytes -> bool) sigs keys, ms_verdict chk sigs keys = true ->
    exists ks rest, List.length ks = List.length sigs /\
                    Forall2 (fun s k => chk s k = true) sigs ks /\
                    Permutation keys (ks ++ rest) /\
                    forall k, count_occ bytes_dec ks k <= count_occ bytes_dec keys k.
Proof. exact multisig_distinct_signers. Qed.

Theorem C03_multisig_complete :
  forall (chk : bytes -> bytes -> bool) sigs keys,
    (forall s k1 k2, In s sigs -> In k1 keys -> In k2 keys ->
                     chk s k1 = true -> chk s k2 = true -> k1 = k2) ->
    NoDup sigs -> NoDup keys ->
    (forall s, In s sigs -> exists k, In k keys /\ chk s k = true) ->
    (forall s1 s2 k, In s1 sigs -> In s2 sigs -> In k keys ->
                     chk s1 k = true -> chk s2 k = true -> s1 = s2) ->
    ms_verdict chk sigs keys = true.
Proof. exact multisig_complete. Qed.

Theorem C03_multisig_order_invariant :
  forall (chk : bytes -> bytes -> bool) sigs keys sigs' keys',
    (forall s k1 k2, In s sigs -> In k1 keys -> In k2 keys ->
                     chk s k1 = true -> chk s k2 = true -> k1 = k2) ->
    NoDup sigs -> NoDup keys ->
    Permutation sigs sigs' -> Permutation keys keys' ->
    ms_verdict chk sigs' keys' = ms_verdict chk sigs keys.
Proof. exact multisig_order_invariant. Qed.

(* ---------- Part 2: the program computes the pure loop ---------- *)

Theorem C03_ms_find_pure :
  forall orc cfg run allowed (chk : bytes -> bytes -> bool) sig keys fr st rest,
  st_stack st = rest ->
  (forall k, In k keys -> chk_ok orc cfg run allowed chk rest sig k /\ pushable cfg rest sig k) ->
  interp orc cfg run (ms_find allowed sig keys) fr st = Done (pfind chk sig keys) fr st.
Proof. exact ms_find_pure. Qed.

Theorem C03_ms_go_pure :
  forall orc cfg run allowed (chk : bytes -> bytes -> bool) sigs keys confirmed fr st rest,
  st_stack st = rest ->
  (forall s k, In s sigs -> In k keys -> chk_ok orc cfg run allowed chk rest s k /\ pushable cfg rest s k) ->
  interp orc cfg run (ms_go allowed sigs keys confirmed) fr st = Done (pgo chk sigs keys confirmed) fr st.
Proof. exact ms_go_pure. Qed.

(* the same with the premise required only at the states the loop visits (st with another stack) *)
Theorem C03_ms_go_pure_at :
  forall orc cfg run allowed (chk : bytes -> bytes -> bool) sigs keys confirmed fr st rest,
  st_stack st = rest ->
  (forall s k, In s sigs -> In k keys ->
     chk_ok_at orc cfg run allowed chk st rest s k /\ pushable cfg rest s k) ->
  interp orc cfg run (ms_go allowed sigs keys confirmed) fr st = Done (pgo chk sigs keys confirmed) fr st.
Proof. exact ms_go_pure_at. Qed.

Theorem C03_chk_ok_implies_at :
  forall orc cfg run allowed (chk : bytes -> bytes -> bool) st0 rest s k,
  chk_ok orc cfg run allowed chk rest s k -> chk_ok_at orc cfg run allowed chk st0 rest s k.
Proof. exact chk_ok_chk_ok_at. Qed.

(* the instruction after its three operand bytes: keys are the n items on top, sigs the next m *)
Theorem C03_check_multisig_core :
  forall orc cfg run allowed (chk : bytes -> bytes -> bool) n m keys sigs rest fr st,
  st_stack st = keys ++ sigs ++ rest ->
  List.length keys = n -> List.length sigs = m ->
  (forall s k, In s sigs -> In k keys -> chk_ok orc cfg run allowed chk rest s k /\ pushable cfg rest s k) ->
  (List.length rest < c_max_items cfg)%nat /\ (1 <= c_max_item_size cfg)%nat ->
  interp orc cfg run
    (vkeys <- repeat_get n ;; sgs <- repeat_get m ;;
     confirmed <- ms_go allowed sgs vkeys [] ;;
     put_bool (Nat.eqb (List.length confirmed) (List.length sgs))) fr st
  = Done tt fr (with_stack st (boolb (ms_verdict chk sigs keys) :: rest)).
Proof. exact check_multisig_core. Qed.

Theorem C03_check_multisig_core_at :
  forall orc cfg run allowed (chk : bytes -> bytes -> bool) n m keys sigs rest fr st,
  st_stack st = keys ++ sigs ++ rest ->
  List.length keys = n -> List.length sigs = m ->
  (forall s k, In s sigs -> In k keys ->
     chk_ok_at orc cfg run allowed chk st rest s k /\ pushable cfg rest s k) ->
  (List.length rest < c_max_items cfg)%nat /\ (1 <= c_max_item_size cfg)%nat ->
  interp orc cfg run
    (vkeys <- repeat_get n ;; sgs <- repeat_get m ;;
     confirmed <- ms_go allowed sgs vkeys [] ;;
     put_bool (Nat.eqb (List.length confirmed) (List.length sgs))) fr st
  = Done tt fr (with_stack st (boolb (ms_verdict chk sigs keys) :: rest)).
Proof. exact check_multisig_core_at. Qed.

(* the whole instruction: run_sig_ext (log events only), the three operand bytes, then the core *)
Theorem C03_check_multisig_full :
  forall orc cfg run allowed (chk : bytes -> bytes -> bool) a mb nb tl keys sigs rest fr st,
  data_at fr st = a :: mb :: nb :: tl ->
  be_to_Z [a] = allowed ->
  st_stack st = keys ++ sigs ++ rest ->
  List.length keys = nat_of (be_to_Z [nb]) -> List.length sigs = nat_of (be_to_Z [mb]) ->
  (forall s k, In s sigs -> In k keys -> chk_ok orc cfg run allowed chk rest s k /\ pushable cfg rest s k) ->
  (List.length rest < c_max_items cfg)%nat /\ (1 <= c_max_item_size cfg)%nat ->
  interp orc cfg run OP_CHECK_MULTISIG fr st
  = Done tt (adv (adv (adv fr 1) 1) 1)
         (with_stack (sigext_log cfg st) (boolb (ms_verdict chk sigs keys) :: rest)).
Proof. exact check_multisig_full. Qed.

(* the premise holds for the real check on well-formed operands, with chk := real_chk orc cache *)
Theorem C03_chk_ok_at_real :
  forall orc cfg run allowed st0 rest s k m x,
  (blen k = 32)%Z -> (blen s = 64 \/ blen s = 65)%Z ->
  flags_permitted (sig_flag s) allowed = true ->
  msg_of (sig_flag s) (st_cache st0) = Some m ->
  (List.length m <= c_max_item_size cfg)%nat -> (1 <= c_max_item_size cfg)%nat ->
  (List.length rest < c_max_items cfg)%nat ->
  orc PVerify [k; m; firstn 64 s] = OOk [x] ->
  chk_ok_at orc cfg run allowed (real_chk orc (st_cache st0)) st0 rest s k.
Proof. exact chk_ok_at_real. Qed.

(* end to end, no abstract premise: OP_CHECK_MULTISIG on well-formed operands pushes the pure verdict *)
Theorem C03_check_multisig_real :
  forall orc cfg run a mb nb tl keys sigs rest fr st,
  data_at fr st = a :: mb :: nb :: tl ->
  st_stack st = keys ++ sigs ++ rest ->
  List.length keys = nat_of (be_to_Z [nb]) -> List.length sigs = nat_of (be_to_Z [mb]) ->
  (forall s k, In s sigs -> In k keys ->
     (blen k = 32)%Z /\ (blen s = 64 \/ blen s = 65)%Z /\
     flags_permitted (sig_flag s) (be_to_Z [a]) = true /\
     exists m x, msg_of (sig_flag s) (st_cache st) = Some m /\
                 (List.length m <= c_max_item_size cfg)%nat /\
                 orc PVerify [k; m; firstn 64 s] = OOk [x]) ->
  (65 <= c_max_item_size cfg)%nat -> (List.length rest + 2 <= c_max_items cfg)%nat ->
  interp orc cfg run OP_CHECK_MULTISIG fr st
  = Done tt (adv (adv (adv fr 1) 1) 1)
         (with_stack (sigext_log cfg st)
                     (boolb (ms_verdict (real_chk orc (st_cache st)) sigs keys) :: rest)).
Proof. exact check_multisig_real. Qed.

(* ---------- Part 2b: the pure theorems, stated about the byte the instruction pushes ---------- *)

(* a pushed xff means pairwise different signatures, each valid under a different POSITION of the key list *)
Theorem C03_true_sound :
  forall orc cfg run allowed (chk : bytes -> bytes -> bool) n m keys sigs rest fr st fr' st',
  st_stack st = keys ++ sigs ++ rest ->
  List.length keys = n -> List.length sigs = m ->
  (forall s k, In s sigs -> In k keys -> chk_ok orc cfg run allowed chk rest s k /\ pushable cfg rest s k) ->
  (List.length rest < c_max_items cfg)%nat /\ (1 <= c_max_item_size cfg)%nat ->
  interp orc cfg run (multisig_tail allowed n m) fr st = Done tt fr' st' ->
  st_stack st' = [xff] :: rest ->
  NoDup sigs /\
  exists ks unused, List.length ks = List.length sigs /\
                    Forall2 (fun s k => chk s k = true) sigs ks /\
                    Permutation keys (ks ++ unused).
Proof. exact check_multisig_true_sound. Qed.

Theorem C03_true_sigs_le_keys :
  forall orc cfg run allowed (chk : bytes -> bytes -> bool) n m keys sigs rest fr st fr' st',
  st_stack st = keys ++ sigs ++ rest ->
  List.length keys = n -> List.length sigs = m ->
  (forall s k, In s sigs -> In k keys -> chk_ok orc cfg run allowed chk rest s k /\ pushable cfg rest s k) ->
  (List.length rest < c_max_items cfg)%nat /\ (1 <= c_max_item_size cfg)%nat ->
  interp orc cfg run (multisig_tail allowed n m) fr st = Done tt fr' st' ->
  st_stack st' = [xff] :: rest ->
  m <= n.
Proof. exact check_multisig_true_sigs_le_keys. Qed.

(* a repeated signature makes the instruction push x00 *)
Theorem C03_repeated_sig_false :
  forall orc cfg run allowed (chk : bytes -> bytes -> bool) n m keys sigs rest fr st,
  st_stack st = keys ++ sigs ++ rest ->
  List.length keys = n -> List.length sigs = m ->
  (forall s k, In s sigs -> In k keys -> chk_ok orc cfg run allowed chk rest s k /\ pushable cfg rest s k) ->
  (List.length rest < c_max_items cfg)%nat /\ (1 <= c_max_item_size cfg)%nat ->
  ~ NoDup sigs ->
  interp orc cfg run (multisig_tail allowed n m) fr st = Done tt fr (with_stack st ([x00] :: rest)).
Proof. exact check_multisig_repeated_sig_false. Qed.

(* under exclusivity and NoDup, permuting keys and signatures on the stack does not change the pushed byte *)
Theorem C03_order_invariant :
  forall orc cfg run allowed (chk : bytes -> bytes -> bool) n m keys sigs keys' sigs' rest fr st fr2 st2,
  st_stack st = keys ++ sigs ++ rest ->
  st_stack st2 = keys' ++ sigs' ++ rest ->
  List.length keys = n -> List.length sigs = m ->
  (forall s k, In s sigs -> In k keys -> chk_ok orc cfg run allowed chk rest s k /\ pushable cfg rest s k) ->
  (List.length rest < c_max_items cfg)%nat /\ (1 <= c_max_item_size cfg)%nat ->
  (forall s k1 k2, In s sigs -> In k1 keys -> In k2 keys ->
                   chk s k1 = true -> chk s k2 = true -> k1 = k2) ->
  NoDup sigs -> NoDup keys ->
  Permutation sigs sigs' -> Permutation keys keys' ->
  exists v,
    interp orc cfg run (multisig_tail allowed n m) fr st = Done tt fr (with_stack st (v :: rest)) /\
    interp orc cfg run (multisig_tail allowed n m) fr2 st2 = Done tt fr2 (with_stack st2 (v :: rest)).
Proof. exact check_multisig_order_invariant. Qed.

(* under the premises of completeness the instruction pushes xff *)
Theorem C03_complete :
  forall orc cfg run allowed (chk : bytes -> bytes -> bool) n m keys sigs rest fr st,
  st_stack st = keys ++ sigs ++ rest ->
  List.length keys = n -> List.length sigs = m ->
  (forall s k, In s sigs -> In k keys -> chk_ok orc cfg run allowed chk rest s k /\ pushable cfg rest s k) ->
  (List.length rest < c_max_items cfg)%nat /\ (1 <= c_max_item_size cfg)%nat ->
  (forall s k1 k2, In s sigs -> In k1 keys -> In k2 keys ->
                   chk s k1 = true -> chk s k2 = true -> k1 = k2) ->
  NoDup sigs -> NoDup keys ->
  (forall s, In s sigs -> exists k, In k keys /\ chk s k = true) ->
  (forall s1 s2 k, In s1 sigs -> In s2 sigs -> In k keys ->
                   chk s1 k = true -> chk s2 k = true -> s1 = s2) ->
  interp orc cfg run (multisig_tail allowed n m) fr st = Done tt fr (with_stack st ([xff] :: rest)).
Proof. exact check_multisig_complete. Qed.

(* ---------- non-vacuity ---------- *)

(* pure loop: 2-of-3 passes in either order; a repeated signature fails even if the key occurs twice *)
Example C03_example_pure :
  ms_verdict chk_eq [[x01]; [x03]] [[x01]; [x02]; [x03]] = true /\
  ms_verdict chk_eq [[x03]; [x01]] [[x01]; [x02]; [x03]] = true /\
  ms_verdict chk_eq [[x01]; [x01]] [[x01]; [x01]; [x03]] = false.
Proof. repeat split; reflexivity. Qed.

(* the instruction itself, run by the model interpreter on a toy oracle ("a signature verifies under the
   key with the same first byte"), 32-byte keys, 64-byte signatures, operands allowed=xff m=2 n=3 *)
Definition ex_orc : oracle := fun p args =>
  match p, args with
  | PVerify, [k; _; s] => OOk [[if Byte.eqb (hd x00 k) (hd x00 s) then x01 else x00]]
  | _, _ => OOk []
  end.
Definition ex_cfg : config :=
  {| c_max_items := 100; c_max_item_size := 100; c_limit := 64%Z; c_flags := []; c_sigext := [7];
     c_ctplugins := []; c_contracts := []; c_now := 0%Z |}.
Definition ex_run : nat -> state -> outcome unit := fun _ _ => OutOfFuel.
Definition ex_key (b : byte) : bytes := repeat b 32.
Definition ex_sig (b : byte) : bytes := repeat b 64.
Definition ex_state (sigs : list bytes) : state :=
  {| st_stack := [ex_key x01; ex_key x02; ex_key x03] ++ sigs ++ [[x2a]]; st_cache := [];
     st_tapes := [{| to_data := [xff; x02; x03]; to_count := 0%Z; to_defs := 0 |}];
     st_defs := [[]]; st_log := []; st_rand := 0%Z |}.
Definition ex_result (sigs : list bytes) : option (nat * list bytes * list event) :=
  match interp ex_orc ex_cfg ex_run OP_CHECK_MULTISIG {| fr_tid := 0; fr_ptr := 0 |} (ex_state sigs) with
  | Done _ fr st => Some (fr_ptr fr, st_stack st, st_log st)
  | _ => None
  end.

Example C03_example_runs :
  ex_result [ex_sig x01; ex_sig x03] = Some (3, [[xff]; [x2a]], [EvSigExt 7]) /\
  ex_result [ex_sig x03; ex_sig x01] = Some (3, [[xff]; [x2a]], [EvSigExt 7]) /\
  ex_result [ex_sig x01; ex_sig x01] = Some (3, [[x00]; [x2a]], [EvSigExt 7]) /\
  ex_result [ex_sig x01; ex_sig x04] = Some (3, [[x00]; [x2a]], [EvSigExt 7]).
Proof. vm_compute. repeat split; reflexivity. Qed.

(* ... and the end-to-end theorem predicts the same byte for the first run *)
Example C03_example_real_chk :
  boolb (ms_verdict (real_chk ex_orc []) [ex_sig x01; ex_sig x03] [ex_key x01; ex_key x02; ex_key x03]) = [xff].
Proof. vm_compute. reflexivity. Qed.

Print Assumptions C03_multisig_sound.
Print Assumptions C03_multisig_sigs_le_keys.
Print Assumptions C03_multisig_repeated_sig_fails.
Print Assumptions C03_multisig_distinct_signers.
Print Assumptions C03_multisig_complete.
Print Assumptions C03_multisig_order_invariant.
Print Assumptions C03_ms_find_pure.
Print Assumptions C03_ms_go_pure.
Print Assumptions C03_ms_go_pure_at.
Print Assumptions C03_chk_ok_implies_at.
Print Assumptions C03_check_multisig_core.
Print Assumptions C03_check_multisig_core_at.
Print Assumptions C03_check_multisig_full.
Print Assumptions C03_chk_ok_at_real.
Print Assumptions C03_check_multisig_real.
Print Assumptions C03_true_sound.
Print Assumptions C03_true_sigs_le_keys.
Print Assumptions C03_repeated_sig_false.
Print Assumptions C03_order_invariant.
Print Assumptions C03_complete.
Print Assumptions C03_example_pure.
Print Assumptions C03_example_runs.
Print Assumptions C03_example_real_chk.
