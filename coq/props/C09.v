(* C09 — Embedder configuration applies uniformly at every nesting level.
   In the model the configuration is ONE value [cfg] (flags, limits, plugins, contracts, clock) that every
   action reads; no action writes it. That this matches the implementation (where it is copied from tape to
   tape) is what the correspondence stream over all nestings checks. Proved here: every read of the
   configuration, at any depth, returns the embedder's value; sub-tapes are interpreted under the same
   configuration; signature extensions run exactly once before the signature instructions; EVAL stays
   disallowed; the flag instructions change nothing (known finding D7: they cannot set a flag either). *)
From Coq Require Import ZArith List Bool.
From Coq.Strings Require Import Byte String.
From TS Require Import Bytes State Prog Ops Interp NopSpec SigSpec ConfigSpec.
From TS Require SigExtOnce.
Import ListNotations.
Open Scope Z_scope.

Theorem C09_config_everywhere :
  forall orc cfg run fr st, step orc cfg run AConfig fr st = SOk cfg fr st.
Proof. exact config_everywhere. Qed.

Theorem C09_sub_tapes_same_config :
  forall orc cfg f tid ptr st,
  run_tape orc cfg (S f) tid ptr st =
    let data := to_data (nth_tape st tid) in
    if (List.length data <=? ptr)%nat then Done tt {| fr_tid := tid; fr_ptr := ptr |} st
    else match interp orc cfg (fun t s => run_tape orc cfg f t 0%nat s)
                 (dispatch (N.to_nat (Byte.to_N (nth ptr data x00)))) {| fr_tid := tid; fr_ptr := S ptr |} st with
         | Done _ fr' st' => run_tape orc cfg f tid (fr_ptr fr') st'
         | Raised e fr' st' => Raised e fr' st'
         | OutOfFuel => OutOfFuel
         | Unmodelled w => Unmodelled w
         end.
Proof. exact sub_tapes_same_config. Qed.

Theorem C09_sig_extensions_once :
  forall orc cfg run fr st, interp orc cfg run run_sig_ext fr st = Done tt fr (sigext_log cfg st).
Proof. exact run_sig_ext_spec. Qed.

Theorem C09_get_message_runs_plugins_once :
  forall orc cfg run fr st b rest m,
  data_at fr st = b :: rest ->
  msg_of (b2z b) (st_cache st) = Some m ->
  (List.length m <= c_max_item_size cfg)%nat -> (List.length (st_stack st) < c_max_items cfg)%nat ->
  interp orc cfg run OP_GET_MESSAGE fr st =
    Done tt (adv fr 1) (with_stack (sigext_log cfg st) (m :: st_stack st)).
Proof. exact get_message_exact. Qed.

Theorem C09_check_sig_runs_plugins_once :
  forall orc cfg run fr st b rest,
  data_at fr st = b :: rest ->
  interp orc cfg run OP_CHECK_SIG fr st =
    interp orc cfg run (check_sig_body (b2z b)) (adv fr 1) (sigext_log cfg st).
Proof. exact check_sig_decomposed. Qed.

(* ---- WHEN the signature-extension plugins run (proofs/SigExtOnce.v).  A plugin run is the log event EvSigExt id.
   (1) exactly once, and first: each of GET_MESSAGE, CHECK_SIG(_VERIFY), CHECK_MULTISIG(_VERIFY), SIGN adds, in every outcome (Done or
       Raised), exactly the configured plugins, each once, in order -- for every oracle, configuration, runner (hence at every nesting
       level), frame and state; the inner signature checks of CHECK_MULTISIG (any number of signatures x keys) never run them again;
       CHECK_TEMPLATE(_VERIFY) the same when flag 10 is absent or truthy and not at all when it is present and falsy; OP_TAPROOT's key
       path exactly once (under the preconditions of the key-path theorem), never twice in any state;
   (2) never otherwise: every other instruction of the table, NOP included, adds no plugin event (block instructions: none of their
       own; what their sub-tapes add is the runner's) -- so a plugin event in the log means a signature instruction executed.
   Closed statements (all Section variables explicit) are printed by Check. *)
Definition C09_sig_instructions_run_plugins_exactly_once := @SigExtOnce.sig_instruction_runs_plugins_exactly_once.
Definition C09_sig_instructions_once_at_every_level := @SigExtOnce.sig_instruction_once_at_every_level.
Definition C09_multisig_inner_checks_never_rerun_plugins := @SigExtOnce.ms_go_never_twice.
Definition C09_check_template_runs_plugins_once_iff_flag10 := @SigExtOnce.check_template_runs_plugins_exactly_once.
Definition C09_taproot_key_path_runs_plugins_exactly_once := @SigExtOnce.taproot_key_path_plugins_exactly_once.
Definition C09_taproot_never_twice := @SigExtOnce.taproot_at_most_once.
Definition C09_other_instructions_run_no_plugin := @SigExtOnce.other_instructions_run_no_plugin.
Definition C09_plugin_event_only_from_sig_instruction := @SigExtOnce.plugin_event_only_from_sig_instruction.
Definition C09_no_sigext_iff_not_sig_instruction := @SigExtOnce.no_sigext_iff.
Check C09_sig_instructions_run_plugins_exactly_once.
Check C09_sig_instructions_once_at_every_level.
Check C09_multisig_inner_checks_never_rerun_plugins.
Check C09_check_template_runs_plugins_once_iff_flag10.
Check C09_taproot_key_path_runs_plugins_exactly_once.
Check C09_taproot_never_twice.
Check C09_other_instructions_run_no_plugin.
Check C09_plugin_event_only_from_sig_instruction.
Check C09_no_sigext_iff_not_sig_instruction.
Print SigExtOnce.plugins_once.
Print SigExtOnce.plugin_instructions.
Print SigExtOnce.is_sig_op.

Theorem C09_eval_stays_disallowed :
  forall orc cfg run fr st v,
  flag_get (c_flags cfg) (FKStr (str "disallow_OP_EVAL")) = Some v ->
  interp orc cfg run eval_body fr st = Raised ScriptExecutionError fr st.
Proof. exact eval_disallowed. Qed.

(* D7 *)
Theorem C09_set_flag_refuted :
  forall orc cfg run fr st,
  match interp orc cfg run OP_SET_FLAG fr st with
  | Raised ScriptExecutionError _ st' => st' = st
  | _ => False
  end.
Proof. exact set_flag_always_raises. Qed.

Theorem C09_unset_flag_changes_nothing :
  forall orc cfg run fr st,
  match interp orc cfg run OP_UNSET_FLAG fr st with
  | Done _ _ st' | Raised _ _ st' => st' = st
  | _ => False
  end.
Proof. exact unset_flag_changes_nothing. Qed.

Print Assumptions C09_config_everywhere.
Print Assumptions C09_sub_tapes_same_config.
Print Assumptions C09_sig_extensions_once.
Print Assumptions C09_get_message_runs_plugins_once.
Print Assumptions C09_check_sig_runs_plugins_once.
Print Assumptions C09_eval_stays_disallowed.
Print Assumptions C09_set_flag_refuted.
Print Assumptions C09_unset_flag_changes_nothing.
Print Assumptions C09_sig_instructions_run_plugins_exactly_once.
Print Assumptions C09_sig_instructions_once_at_every_level.
Print Assumptions C09_multisig_inner_checks_never_rerun_plugins.
Print Assumptions C09_check_template_runs_plugins_once_iff_flag10.
Print Assumptions C09_taproot_key_path_runs_plugins_exactly_once.
Print Assumptions C09_taproot_never_twice.
Print Assumptions C09_other_instructions_run_no_plugin.
Print Assumptions C09_plugin_event_only_from_sig_instruction.
Print Assumptions C09_no_sigext_iff_not_sig_instruction.
