(* C17 — adapter signatures are algebraically correct, for every commutative ring of scalars
   acting on an abelian group of points, every base point G and every challenge function chal.
   Each theorem is closed: the ring / group / module laws it needs appear as explicit premises
   (only the laws actually used by its proof).  All sensitivity statements are exact
   characterisations (iff); no hardness assumption is made anywhere.
   Proofs are in proofs/Algebra.v. *)
From Coq Require Import ZArith List Ring Ring_theory.
From Coq Require Import Bool.
From Coq.Strings Require Import Byte.
From TS Require Import Bytes State Prog Ops Interp Algebra AdapterLink.
From TS Require BuilderSourcesProofs.
Import ListNotations.

(* ---- the definitions the statements are about (mirror of tapescript/functions.py) ---- *)
Example C17_def_pub : forall (scalar point : Type) (act : scalar -> point -> point) (G : point) x,
  pub act G x = act x G.
Proof. reflexivity. Qed.
Example C17_def_sig_valid : forall (scalar point msg : Type) (padd : point -> point -> point)
    (act : scalar -> point -> point) (G : point) (chal : point -> point -> msg -> scalar) X m R s,
  sig_valid padd act G chal X m R s = (act s G = padd R (act (chal R X m) X)).
Proof. reflexivity. Qed.
(* OP_MAKE_ADAPTER_SIG_PUBLIC: (R, sa) = (r G, r + c(R + T, X, m) x) *)
Example C17_def_make_adapter_public : forall (scalar point msg : Type) (sadd smul : scalar -> scalar -> scalar)
    (padd : point -> point -> point) (act : scalar -> point -> point) (G : point)
    (chal : point -> point -> msg -> scalar) x r T m,
  make_adapter_public sadd smul padd act G chal x r T m =
  (act r G, sadd r (smul (chal (padd (act r G) T) (act x G) m) x)).
Proof. reflexivity. Qed.
(* OP_CHECK_ADAPTER_SIG: sa G = R + c(R + T, X, m) X *)
Example C17_def_check_adapter : forall (scalar point msg : Type) (padd : point -> point -> point)
    (act : scalar -> point -> point) (G : point) (chal : point -> point -> msg -> scalar) X T m R sa,
  check_adapter padd act G chal X T m R sa = (act sa G = padd R (act (chal (padd R T) X m) X)).
Proof. reflexivity. Qed.
(* OP_DECRYPT_ADAPTER_SIG: (RT, s) = (R + t G, sa + t) *)
Example C17_def_decrypt_adapter : forall (scalar point : Type) (sadd : scalar -> scalar -> scalar)
    (padd : point -> point -> point) (act : scalar -> point -> point) (G : point) t R sa,
  decrypt_adapter sadd padd act G t R sa = (padd R (act t G), sadd sa t).
Proof. reflexivity. Qed.
Example C17_def_recover : forall (scalar : Type) (ssub : scalar -> scalar -> scalar) s sa,
  recover ssub s sa = ssub s sa.
Proof. reflexivity. Qed.
(* OP_MAKE_ADAPTER_SIG_PRIVATE as written: (T, R, sa') = (t G, r G, t + r + c(R, X, m) x) *)
Example C17_def_make_adapter_private : forall (scalar point msg : Type) (sadd smul : scalar -> scalar -> scalar)
    (act : scalar -> point -> point) (G : point) (chal : point -> point -> msg -> scalar) x r t m,
  make_adapter_private sadd smul act G chal x r t m =
  (act t G, act r G, sadd (sadd t r) (smul (chal (act r G) (act x G) m) x)).
Proof. reflexivity. Qed.

(* 1. the adapter made for T passes OP_CHECK_ADAPTER_SIG for (pub x, T, m) *)
Theorem C17_adapter_checks :
  forall (scalar : Type) (sadd smul : scalar -> scalar -> scalar)
      (point : Type) (padd : point -> point -> point) (act : scalar -> point -> point),
    (forall (a b : scalar) (P : point), act (sadd a b) P = padd (act a P) (act b P)) ->
    (forall (a b : scalar) (P : point), act (smul a b) P = act a (act b P)) ->
    forall (G : point) (msg : Type) (chal : point -> point -> msg -> scalar)
      (x r : scalar) (T : point) (m : msg),
    check_adapter padd act G chal (pub act G x) T m
      (fst (make_adapter_public sadd smul padd act G chal x r T m))
      (snd (make_adapter_public sadd smul padd act G chal x r T m)).
Proof. exact adapter_checks. Qed.

(* 2. decrypting with t (T = t G) gives (R + T, sa + t), an ordinary valid signature under pub x *)
Theorem C17_adapter_decrypts :
  forall (scalar : Type) (sadd smul : scalar -> scalar -> scalar)
      (point : Type) (padd : point -> point -> point),
    (forall P Q : point, padd P Q = padd Q P) ->
    (forall P Q R : point, padd P (padd Q R) = padd (padd P Q) R) ->
    forall act : scalar -> point -> point,
    (forall (a b : scalar) (P : point), act (sadd a b) P = padd (act a P) (act b P)) ->
    (forall (a b : scalar) (P : point), act (smul a b) P = act a (act b P)) ->
    forall (G : point) (msg : Type) (chal : point -> point -> msg -> scalar)
      (x r t : scalar) (m : msg),
    let T := act t G in
    let ad := make_adapter_public sadd smul padd act G chal x r T m in
    let dec := decrypt_adapter sadd padd act G t (fst ad) (snd ad) in
    fst dec = padd (fst ad) T /\
    snd dec = sadd (snd ad) t /\ sig_valid padd act G chal (pub act G x) m (fst dec) (snd dec).
Proof. exact adapter_decrypts. Qed.

(* 3. s - sa = t *)
Theorem C17_recover_decrypt :
  forall (scalar : Type) (s0 s1 : scalar) (sadd smul ssub : scalar -> scalar -> scalar)
      (sopp : scalar -> scalar),
    ring_theory s0 s1 sadd smul ssub sopp eq ->
    forall sa t : scalar, recover ssub (sadd sa t) sa = t.
Proof. exact recover_decrypt. Qed.

Theorem C17_adapter_recovers :
  forall (scalar : Type) (s0 s1 : scalar) (sadd smul ssub : scalar -> scalar -> scalar)
      (sopp : scalar -> scalar),
    ring_theory s0 s1 sadd smul ssub sopp eq ->
    forall (point : Type) (padd : point -> point -> point) (act : scalar -> point -> point)
      (G : point) (msg : Type) (chal : point -> point -> msg -> scalar)
      (x r t : scalar) (m : msg),
    let ad := make_adapter_public sadd smul padd act G chal x r (act t G) m in
    let dec := decrypt_adapter sadd padd act G t (fst ad) (snd ad) in
    recover ssub (snd dec) (snd ad) = t.
Proof. exact adapter_recovers. Qed.

(* 4a. against the honest (X, T, m, R) the check accepts sa2 iff sa2 G = sa G *)
Theorem C17_check_sensitive_sa :
  forall (scalar : Type) (sadd smul : scalar -> scalar -> scalar)
      (point : Type) (padd : point -> point -> point) (act : scalar -> point -> point),
    (forall (a b : scalar) (P : point), act (sadd a b) P = padd (act a P) (act b P)) ->
    (forall (a b : scalar) (P : point), act (smul a b) P = act a (act b P)) ->
    forall (G : point) (msg : Type) (chal : point -> point -> msg -> scalar)
      (x r : scalar) (T : point) (m : msg) (sa2 : scalar),
    let ad := make_adapter_public sadd smul padd act G chal x r T m in
    check_adapter padd act G chal (pub act G x) T m (fst ad) sa2 <-> act sa2 G = act (snd ad) G.
Proof. exact check_sensitive_sa. Qed.

(* 4b. an arbitrary tuple passes iff the displayed equation holds *)
Theorem C17_check_adapter_spec :
  forall (scalar point : Type) (padd : point -> point -> point)
      (act : scalar -> point -> point) (G : point) (msg : Type)
      (chal : point -> point -> msg -> scalar) (X2 T2 : point) (m2 : msg)
      (R2 : point) (sa2 : scalar),
    check_adapter padd act G chal X2 T2 m2 R2 sa2 <->
    act sa2 G = padd R2 (act (chal (padd R2 T2) X2 m2) X2).
Proof. exact check_adapter_spec. Qed.

(* 4b. honest adapter, only T replaced by T2 *)
Theorem C17_check_sensitive_T :
  forall (scalar : Type) (sadd smul : scalar -> scalar -> scalar)
      (point : Type) (p0 : point) (padd : point -> point -> point) (popp : point -> point),
    (forall P Q : point, padd P Q = padd Q P) ->
    (forall P Q R : point, padd P (padd Q R) = padd (padd P Q) R) ->
    (forall P : point, padd p0 P = P) ->
    (forall P : point, padd P (popp P) = p0) ->
    forall act : scalar -> point -> point,
    (forall (a b : scalar) (P : point), act (sadd a b) P = padd (act a P) (act b P)) ->
    (forall (a b : scalar) (P : point), act (smul a b) P = act a (act b P)) ->
    forall (G : point) (msg : Type) (chal : point -> point -> msg -> scalar)
      (x r : scalar) (T : point) (m : msg) (T2 : point),
    let ad := make_adapter_public sadd smul padd act G chal x r T m in
    let R := fst ad in
    let X := pub act G x in
    check_adapter padd act G chal X T2 m R (snd ad) <->
    act (chal (padd R T) X m) X = act (chal (padd R T2) X m) X.
Proof. exact check_sensitive_T. Qed.

(* 4c. honest adapter, only m replaced by m2 *)
Theorem C17_check_sensitive_m :
  forall (scalar : Type) (sadd smul : scalar -> scalar -> scalar)
      (point : Type) (p0 : point) (padd : point -> point -> point) (popp : point -> point),
    (forall P Q : point, padd P Q = padd Q P) ->
    (forall P Q R : point, padd P (padd Q R) = padd (padd P Q) R) ->
    (forall P : point, padd p0 P = P) ->
    (forall P : point, padd P (popp P) = p0) ->
    forall act : scalar -> point -> point,
    (forall (a b : scalar) (P : point), act (sadd a b) P = padd (act a P) (act b P)) ->
    (forall (a b : scalar) (P : point), act (smul a b) P = act a (act b P)) ->
    forall (G : point) (msg : Type) (chal : point -> point -> msg -> scalar)
      (x r : scalar) (T : point) (m m2 : msg),
    let ad := make_adapter_public sadd smul padd act G chal x r T m in
    let R := fst ad in
    let X := pub act G x in
    check_adapter padd act G chal X T m2 R (snd ad) <->
    act (chal (padd R T) X m) X = act (chal (padd R T) X m2) X.
Proof. exact check_sensitive_m. Qed.

(* 5. the bare adapter (R, sa) is an ordinary signature iff the two challenges agree on X *)
Theorem C17_adapter_not_signature_iff :
  forall (scalar : Type) (sadd smul : scalar -> scalar -> scalar)
      (point : Type) (p0 : point) (padd : point -> point -> point) (popp : point -> point),
    (forall P Q : point, padd P Q = padd Q P) ->
    (forall P Q R : point, padd P (padd Q R) = padd (padd P Q) R) ->
    (forall P : point, padd p0 P = P) ->
    (forall P : point, padd P (popp P) = p0) ->
    forall act : scalar -> point -> point,
    (forall (a b : scalar) (P : point), act (sadd a b) P = padd (act a P) (act b P)) ->
    (forall (a b : scalar) (P : point), act (smul a b) P = act a (act b P)) ->
    forall (G : point) (msg : Type) (chal : point -> point -> msg -> scalar)
      (x r : scalar) (T : point) (m : msg),
    let ad := make_adapter_public sadd smul padd act G chal x r T m in
    let R := fst ad in
    let X := pub act G x in
    sig_valid padd act G chal X m R (snd ad) <->
    act (chal (padd R T) X m) X = act (chal R X m) X.
Proof. exact adapter_not_signature_iff. Qed.

(* 6. decrypting with t2 (T arbitrary) yields a valid signature iff the challenges for R + T and R + t2 G agree on X *)
Theorem C17_wrong_scalar_iff :
  forall (scalar : Type) (sadd smul : scalar -> scalar -> scalar)
      (point : Type) (p0 : point) (padd : point -> point -> point) (popp : point -> point),
    (forall P Q : point, padd P Q = padd Q P) ->
    (forall P Q R : point, padd P (padd Q R) = padd (padd P Q) R) ->
    (forall P : point, padd p0 P = P) ->
    (forall P : point, padd P (popp P) = p0) ->
    forall act : scalar -> point -> point,
    (forall (a b : scalar) (P : point), act (sadd a b) P = padd (act a P) (act b P)) ->
    (forall (a b : scalar) (P : point), act (smul a b) P = act a (act b P)) ->
    forall (G : point) (msg : Type) (chal : point -> point -> msg -> scalar)
      (x r : scalar) (T : point) (m : msg) (t2 : scalar),
    let ad := make_adapter_public sadd smul padd act G chal x r T m in
    let R := fst ad in
    let X := pub act G x in
    let dec := decrypt_adapter sadd padd act G t2 R (snd ad) in
    sig_valid padd act G chal X m (fst dec) (snd dec) <->
    act (chal (padd R T) X m) X = act (chal (padd R (act t2 G)) X m) X.
Proof. exact wrong_scalar_iff. Qed.

(* 6'. sa + t2 verifies against the intended nonce R + T iff t2 G = T *)
Theorem C17_wrong_scalar_intended_nonce_iff :
  forall (scalar : Type) (sadd smul : scalar -> scalar -> scalar)
      (point : Type) (p0 : point) (padd : point -> point -> point) (popp : point -> point),
    (forall P Q : point, padd P Q = padd Q P) ->
    (forall P Q R : point, padd P (padd Q R) = padd (padd P Q) R) ->
    (forall P : point, padd p0 P = P) ->
    (forall P : point, padd P (popp P) = p0) ->
    forall act : scalar -> point -> point,
    (forall (a b : scalar) (P : point), act (sadd a b) P = padd (act a P) (act b P)) ->
    (forall (a b : scalar) (P : point), act (smul a b) P = act a (act b P)) ->
    forall (G : point) (msg : Type) (chal : point -> point -> msg -> scalar)
      (x r : scalar) (T : point) (m : msg) (t2 : scalar),
    let ad := make_adapter_public sadd smul padd act G chal x r T m in
    let R := fst ad in
    let X := pub act G x in
    sig_valid padd act G chal X m (padd R T) (sadd (snd ad) t2) <-> act t2 G = T.
Proof. exact wrong_scalar_intended_nonce_iff. Qed.

(* 6 corollary: if a |-> a X, a |-> a G and P |-> chal P X m are injective, only t decrypts *)
Theorem C17_wrong_scalar_injective :
  forall (scalar : Type) (sadd smul : scalar -> scalar -> scalar)
      (point : Type) (p0 : point) (padd : point -> point -> point) (popp : point -> point),
    (forall P Q : point, padd P Q = padd Q P) ->
    (forall P Q R : point, padd P (padd Q R) = padd (padd P Q) R) ->
    (forall P : point, padd p0 P = P) ->
    (forall P : point, padd P (popp P) = p0) ->
    forall act : scalar -> point -> point,
    (forall (a b : scalar) (P : point), act (sadd a b) P = padd (act a P) (act b P)) ->
    (forall (a b : scalar) (P : point), act (smul a b) P = act a (act b P)) ->
    forall (G : point) (msg : Type) (chal : point -> point -> msg -> scalar)
      (x r t : scalar) (m : msg) (t2 : scalar),
    (forall a b : scalar, act a (pub act G x) = act b (pub act G x) -> a = b) ->
    (forall a b : scalar, act a G = act b G -> a = b) ->
    (forall P Q : point, chal P (pub act G x) m = chal Q (pub act G x) m -> P = Q) ->
    let ad := make_adapter_public sadd smul padd act G chal x r (act t G) m in
    let dec := decrypt_adapter sadd padd act G t2 (fst ad) (snd ad) in
    sig_valid padd act G chal (pub act G x) m (fst dec) (snd dec) -> t2 = t.
Proof. exact wrong_scalar_injective. Qed.

(* 7. OP_MAKE_ADAPTER_SIG_PRIVATE: its output passes OP_CHECK_ADAPTER_SIG iff T + c(R,X,m) X = c(R+T,X,m) X *)
Theorem C17_private_variant_check_iff :
  forall (scalar : Type) (s0 s1 : scalar) (sadd smul ssub : scalar -> scalar -> scalar)
      (sopp : scalar -> scalar),
    ring_theory s0 s1 sadd smul ssub sopp eq ->
    forall (point : Type) (p0 : point) (padd : point -> point -> point) (popp : point -> point),
    (forall P Q : point, padd P Q = padd Q P) ->
    (forall P Q R : point, padd P (padd Q R) = padd (padd P Q) R) ->
    (forall P : point, padd p0 P = P) ->
    (forall P : point, padd P (popp P) = p0) ->
    forall act : scalar -> point -> point,
    (forall (a b : scalar) (P : point), act (sadd a b) P = padd (act a P) (act b P)) ->
    (forall (a b : scalar) (P : point), act (smul a b) P = act a (act b P)) ->
    forall (G : point) (msg : Type) (chal : point -> point -> msg -> scalar)
      (x r t : scalar) (m : msg),
    let R := act r G in
    let T := act t G in
    let X := pub act G x in
    let sa' := snd (make_adapter_private sadd smul act G chal x r t m) in
    make_adapter_private sadd smul act G chal x r t m = (T, R, sa') /\
    (check_adapter padd act G chal X T m R sa' <->
     padd T (act (chal R X m) X) = act (chal (padd R T) X m) X).
Proof. exact private_variant_check_iff. Qed.

(* 7. ... and its decryption (R + T, sa' + t) is a valid signature iff the same equation holds *)
Theorem C17_private_variant_decrypt_iff :
  forall (scalar : Type) (s0 s1 : scalar) (sadd smul ssub : scalar -> scalar -> scalar)
      (sopp : scalar -> scalar),
    ring_theory s0 s1 sadd smul ssub sopp eq ->
    forall (point : Type) (p0 : point) (padd : point -> point -> point) (popp : point -> point),
    (forall P Q : point, padd P Q = padd Q P) ->
    (forall P Q R : point, padd P (padd Q R) = padd (padd P Q) R) ->
    (forall P : point, padd p0 P = P) ->
    (forall P : point, padd P (popp P) = p0) ->
    forall act : scalar -> point -> point,
    (forall (a b : scalar) (P : point), act (sadd a b) P = padd (act a P) (act b P)) ->
    (forall (a b : scalar) (P : point), act (smul a b) P = act a (act b P)) ->
    forall (G : point) (msg : Type) (chal : point -> point -> msg -> scalar)
      (x r t : scalar) (m : msg),
    let R := act r G in
    let T := act t G in
    let X := pub act G x in
    let sa' := snd (make_adapter_private sadd smul act G chal x r t m) in
    let dec := decrypt_adapter sadd padd act G t R sa' in
    sig_valid padd act G chal X m (fst dec) (snd dec) <->
    padd T (act (chal R X m) X) = act (chal (padd R T) X m) X.
Proof. exact private_variant_decrypt_iff. Qed.

(* 7. the same, uncancelled *)
Theorem C17_private_variant_decrypt_iff_raw :
  forall (scalar : Type) (s0 s1 : scalar) (sadd smul ssub : scalar -> scalar -> scalar)
      (sopp : scalar -> scalar),
    ring_theory s0 s1 sadd smul ssub sopp eq ->
    forall (point : Type) (p0 : point) (padd : point -> point -> point) (popp : point -> point),
    (forall P Q : point, padd P Q = padd Q P) ->
    (forall P Q R : point, padd P (padd Q R) = padd (padd P Q) R) ->
    (forall P : point, padd p0 P = P) ->
    (forall P : point, padd P (popp P) = p0) ->
    forall act : scalar -> point -> point,
    (forall (a b : scalar) (P : point), act (sadd a b) P = padd (act a P) (act b P)) ->
    (forall (a b : scalar) (P : point), act (smul a b) P = act a (act b P)) ->
    forall (G : point) (msg : Type) (chal : point -> point -> msg -> scalar)
      (x r t : scalar) (m : msg),
    let R := act r G in
    let T := act t G in
    let X := pub act G x in
    let sa' := snd (make_adapter_private sadd smul act G chal x r t m) in
    let dec := decrypt_adapter sadd padd act G t R sa' in
    sig_valid padd act G chal X m (fst dec) (snd dec) <->
    padd T (padd T (act (chal R X m) X)) = padd T (act (chal (padd R T) X m) X).
Proof. exact private_variant_decrypt_iff_raw. Qed.

(* ---- non-vacuity: scalar = point = Z, a . P = a * P, G = 1, chal R X m = R + 2 X + m ---- *)
Local Open Scope Z_scope.

Example C17_adapter_checks_Z : forall x r T m : Z,
  checkZ (pubZ x) T m (fst (make_pubZ x r T m)) (snd (make_pubZ x r T m)).
Proof. exact adapter_checks_Z. Qed.

Example C17_adapter_decrypts_Z : forall x r t m : Z,
  let T := t * 1 in
  let ad := make_pubZ x r T m in
  let dec := decryptZ t (fst ad) (snd ad) in
  fst dec = fst ad + T /\ snd dec = snd ad + t /\ sig_validZ (pubZ x) m (fst dec) (snd dec).
Proof. exact adapter_decrypts_Z. Qed.

(* the injectivity premises of the corollary are satisfiable (here: whenever x <> 0) *)
Example C17_wrong_scalar_injective_Z : forall x r t m t2 : Z, x <> 0 ->
  let ad := make_pubZ x r (t * 1) m in
  let dec := decryptZ t2 (fst ad) (snd ad) in
  sig_validZ (pubZ x) m (fst dec) (snd dec) -> t2 = t.
Proof. exact wrong_scalar_injective_Z. Qed.

(* x = 2, r = 1, t = 1, m = 0: the PUBLIC adapter checks and decrypts to a valid signature *)
Example C17_public_variant_concrete_Z :
  let ad := make_pubZ 2 1 (1 * 1) 0 in
  let dec := decryptZ 1 (fst ad) (snd ad) in
  ad = (1, 13) /\ checkZ (pubZ 2) 1 0 (fst ad) (snd ad) /\
  dec = (2, 14) /\ sig_validZ (pubZ 2) 0 (fst dec) (snd dec).
Proof. exact public_variant_concrete_Z. Qed.

(* same numbers: the PRIVATE variant's adapter fails the check and its decryption does not verify *)
Example C17_private_variant_refuted_Z :
  make_prvZ 2 1 1 0 = (1, 1, 12) /\
  ~ checkZ (pubZ 2) 1 0 1 12 /\
  decryptZ 1 1 12 = (2, 13) /\
  ~ sig_validZ (pubZ 2) 0 2 13.
Proof. exact private_variant_refuted_Z. Qed.

(* ---- the three adapter INSTRUCTIONS compute exactly the algebra above (proofs/AdapterLink.v) ----
   For every scalar ring / point group / encodings es, ep / hash h512 / reduction red and every oracle that answers
   the ed25519 primitives according to them (hypotheses O_sha ... O_valid of Section Link), in every frame, state,
   configuration and runner.  The closed statements (all Section hypotheses explicit) are printed by Check. *)
Definition C17_make_public_instruction_computes := @make_public_computes_gen.
Definition C17_check_instruction_computes := @check_computes_prop.
(* D22 (found by reading a seeded-change note, reproduced on the code, repaired in /repo): sa must be a CANONICAL scalar.  The
   link theorems above speak about encodings [es a]; this one is about an arbitrary byte string sa: if reducing sa || 0^32
   does not give sa back (bit 255 set -- which the base multiplication ignores -- or any value >= L), the check pushes 00
   whatever the other inputs are. *)
Definition C17_check_instruction_rejects_noncanonical_sa := @check_rejects_noncanonical.
Definition C17_decrypt_instruction_computes := @decrypt_computes.
Definition C17_instructions_adapter_checks := @adapter_instr_checks.
Definition C17_instructions_adapter_decrypts_and_recovers := @adapter_instr_decrypts.
Definition C17_make_private_instruction_computes := @make_private_computes.
Definition C17_private_instruction_check_iff := @private_instr_check_iff.
Check C17_make_public_instruction_computes.
Check C17_check_instruction_computes.
Check C17_check_instruction_rejects_noncanonical_sa.
Check C17_decrypt_instruction_computes.
Check C17_instructions_adapter_checks.
Check C17_instructions_adapter_decrypts_and_recovers.
Check C17_private_instruction_check_iff.

(* non-vacuity: a model of every hypothesis (the two-element field), and a concrete run of the three instructions *)
Example C17_link_hypotheses_satisfiable_run :
  exists sab Rb sb R'b,
    interp borc bcfg brun OP_MAKE_ADAPTER_SIG_PUBLIC bfr (bst [bep true; [x01]; bseed]) = Done tt bfr (bst [sab; Rb]) /\
    interp borc bcfg brun OP_CHECK_ADAPTER_SIG bfr (bst [bep true; bep true; [x01]; Rb; sab]) = Done tt bfr (bst [[xff]]) /\
    interp borc bcfg brun OP_DECRYPT_ADAPTER_SIG bfr (bst [bes true; Rb; sab]) = Done tt bfr (bst [sb; R'b]) /\
    bds sb && true = xorb (bds R'b) (bred (bh512 (R'b ++ bep true ++ [x01])) && true).
Proof. exact bool_concrete_run. Qed.

Print Assumptions C17_make_public_instruction_computes.
Print Assumptions C17_check_instruction_computes.
Print Assumptions C17_check_instruction_rejects_noncanonical_sa.
Print Assumptions C17_decrypt_instruction_computes.
Print Assumptions C17_instructions_adapter_checks.
Print Assumptions C17_instructions_adapter_decrypts_and_recovers.
Print Assumptions C17_make_private_instruction_computes.
Print Assumptions C17_private_instruction_check_iff.
Print Assumptions C17_link_hypotheses_satisfiable_run.
(* ---------- the adapter builders as SOURCE (model/BuilderSources.v mirrors the f-string templates of tools.py token for token — 83 Examples
   against the real .src / .bytes; proofs/BuilderSourcesProofs.v: the template TEXT compiles, for all arguments, to the bytes of
   model/Builders.v that the theorems above are about; closed statements printed by Check) ---------- *)
Definition C17_src_adapter_check_lock_compiles := @BuilderSourcesProofs.adapter_check_lock_compiles.
Definition C17_src_adapter_sig_lock_compiles := @BuilderSourcesProofs.adapter_sig_lock_compiles.
Definition C17_src_adapter_decrypt_compiles := @BuilderSourcesProofs.adapter_decrypt_compiles.
Definition C17_src_adapter_witness_compiles := @BuilderSourcesProofs.adapter_witness_compiles.
Check C17_src_adapter_check_lock_compiles.
Check C17_src_adapter_sig_lock_compiles.
Check C17_src_adapter_decrypt_compiles.
Print Assumptions C17_src_adapter_check_lock_compiles.
Print Assumptions C17_src_adapter_sig_lock_compiles.
Print Assumptions C17_src_adapter_decrypt_compiles.
Print Assumptions C17_src_adapter_witness_compiles.

Print Assumptions C17_adapter_checks.
Print Assumptions C17_adapter_decrypts.
Print Assumptions C17_recover_decrypt.
Print Assumptions C17_adapter_recovers.
Print Assumptions C17_check_sensitive_sa.
Print Assumptions C17_check_adapter_spec.
Print Assumptions C17_check_sensitive_T.
Print Assumptions C17_check_sensitive_m.
Print Assumptions C17_adapter_not_signature_iff.
Print Assumptions C17_wrong_scalar_iff.
Print Assumptions C17_wrong_scalar_intended_nonce_iff.
Print Assumptions C17_wrong_scalar_injective.
Print Assumptions C17_private_variant_check_iff.
Print Assumptions C17_private_variant_decrypt_iff.
Print Assumptions C17_private_variant_decrypt_iff_raw.
Print Assumptions C17_adapter_checks_Z.
Print Assumptions C17_adapter_decrypts_Z.
Print Assumptions C17_wrong_scalar_injective_Z.
Print Assumptions C17_public_variant_concrete_Z.
Print Assumptions C17_private_variant_refuted_Z.
