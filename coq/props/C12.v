(* C12 — The decompiler terminates on every byte string and is faithful.
   [decode] is a total function whose fuel (the input length) provably suffices; it fails (None =
   decompile_script raises ScriptExecutionError) exactly on truncated input; what it returns
   re-encodes to the input; the listing [print] names exactly those instructions and operands, and
   reading the listing back ([parse_listing] on its whitespace-separated tokens) gives the same program.
   [fl2] is floor(math.log2(.)) as in C10; the listing theorems hold for every [fl2]. *)
From Coq Require Import ZArith List String.
From Coq.Strings Require Import Byte.
From TS Require Import Bytes Codec Ops Names Asm Tokenizer Assembler BytesLemmas CodecProofs AsmProofs AssemblerProofs TokenizerProofs ListingText.
Import ListNotations.
Open Scope list_scope.
Open Scope Z_scope.

(* 5. termination: decode is a (total) Coq function, run with fuel = length of the input; that fuel is
   enough: any larger fuel gives the same answer *)
Theorem C12_decode_total : forall b, exists r, decode b = r.
Proof. exact decode_total. Qed.

Theorem C12_decode_fuel_enough : forall b fuel,
  (List.length b <= fuel)%nat -> decode_fuel fuel b = decode_fuel (List.length b) b.
Proof. exact decode_fuel_enough. Qed.

Theorem C12_decode_fuel_mono : forall b f1 f2,
  (List.length b <= f1)%nat -> (List.length b <= f2)%nat -> decode_fuel f1 b = decode_fuel f2 b.
Proof. exact decode_fuel_mono. Qed.

(* decode is the tape loop of decompile_script: stop at the end, else one instruction, then the rest *)
Theorem C12_decode_unfold : forall b,
  decode b =
  match b with
  | [] => Some []
  | _ :: _ =>
    match decode1 b with
    | Some (i, rest) => match decode rest with Some p => Some (i :: p) | None => None end
    | None => None
    end
  end.
Proof. exact decode_unfold. Qed.

(* 6. reading forward: one step consumes exactly the instruction's encoding, at least one byte, and
   leaves a proper suffix of its input *)
Theorem C12_decode1_consumes : forall b i rest,
  decode1 b = Some (i, rest) ->
  b = encode1 i ++ rest /\ wf i = true /\ (1 <= List.length (encode1 i))%nat /\
  (List.length rest < List.length b)%nat.
Proof. exact decode1_consumes. Qed.

Theorem C12_encode1_nonempty : forall i, (1 <= List.length (encode1 i))%nat.
Proof. exact encode1_nonempty. Qed.

(* 7. what is decoded is what the bytes hold, in order *)
Theorem C12_decode_sound : forall b p, decode b = Some p -> encode p = b /\ wf_prog p = true.
Proof. exact decode_sound. Qed.

(* ... and decoding fails exactly when the input is not the encoding of a program (truncated) *)
Theorem C12_decode_some_iff : forall b,
  (exists p, decode b = Some p) <-> (exists p, wf_prog p = true /\ encode p = b).
Proof. exact decode_some_iff. Qed.

(* 8. the decompiler on an encoded program prints that program *)
Theorem C12_decompile_encode : forall fl2 p,
  wf_prog p = true -> decompile fl2 (encode p) = Some (print fl2 0 p).
Proof. exact decompile_encode. Qed.

Theorem C12_decompile_none_iff : forall fl2 b, decompile fl2 b = None <-> decode b = None.
Proof. exact decompile_none_iff. Qed.

(* 9. the listing reads back to the same program, hence to the same bytes *)
Theorem C12_listing_roundtrip : forall fl2 p ind,
  wf_prog p = true -> parse_listing fl2 (tokens_of (print fl2 ind p)) = Some p.
Proof. exact listing_roundtrip. Qed.

Theorem C12_listing_roundtrip_bytes : forall fl2 p,
  wf_prog p = true ->
  option_map encode (parse_listing fl2 (tokens_of (print fl2 0 p))) = Some (encode p).
Proof. exact listing_roundtrip_bytes. Qed.

(* whatever the decompiler returns is the listing of the program held by the bytes and reads back to it *)
Theorem C12_decompile_sound : forall fl2 b ls,
  decompile fl2 b = Some ls ->
  exists p, ls = print fl2 0 p /\ encode p = b /\ wf_prog p = true /\
            parse_listing fl2 (tokens_of ls) = Some p.
Proof. exact decompile_sound. Qed.

(* 9b. ... and through the model of the REAL compiler front end (model/Tokenizer.v get_symbols = str.split + the pop loop,
   model/Assembler.v assemble; both tied to parsing.py by the ASRC / CTXT correspondence): the TEXT a user gets from
   '\n'.join(decompile_script(b)) compiles back to b.  For every estimate fl2 that is exact on one-byte magnitudes, every
   comptime evaluator ct, every well-formed program without a DEF directly inside a DEF body (the compiler refuses that
   shape: C12_listing_text_needs_no_nested_def; compiler and builder output never has it). *)
Theorem C12_listing_text_compiles : forall fl2 ct, fl2_small fl2 -> forall p,
  wf_prog p = true -> forallb (ldef_ok false) p = true ->
  compile_text fl2 ct (listing_text fl2 p) = Ok (encode p).
Proof. exact listing_text_compiles. Qed.

Theorem C12_listing_text_compiles_bytes : forall fl2 ct, fl2_small fl2 -> forall b p,
  decode b = Some p -> forallb (ldef_ok false) p = true ->
  compile_text fl2 ct (listing_text fl2 p) = Ok b.
Proof. exact listing_text_compiles_bytes. Qed.

Theorem C12_decompile_then_compile_text : forall fl2 ct, fl2_small fl2 -> forall p,
  wf_prog p = true -> forallb (ldef_ok false) p = true ->
  option_map (fun ls => compile_text fl2 ct (join_lines ls)) (decompile fl2 (encode p)) = Some (Ok (encode p)).
Proof. exact decompile_compile_text. Qed.

(* the layout of the listing is irrelevant: any indentation, any non-empty ASCII whitespace between the lines (blank lines,
   CR LF), whitespace before and after *)
Theorem C12_listing_layout_irrelevant : forall fl2 ct, fl2_small fl2 -> forall p ind sep w1 w2,
  wf_prog p = true -> forallb (ldef_ok false) p = true ->
  nonempty sep = true -> sall is_ws sep = true -> all_ascii sep = true ->
  sall is_ws w1 = true -> all_ascii w1 = true -> sall is_ws w2 = true -> all_ascii w2 = true ->
  compile_text fl2 ct (w1 ++ join_with sep (print fl2 ind p) ++ w2)%string = Ok (encode p).
Proof. exact listing_layout_compiles. Qed.

(* Python's str.split on the listing text gives exactly the listing's tokens; the text is ASCII *)
Theorem C12_listing_text_tokens : forall fl2 p, split_py (listing_text fl2 p) = tokens_of (print fl2 0 p).
Proof. exact listing_text_tokens. Qed.

(* observation (proved, and the same on the real tokenizer): the pop loop does NOT leave every listing token as printed —
   a negative d-operand "d-1" becomes "D-1", which the assembler accepts all the same *)
Example C12_listing_token_d_minus_becomes_upper :
  let p := [IOp1 O_PUSH0 xff] in
  tokens_of (print fl2_exact 0 p) = ["OP_PUSH0"; "d-1"]%string /\
  get_symbols (listing_text fl2_exact p) = Ok ["OP_PUSH0"; "D-1"]%string /\
  ~ posts (tokens_of (print fl2_exact 0 p)) (tokens_of (print fl2_exact 0 p)).
Proof. exact listing_tokens_not_stable. Qed.

(* the no-nested-DEF premise is necessary at text level too (the real compiler: "cannot use OP_DEF within OP_DEF body") *)
Example C12_listing_text_needs_no_nested_def :
  let p := [IDef x00 [IDef x01 [IOp0 O_TRUE]]] in
  wf_prog p = true /\ decode (encode p) = Some p /\
  compile_text fl2_exact ct0 (listing_text fl2_exact p) = Err.
Proof. exact listing_text_needs_ldef_ok. Qed.

(* the d-or-x test on OP_DIV_INT / OP_MOD_INT operands cannot raise when math.log2 is as assumed in C10 *)
Theorem C12_int_tok_total : forall fl2, fl2_ok fl2 -> forall v, v <> [] ->
  exists z v', bytes_to_int v = Some z /\ int_to_bytes fl2 z = Some v'.
Proof. exact int_tok_total. Qed.

(* the signed-byte column of the listing is bytes_to_int of that byte *)
Theorem C12_s8_spec : forall b, bytes_to_int [b] = Some (s8 b).
Proof. exact s8_spec. Qed.

(* non-vacuity *)
Open Scope string_scope.

Example C12_truncated_push2 : decompile fl2_exact [x04; xff; xfd] = None.
Proof. vm_compute. reflexivity. Qed.

Example C12_nop_signed : decompile fl2_exact [xc8; xc8] = Some ["NOP200 d-56"].
Proof. vm_compute. reflexivity. Qed.

Example C12_if_listing :
  decompile fl2_exact [x2b; x00; x01; x01; x00] = Some ["OP_IF {"; "    OP_TRUE"; "}"; "OP_FALSE"].
Proof. vm_compute. reflexivity. Qed.

Definition C12_sample : list instr :=
  [ IDef x05 [ IIf [ IOp0 O_TRUE; IVar1 O_PUSH1 [x01; x02] ];
               ITry [ IOp1 O_CALL x07 ] [] ];
    IIfElse [ INop 200 xc8 ] [ IWriteCache [x61] x02; IPush2 [] ];
    ITry [ IVar1 O_DIV_INT [xff; x7f] ] [ IVar1 O_MOD_INT [x00; x01]; IVar1 O_DIV_INT [] ];
    ILoop [ ISwap x01 xff; IMultisig O_CHECK_MULTISIG x00 x02 x03 ];
    IFix O_DIV_FLOAT [x3f; x80; x00; x00];
    IOp1 O_CHECK_SIG xf0 ].

Example C12_sample_listing :
  print fl2_exact 0 C12_sample =
  [ "OP_DEF 5 {";
    "    OP_IF {";
    "        OP_TRUE";
    "        OP_PUSH1 d2 x0102";
    "    }";
    "    OP_TRY {";
    "        OP_CALL d7";
    "    }";
    "}";
    "OP_IF {";
    "    NOP200 d-56";
    "} ELSE {";
    "    OP_WRITE_CACHE x61 d2";
    "    OP_PUSH2 d0 x";
    "}";
    "OP_TRY {";
    "    OP_DIV_INT d-129";
    "} EXCEPT {";
    "    OP_MOD_INT x0001";
    "    OP_DIV_INT x";
    "}";
    "OP_LOOP {";
    "    OP_SWAP d1 d255";
    "    OP_CHECK_MULTISIG x00 d2 d3";
    "}";
    "OP_DIV_FLOAT x3f800000";
    "OP_CHECK_SIG xf0" ].
Proof. vm_compute. reflexivity. Qed.

Example C12_sample_decompile :
  wf_prog C12_sample = true /\
  decompile fl2_exact (encode C12_sample) = Some (print fl2_exact 0 C12_sample) /\
  parse_listing fl2_exact (tokens_of (print fl2_exact 0 C12_sample)) = Some C12_sample.
Proof. vm_compute. repeat split; reflexivity. Qed.

(* the d form is used only when int_to_bytes gives the operand back: with Python's floats,
   floor(log2(2^63-1)) = 63, int_to_bytes(2^63-1) is 9 bytes long, and the 8-byte operand is listed in hex *)
Example C12_div_int_float_log2 :
  let v := [x7f; xff; xff; xff; xff; xff; xff; xff] in
  let fl2_py := fun a : Z => if (a =? 2 ^ 63 - 1)%Z then 63%Z else fl2_exact a in
  print fl2_exact 0 [IVar1 O_DIV_INT v] = ["OP_DIV_INT d9223372036854775807"] /\
  print fl2_py 0 [IVar1 O_DIV_INT v] = ["OP_DIV_INT x7fffffffffffffff"] /\
  parse_listing fl2_py (tokens_of (print fl2_py 0 [IVar1 O_DIV_INT v])) = Some [IVar1 O_DIV_INT v] /\
  print fl2_py 0 [IVar1 O_DIV_INT (x00 :: v)] = ["OP_DIV_INT d9223372036854775807"] /\
  parse_listing fl2_py ["OP_DIV_INT"; "d9223372036854775807"] = Some [IVar1 O_DIV_INT (x00 :: v)].
Proof. vm_compute. repeat split; reflexivity. Qed.

Print Assumptions C12_decode_total.
Print Assumptions C12_decode_fuel_enough.
Print Assumptions C12_decode_fuel_mono.
Print Assumptions C12_decode_unfold.
Print Assumptions C12_decode1_consumes.
Print Assumptions C12_encode1_nonempty.
Print Assumptions C12_decode_sound.
Print Assumptions C12_decode_some_iff.
Print Assumptions C12_decompile_encode.
Print Assumptions C12_decompile_none_iff.
Print Assumptions C12_listing_roundtrip.
Print Assumptions C12_listing_roundtrip_bytes.
Print Assumptions C12_decompile_sound.
Print Assumptions C12_int_tok_total.
Print Assumptions C12_s8_spec.
Print Assumptions C12_listing_text_compiles.
Print Assumptions C12_listing_text_compiles_bytes.
Print Assumptions C12_decompile_then_compile_text.
Print Assumptions C12_listing_layout_irrelevant.
Print Assumptions C12_listing_text_tokens.
Print Assumptions C12_listing_token_d_minus_becomes_upper.
Print Assumptions C12_listing_text_needs_no_nested_def.
