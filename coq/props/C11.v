(* C11 — The documented bytecode encoding is uniquely decodable.
   [encode] is the documented encoding (opcode byte, then the operands of the opcode's shape, bodies
   behind a 2-byte big-endian length); [decode] is the reference decoder that reads it back the way
   run_tape / decompile_script do.  Well-formed (wf) = every operand fits its length prefix.
   The PUSH pseudo-instruction of the compiler picks the shortest push form. *)
From Coq Require Import ZArith List String.
From Coq.Strings Require Import Byte.
From TS Require Import Bytes Codec Ops Names Asm BytesLemmas CodecProofs AsmProofs Assembler AssemblerProofs Tokenizer TokenizerProofs.
From TS Require MacroFacts.
Import ListNotations.
Open Scope list_scope.
Open Scope Z_scope.

(* 1. the bytes determine the instruction sequence *)
Theorem C11_decode_encode : forall p, wf_prog p = true -> decode (encode p) = Some p.
Proof. exact decode_encode. Qed.

(* 2. the encoding of a program is the concatenation, in order, of its instructions' encodings *)
Theorem C11_encode_nil : encode [] = [].
Proof. exact encode_nil. Qed.
Theorem C11_encode_cons : forall i p, encode (i :: p) = encode1 i ++ encode p.
Proof. exact encode_cons. Qed.
Theorem C11_encode_app : forall p q, encode (p ++ q) = encode p ++ encode q.
Proof. exact encode_app. Qed.

(* 3. two different well-formed programs never share an encoding *)
Theorem C11_encode_inj : forall p q,
  wf_prog p = true -> wf_prog q = true -> encode p = encode q -> p = q.
Proof. exact encode_inj. Qed.

(* one instruction at a time, with anything after it *)
Theorem C11_decode1_encode1 : forall i rest,
  wf i = true -> decode1 (encode1 i ++ rest) = Some (i, rest).
Proof. exact decode1_encode1. Qed.

(* 4. OP_PUSH: which form is chosen, by the length of the value (length 0 and >= 65536: ValueError) *)
Theorem C11_push_by_length : forall v,
  (blen v = 1 -> exists b, v = [b] /\ push_instr v = Some (IOp1 O_PUSH0 b)) /\
  (2 <= blen v <= 255 -> push_instr v = Some (IVar1 O_PUSH1 v)) /\
  (256 <= blen v <= 65535 -> push_instr v = Some (IPush2 v)) /\
  (blen v = 0 \/ 65536 <= blen v -> push_instr v = None).
Proof. exact push_instr_by_length. Qed.

Theorem C11_push_none : forall v, push_instr v = None <-> (blen v = 0 \/ 65536 <= blen v).
Proof. exact push_instr_none. Qed.

(* the chosen form is well-formed, carries exactly the value, and no shorter form exists:
   PUSH0 (1 byte of overhead) iff length 1, PUSH1 (2 bytes) iff 2..255, PUSH2 (3 bytes) iff 256..65535 *)
Theorem C11_push_minimal : forall v i, push_instr v = Some i ->
  wf i = true /\
  ((exists b, v = [b] /\ i = IOp1 O_PUSH0 b /\ encode1 i = x02 :: v) \/
   (2 <= blen v <= 255 /\ i = IVar1 O_PUSH1 v /\ encode1 i = x03 :: z2b (blen v) :: v) \/
   (256 <= blen v <= 65535 /\ i = IPush2 v /\ encode1 i = x04 :: Z_to_be 2 (blen v) ++ v)).
Proof. exact push_minimal. Qed.

(* non-vacuity *)
Definition C11_sample : list instr :=
  [ IDef x05 [ IIf [ IOp0 O_TRUE; IVar1 O_PUSH1 [x01; x02] ];
               ITry [ IOp1 O_CALL x07 ] [] ];
    IIfElse [ INop 200 xc8 ] [ IWriteCache [x61] x02; IPush2 [] ];
    ITry [ IVar1 O_DIV_INT [xff; x7f] ] [ IOp0 O_FALSE ];
    ILoop [ ISwap x01 xff; IMultisig O_CHECK_MULTISIG x00 x02 x03 ];
    IFix O_DIV_FLOAT [x3f; x80; x00; x00];
    IOp1 O_CHECK_SIG xf0 ].

Example C11_sample_wf : wf_prog C11_sample = true.
Proof. vm_compute. reflexivity. Qed.

Example C11_sample_bytes :
  encode [IIf [IOp0 O_TRUE]; IOp0 O_FALSE] = [x2b; x00; x01; x01; x00].
Proof. vm_compute. reflexivity. Qed.

Example C11_decode_example :
  decode [x2b; x00; x01; x01; x00] = Some [IIf [IOp0 O_TRUE]; IOp0 O_FALSE].
Proof. vm_compute. reflexivity. Qed.

Example C11_sample_roundtrip : decode (encode C11_sample) = Some C11_sample.
Proof. vm_compute. reflexivity. Qed.

Example C11_push_examples :
  push_instr [] = None /\
  push_instr [x07] = Some (IOp1 O_PUSH0 x07) /\
  push_instr [x07; x08] = Some (IVar1 O_PUSH1 [x07; x08]) /\
  option_map encode1 (push_instr (repeat x00 256)) = Some (x04 :: x01 :: x00 :: repeat x00 256).
Proof. vm_compute. repeat split; reflexivity. Qed.

(* not well-formed: a 256-byte PUSH1 operand does not fit its length byte and decodes differently *)
Example C11_wf_needed :
  wf (IVar1 O_PUSH1 (repeat x00 256)) = false /\
  decode (encode [IVar1 O_PUSH1 (repeat x00 256)]) <> Some [IVar1 O_PUSH1 (repeat x00 256)].
Proof. split; [vm_compute; reflexivity|]. vm_compute. discriminate. Qed.

(* ---------------- the SOURCE language at symbol level (model/Assembler.v, proofs/AssemblerProofs.v) ----------------
   assemble is a line-by-line executable model of parsing.assemble / parse_next / get_args / parse_def / parse_if / ...
   on the symbols of a source (the output of parsing.get_symbols); it is compared with the real compiler on every run
   (command ASRC: sources as written, damaged sources, malformed families).  [spells p syms]: syms is one of the
   spellings of the abstract program p — any accepted name or alias in any letter case, any value form denoting the same
   bytes (d / x / s prefixes, signs, leading zeros), PUSH pseudo-op or explicit PUSHn (with a size operand that matches),
   @= / @ / @# forms, braces or END_ terminators, ELSE / EXCEPT in their five shapes, hoisted IF conditions. *)

(* every spelling of every well-formed program assembles to the documented encoding: nothing dropped, duplicated, reordered *)
Theorem C11_every_spelling_assembles_to_the_encoding :
  forall fl2 ct p syms, spells fl2 p syms -> wf_prog p = true -> assemble fl2 ct syms = Some (encode p).
Proof. exact assemble_spells. Qed.

(* the decompiler's own listing is one of them; rejection of the malformed families after any well-spelled prefix; names
   are case-insensitive; every alias of the generated table is a spelling.  Closed statements printed by Check. *)
Definition C11_listing_assembles := @assemble_listing.
Definition C11_listing_needs_no_nested_def := assemble_listing_needs_ldef_ok.
Definition C11_rejected_after_prefix := @reject_after.
Definition C11_rejected_operand_missing := @reject_operand_missing.
Definition C11_rejected_push_size_mismatch := @reject_push1_size.
Definition C11_rejected_unknown_name := @reject_unknown_name.
Definition C11_rejected_extra_close := @reject_extra_close.
Definition C11_rejected_unclosed_block := @reject_unclosed_block.
Definition C11_names_case_insensitive := names_case_insensitive.
Definition C11_every_alias_spells := @every_alias_spells.
Definition C11_push_size_operand_checked := fixed_push1_size_checked.     (* D20, repaired: was a silent mis-assembly *)
Check C11_listing_assembles.
Check C11_rejected_after_prefix.
Check C11_rejected_operand_missing.
Check C11_rejected_push_size_mismatch.
Check C11_rejected_unknown_name.
Check C11_rejected_unclosed_block.
Check C11_names_case_insensitive.

(* ---------------- from SOURCE TEXT (model/Tokenizer.v: str.split + the pop loop of parsing.get_symbols; compile_text =
   get_symbols then assemble_r, the mirror of compile_script; compared with the real functions on every run: CTXT) ----------------
   rend raw text: the text is the raw tokens separated by arbitrary non-empty runs of whitespace (blank, tab, newline, CR,
   VT, FF, FS..US), optionally surrounded by whitespace; posts raw syms: the effect of the tokenizer loop on the raw tokens
   (names in any letter case are normalised, string values spread over several tokens are re-joined). *)
Theorem C11_text_of_any_spelling_compiles_to_the_encoding :
  forall fl2 ct p syms raw text,
  spells fl2 p syms -> wf_prog p = true ->
  posts raw syms -> rend raw text -> all_ascii text = true ->
  compile_text fl2 ct text = Ok (encode p).
Proof. exact compile_spells. Qed.

Theorem C11_whitespace_is_irrelevant :
  forall raw text1 text2,
  rend raw text1 -> rend raw text2 -> all_ascii text1 = true -> all_ascii text2 = true ->
  get_symbols text1 = get_symbols text2 /\ forall fl2 ct, compile_text fl2 ct text1 = compile_text fl2 ct text2.
Proof. exact whitespace_irrelevant. Qed.

(* any letter-casing of any name is a raw spelling of it; comments between top-level statements do not change the code *)
Definition C11_any_casing_of_a_name := @posts_name.
Definition C11_comment_between_statements := @comment_between.
Definition C11_text_with_comments_compiles := @compile_tops.
Definition C11_worked_example := example_text_compiles.
Check C11_any_casing_of_a_name.
Check C11_comment_between_statements.
Check C11_text_with_comments_compiles.

Print Assumptions C11_text_of_any_spelling_compiles_to_the_encoding.
Print Assumptions C11_whitespace_is_irrelevant.
Print Assumptions C11_any_casing_of_a_name.
Print Assumptions C11_comment_between_statements.
Print Assumptions C11_text_with_comments_compiles.
Print Assumptions C11_worked_example.
(* ---------------- macros and ~ { } comptime blocks (now part of the model; ~! { } needs the VM and stays outside) ---------------- *)
Definition C11_definitions_emit_no_code := @definitions_emit_no_code.
Definition C11_unused_definition_changes_nothing := @unused_definition.
Definition C11_comptime_block_is_its_assembled_bytes := @comptime_block.
Definition C11_push_of_a_comptime_block := @push_comptime.
Definition C11_macro_expansion := @macro_expansion.
Definition C11_macro_expansion_example := macro_expansion_example.
Definition C11_aliases_inside_def_fixed := fixed_def_alias.          (* D21, repaired *)
(* macro calls: every parameter replaced by its own argument, once (simultaneous substitution); the number of values is checked in
   both directions; PUSH of an empty value is rejected whichever way the value is supplied (computed facts about the model of the
   real compiler front end; the same sources are compiled by the real compiler on every run) *)
Definition C11_macro_substitution_is_simultaneous := MacroFacts.macro_substitution_is_simultaneous.
Definition C11_macro_arity_is_checked := MacroFacts.macro_arity_is_checked.
Definition C11_push_of_an_empty_value_is_rejected := MacroFacts.push_of_an_empty_value_is_rejected.
Check C11_definitions_emit_no_code.
Check C11_unused_definition_changes_nothing.
Check C11_comptime_block_is_its_assembled_bytes.
Check C11_macro_expansion.

(* ~! { } comptime blocks: the assembler takes the run of a block as a parameter ct (instantiated with the VM model in the
   correspondence run); every theorem of this file holds for every ct *)
Definition C11_run_block_is_its_top_stack_item := @comptime_run_block.
Definition C11_push_of_a_run_block := @push_comptime_run.
Definition C11_run_block_with_empty_stack_adds_nothing := @comptime_run_empty.
Definition C11_run_block_that_raises_rejects_the_source := @comptime_run_error.
Check C11_run_block_is_its_top_stack_item.
Check C11_run_block_that_raises_rejects_the_source.
Print Assumptions C11_run_block_is_its_top_stack_item.
Print Assumptions C11_push_of_a_run_block.
Print Assumptions C11_run_block_with_empty_stack_adds_nothing.
Print Assumptions C11_run_block_that_raises_rejects_the_source.
Print Assumptions C11_definitions_emit_no_code.
Print Assumptions C11_unused_definition_changes_nothing.
Print Assumptions C11_comptime_block_is_its_assembled_bytes.
Print Assumptions C11_push_of_a_comptime_block.
Print Assumptions C11_macro_expansion.
Print Assumptions C11_macro_expansion_example.
Print Assumptions C11_aliases_inside_def_fixed.
Print Assumptions C11_every_spelling_assembles_to_the_encoding.
Print Assumptions C11_listing_assembles.
Print Assumptions C11_listing_needs_no_nested_def.
Print Assumptions C11_rejected_after_prefix.
Print Assumptions C11_rejected_operand_missing.
Print Assumptions C11_rejected_push_size_mismatch.
Print Assumptions C11_rejected_unknown_name.
Print Assumptions C11_rejected_extra_close.
Print Assumptions C11_rejected_unclosed_block.
Print Assumptions C11_names_case_insensitive.
Print Assumptions C11_every_alias_spells.
Print Assumptions C11_push_size_operand_checked.
Print Assumptions C11_decode_encode.
Print Assumptions C11_encode_nil.
Print Assumptions C11_encode_cons.
Print Assumptions C11_encode_app.
Print Assumptions C11_encode_inj.
Print Assumptions C11_decode1_encode1.
Print Assumptions C11_push_by_length.
Print Assumptions C11_push_none.
Print Assumptions C11_push_minimal.
Print Assumptions C11_macro_substitution_is_simultaneous.
Print Assumptions C11_macro_arity_is_checked.
Print Assumptions C11_push_of_an_empty_value_is_rejected.
