(* C02 — Signature instructions verify exactly the flag-selected message.
   Ed25519 itself is an oracle (PVerify / PSign answered by PyNaCl in the correspondence run); the theorems
   pin down WHICH bytes are handed to it and every error case. "A change to a covered field makes the check
   fail" is unforgeability and is not provable; it is exercised with real Ed25519 by the correspondence stream. *)
From Coq Require Import ZArith List Bool.
From Coq.Strings Require Import Byte String.
From TS Require Import Bytes State Prog Ops Interp SigSpec.
Import ListNotations.
Open Scope Z_scope.

(* the message = concatenation in index order of the present sigfields whose flag bit is clear *)
Theorem C02_message_is_documented_concatenation :
  forall flag c, fields_ok flag c fields18 -> msg_of flag c = Some (msg_doc flag c).
Proof. exact msg_of_doc. Qed.

Theorem C02_get_message_exact :
  forall orc cfg run flag fr st,
  interp orc cfg run (get_message_core flag) fr st =
    match msg_of flag (st_cache st) with Some m => Done m fr st | None => Raised TypeError fr st end.
Proof. exact get_message_core_spec. Qed.

Theorem C02_excluded_fields_irrelevant :
  forall flag c1 c2,
  (forall i, In i fields18 -> Z.testbit flag (i - 1) = false ->
     cache_get c1 (sigfield_key i) = cache_get c2 (sigfield_key i)) ->
  msg_of flag c1 = msg_of flag c2.
Proof. exact excluded_fields_irrelevant. Qed.

(* the eight bit tests are exactly "flag byte is a subset of the allowed-flags operand" — all 65536 pairs *)
Theorem C02_flags_permitted_is_subset :
  forall f a, 0 <= f < 256 -> 0 <= a < 256 -> flags_permitted f a = (Z.land f (255 - a) =? 0).
Proof. exact flags_permitted_subset. Qed.

(* total case analysis of the check on stack (key :: sig :: rest) *)
Theorem C02_check_sig_exact :
  forall orc cfg run allowed fr st vkey sig rest,
  st_stack st = vkey :: sig :: rest ->
  interp orc cfg run (check_sig_body allowed) fr st =
    let st0 := with_stack st rest in
    if negb (blen vkey =? 32) then Raised ValueError fr st0
    else if negb ((blen sig =? 64) || (blen sig =? 65)) then Raised ValueError fr st0
    else if negb (flags_permitted (sig_flag sig) allowed) then Raised ScriptExecutionError fr st0
    else match msg_of (sig_flag sig) (st_cache st) with
         | None => Raised TypeError fr st0
         | Some m =>
           if (c_max_item_size cfg <? List.length m)%nat || (c_max_items cfg <=? List.length rest)%nat
           then Raised ScriptExecutionError fr st0
           else match orc PVerify [vkey; m; firstn 64 sig] with
                | OErr e => Raised e fr st0
                | OOk [x] =>
                  if (c_max_item_size cfg <? 1)%nat then Raised ScriptExecutionError fr st0
                  else Done tt fr (with_stack st ((if bytes_to_bool x then [xff] else [x00]) :: rest))
                | OOk _ => Unmodelled "oracle arity"
                end
         end.
Proof. exact check_sig_body_exact. Qed.

Theorem C02_true_only_if :
  forall orc cfg run allowed fr st vkey sig rest fr' st',
  st_stack st = vkey :: sig :: rest ->
  interp orc cfg run (check_sig_body allowed) fr st = Done tt fr' st' ->
  st_stack st' = [xff] :: rest ->
  blen vkey = 32 /\ (blen sig = 64 \/ blen sig = 65) /\ flags_permitted (sig_flag sig) allowed = true /\
  exists m x, msg_of (sig_flag sig) (st_cache st) = Some m /\
              orc PVerify [vkey; m; firstn 64 sig] = OOk [x] /\ bytes_to_bool x = true.
Proof. exact check_sig_true_only_if. Qed.

(* non-vacuity: a cache with fields 1 and 3, flag byte 4 (exclude field 3) *)
Example C02_example :
  let c := [(sigfield_key 1, VOne (ABytes [x61])); (sigfield_key 3, VOne (ABytes [x62]))] in
  msg_of 4 c = Some [x61] /\ msg_of 0 c = Some [x61; x62] /\ fields_ok 0 c fields18.
Proof.
  split; [reflexivity|]. split; [reflexivity|].
  intros i Hi _. simpl in Hi. repeat (destruct Hi as [<-|Hi]; [vm_compute; exact I|]). contradiction.
Qed.

Print Assumptions C02_message_is_documented_concatenation.
Print Assumptions C02_get_message_exact.
Print Assumptions C02_excluded_fields_irrelevant.
Print Assumptions C02_flags_permitted_is_subset.
Print Assumptions C02_check_sig_exact.
Print Assumptions C02_true_only_if.
