(* C18 — anonymous multi-hop locks (tapescript/AMHL.py, tools.release_left_amhl_lock) are
   algebraically correct, for every commutative ring of scalars acting on an abelian group of
   points, every base point G and every challenge function.  Each theorem is closed: the laws
   it needs appear as explicit premises.  Proofs are in proofs/Algebra.v. *)
From Coq Require Import ZArith List Ring Ring_theory.
From TS Require Import Algebra.
From TS Require AMHL AMHLLink AMHLSamples.
Import ListNotations.

(* ---- the definitions the statements are about ---- *)
(* AMHL.setup: Y_0 = y_0 G ; Y_i = Y_{i-1} + y_i G *)
Example C18_def_Y_list : forall (scalar point : Type) (padd : point -> point -> point)
    (act : scalar -> point -> point) (G : point),
  Y_list padd act G [] = [] /\
  (forall y0 ys, Y_list padd act G (y0 :: ys) = act y0 G :: Y_from padd act G (act y0 G) ys) /\
  (forall prev, Y_from padd act G prev [] = []) /\
  (forall prev y ys, Y_from padd act G prev (y :: ys) =
     padd prev (act y G) :: Y_from padd act G (padd prev (act y G)) ys).
Proof. intros. repeat split. Qed.
(* AMHL.scalar_sum: scalars[0], then add the rest left to right *)
Example C18_def_sums : forall (scalar : Type) (s0 : scalar) (sadd : scalar -> scalar -> scalar),
  scalar_sum s0 sadd [] = s0 /\
  (forall y ys, scalar_sum s0 sadd (y :: ys) = fold_left sadd ys y) /\
  (forall ys i, prefix_sum s0 sadd ys i = scalar_sum s0 sadd (firstn (S i) ys)) /\
  (forall ys, total s0 sadd ys = scalar_sum s0 sadd ys).
Proof. intros. repeat split. Qed.
Example C18_def_locks : forall (scalar point : Type) (ssub : scalar -> scalar -> scalar)
    (padd : point -> point -> point) (act : scalar -> point -> point) (G : point),
  (forall Yl yi Yr, check_setup padd act G Yl yi Yr = (padd Yl (act yi G) = Yr)) /\
  (forall k y, release ssub k y = ssub k y) /\
  (forall L k, verify_lock_key act G L k = (L = act k G)) /\
  (forall sa s y, release_left ssub sa s y = ssub (ssub s sa) y).
Proof. intros. repeat split. Qed.

(* 8. Y_i = (y_0 + ... + y_i) G *)
Theorem C18_amhl_points :
  forall (scalar : Type) (s0 : scalar) (sadd : scalar -> scalar -> scalar)
      (point : Type) (p0 : point) (padd : point -> point -> point)
      (act : scalar -> point -> point),
    (forall (a b : scalar) (P : point), act (sadd a b) P = padd (act a P) (act b P)) ->
    forall (G : point) (ys : list scalar) (i : nat),
    i < length ys -> nth i (Y_list padd act G ys) p0 = act (prefix_sum s0 sadd ys i) G.
Proof. exact amhl_points. Qed.

(* 9. AMHL.check_setup holds for every intermediate user *)
Theorem C18_amhl_check_setup :
  forall (scalar : Type) (s0 : scalar) (sadd : scalar -> scalar -> scalar)
      (point : Type) (p0 : point) (padd : point -> point -> point)
      (act : scalar -> point -> point),
    (forall (a b : scalar) (P : point), act (sadd a b) P = padd (act a P) (act b P)) ->
    forall (G : point) (ys : list scalar) (i : nat),
    0 < i < length ys ->
    check_setup padd act G (nth (i - 1) (Y_list padd act G ys) p0) (nth i ys s0)
      (nth i (Y_list padd act G ys) p0).
Proof. exact amhl_check_setup. Qed.

(* 10. the sum of all y opens the last lock *)
Theorem C18_amhl_final_key :
  forall (scalar : Type) (s0 : scalar) (sadd : scalar -> scalar -> scalar)
      (point : Type) (p0 : point) (padd : point -> point -> point)
      (act : scalar -> point -> point),
    (forall (a b : scalar) (P : point), act (sadd a b) P = padd (act a P) (act b P)) ->
    forall (G : point) (ys : list scalar),
    ys <> [] -> verify_lock_key act G (last (Y_list padd act G ys) p0) (total s0 sadd ys).
Proof. exact amhl_final_key. Qed.

(* 11. releasing: key_i - y_i = key_{i-1}, and it opens lock i-1 *)
Theorem C18_amhl_release :
  forall (scalar : Type) (s0 s1 : scalar) (sadd smul ssub : scalar -> scalar -> scalar)
      (sopp : scalar -> scalar),
    ring_theory s0 s1 sadd smul ssub sopp eq ->
    forall (point : Type) (p0 : point) (padd : point -> point -> point)
      (act : scalar -> point -> point),
    (forall (a b : scalar) (P : point), act (sadd a b) P = padd (act a P) (act b P)) ->
    forall (G : point) (ys : list scalar) (i : nat),
    0 < i < length ys ->
    release ssub (prefix_sum s0 sadd ys i) (nth i ys s0) = prefix_sum s0 sadd ys (i - 1) /\
    verify_lock_key act G (nth (i - 1) (Y_list padd act G ys) p0)
      (release ssub (prefix_sum s0 sadd ys i) (nth i ys s0)).
Proof. exact amhl_release. Qed.

(* 12. the cascade through adapter signatures *)
Theorem C18_amhl_cascade :
  forall (scalar : Type) (s0 s1 : scalar) (sadd smul ssub : scalar -> scalar -> scalar)
      (sopp : scalar -> scalar),
    ring_theory s0 s1 sadd smul ssub sopp eq ->
    forall (point : Type) (p0 : point) (padd : point -> point -> point),
    (forall P Q : point, padd P Q = padd Q P) ->
    (forall P Q R : point, padd P (padd Q R) = padd (padd P Q) R) ->
    forall act : scalar -> point -> point,
    (forall (a b : scalar) (P : point), act (sadd a b) P = padd (act a P) (act b P)) ->
    (forall (a b : scalar) (P : point), act (smul a b) P = act a (act b P)) ->
    forall (G : point) (msg : Type) (chal : point -> point -> msg -> scalar)
      (ys : list scalar) (i : nat),
    0 < i < length ys ->
    forall (x r : scalar) (m : msg) (x' r' : scalar) (m' : msg),
    let Ti := nth i (Y_list padd act G ys) p0 in
    let Tl := nth (i - 1) (Y_list padd act G ys) p0 in
    let ad_i := make_adapter_public sadd smul padd act G chal x r Ti m in
    let dec_i := decrypt_adapter sadd padd act G (prefix_sum s0 sadd ys i) (fst ad_i) (snd ad_i)
      in
    let k := release_left ssub (snd ad_i) (snd dec_i) (nth i ys s0) in
    let ad_l := make_adapter_public sadd smul padd act G chal x' r' Tl m' in
    let dec_l := decrypt_adapter sadd padd act G k (fst ad_l) (snd ad_l) in
    sig_valid padd act G chal (pub act G x) m (fst dec_i) (snd dec_i) /\
    k = prefix_sum s0 sadd ys (i - 1) /\
    verify_lock_key act G Tl k /\
    sig_valid padd act G chal (pub act G x') m' (fst dec_l) (snd dec_l).
Proof. exact amhl_cascade. Qed.

(* 13. k opens lock i iff k G = (y_0 + ... + y_i) G *)
Theorem C18_amhl_wrong_hop_iff :
  forall (scalar : Type) (s0 : scalar) (sadd : scalar -> scalar -> scalar)
      (point : Type) (p0 : point) (padd : point -> point -> point)
      (act : scalar -> point -> point),
    (forall (a b : scalar) (P : point), act (sadd a b) P = padd (act a P) (act b P)) ->
    forall (G : point) (ys : list scalar) (i : nat) (k : scalar),
    i < length ys ->
    verify_lock_key act G (nth i (Y_list padd act G ys) p0) k <->
    act k G = act (prefix_sum s0 sadd ys i) G.
Proof. exact amhl_wrong_hop_iff. Qed.

(* ---- non-vacuity: scalar = point = Z, a . P = a * P, G = 1, chal R X m = R + 2 X + m ---- *)
Local Open Scope Z_scope.

Example C18_amhl_points_Z : forall (ys : list Z) (i : nat), (i < length ys)%nat ->
  nth i (Y_listZ ys) 0 = prefix_sumZ ys i * 1.
Proof. exact amhl_points_Z. Qed.

Example C18_amhl_cascade_Z : forall (ys : list Z) (i : nat), (0 < i < length ys)%nat ->
  forall x r m x' r' m' : Z,
  let Ti := nth i (Y_listZ ys) 0 in
  let Tl := nth (i - 1) (Y_listZ ys) 0 in
  let ad_i := make_pubZ x r Ti m in
  let dec_i := decryptZ (prefix_sumZ ys i) (fst ad_i) (snd ad_i) in
  let k := release_left Z.sub (snd ad_i) (snd dec_i) (nth i ys 0) in
  let ad_l := make_pubZ x' r' Tl m' in
  let dec_l := decryptZ k (fst ad_l) (snd ad_l) in
  sig_validZ (pubZ x) m (fst dec_i) (snd dec_i) /\
  k = prefix_sumZ ys (i - 1) /\
  verify_lock_keyZ Tl k /\
  sig_validZ (pubZ x') m' (fst dec_l) (snd dec_l).
Proof. exact amhl_cascade_Z. Qed.

Example C18_amhl_concrete_Z :
  Y_listZ [3; 4; 5] = [3; 7; 12] /\ totalZ [3; 4; 5] = 12 /\
  release Z.sub (prefix_sumZ [3; 4; 5] 2) 5 = 7 /\ verify_lock_keyZ 7 7 /\ ~ verify_lock_keyZ 7 12.
Proof. exact amhl_concrete_Z. Qed.

(* ---------------- the AMHL class itself (model/AMHL.v, tied to tapescript/AMHL.py by the AMHL / AMHLKEY / AMHLREL
   correspondence) computes the algebra above (proofs/AMHLLink.v) ----------------
   For every scalar ring / point group / encodings / hash and every oracle answering the ed25519 primitives accordingly
   (byte strings "represent" scalars through an arbitrary relation srep, as libsodium reduces its inputs).  The closed
   statements, with every hypothesis explicit, are printed by Check. *)
Definition C18_setup_computes_prefix_sum_points := @AMHLLink.amhl_setup_computes.
Definition C18_every_view_passes_check_setup := @AMHLLink.amhl_check_setup_ok.
Definition C18_views_spelled_out := @AMHLLink.amhl_check_setup_cases.
Definition C18_final_key_opens_last_lock := @AMHLLink.amhl_final_key_ok.
Definition C18_release_computes := @AMHLLink.amhl_release_computes.
Definition C18_release_left_computes := @AMHLLink.amhl_release_left_computes.
Definition C18_release_chain := @AMHLLink.amhl_release_chain.
Definition C18_cascade_chain := @AMHLLink.amhl_cascade_chain.
Check C18_setup_computes_prefix_sum_points.
Check C18_every_view_passes_check_setup.
Check C18_final_key_opens_last_lock.
Check C18_release_left_computes.
Check C18_release_chain.
Check C18_cascade_chain.
(* the secrets of a chain are a function of (seed, index): exactly n of them, the i-th is sample(seed, i), and a shorter chain from
   the same seed has the first n secrets of a longer one -- for every oracle (no memory between set-ups) *)
Definition C18_samples_exactly_n := @AMHLSamples.samples_length.
Definition C18_samples_ith_is_sample_of_seed_and_index := @AMHLSamples.samples_nth.
Definition C18_shorter_chain_same_seed_is_prefix := @AMHLSamples.samples_prefix.
Definition C18_setup_hands_out_n_secrets_and_n_points := @AMHLSamples.setup_lengths.
Check C18_samples_exactly_n.
Check C18_shorter_chain_same_seed_is_prefix.
(* non-vacuity: all hypotheses hold in a five-element field, with a concrete run for n = 3 *)
Definition C18_link_hypotheses_satisfiable := (AMHLLink.F5_setup_computes, AMHLLink.F5_check_setup_ok, AMHLLink.F5_final_key_ok, AMHLLink.F5_release_chain, AMHLLink.F5_cascade_chain, AMHLLink.F5_concrete_run).

Print Assumptions C18_setup_computes_prefix_sum_points.
Print Assumptions C18_every_view_passes_check_setup.
Print Assumptions C18_views_spelled_out.
Print Assumptions C18_final_key_opens_last_lock.
Print Assumptions C18_release_computes.
Print Assumptions C18_release_left_computes.
Print Assumptions C18_release_chain.
Print Assumptions C18_cascade_chain.
Print Assumptions C18_link_hypotheses_satisfiable.
Print Assumptions C18_amhl_points.
Print Assumptions C18_amhl_check_setup.
Print Assumptions C18_amhl_final_key.
Print Assumptions C18_amhl_release.
Print Assumptions C18_amhl_cascade.
Print Assumptions C18_amhl_wrong_hop_iff.
Print Assumptions C18_amhl_points_Z.
Print Assumptions C18_amhl_cascade_Z.
Print Assumptions C18_amhl_concrete_Z.
Print Assumptions C18_samples_exactly_n.
Print Assumptions C18_samples_ith_is_sample_of_seed_and_index.
Print Assumptions C18_shorter_chain_same_seed_is_prefix.
Print Assumptions C18_setup_hands_out_n_secrets_and_n_points.
