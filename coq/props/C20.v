(* C20 — Unassigned opcodes are soft-fork-safe no-ops (instruction level). *)
From Coq Require Import ZArith List.
From Coq.Strings Require Import Byte.
From TS Require Import Bytes State Prog Ops Interp NopSpec TablesCheck Tables.
Import ListNotations.
Local Open Scope nat_scope.

(* every code that the live opcode table does not assign dispatches to NOP *)
Theorem C20_unassigned_codes_run_NOP :
  forall code, gen_n_opcodes <= code -> code < 256 -> dispatch code = NOP.
Proof.
  intros code H1 H2. destruct (dispatch_table code H2) as [_ H]. unfold dispatch. rewrite (H H1). reflexivity.
Qed.

(* NOP reads one byte as a signed count; negative: error; count > depth: IndexError after emptying the
   stack; otherwise removes exactly count items; cache, heap, log and every other item are untouched *)
Theorem C20_nop_exact :
  forall orc cfg run fr st b rest,
  data_at fr st = b :: rest ->
  interp orc cfg run NOP fr st =
    let c := signed8 b in
    if (c <? 0)%Z then Raised ScriptExecutionError (adv fr 1) st
    else if Z.to_nat c <=? List.length (st_stack st)
         then Done tt (adv fr 1) (with_stack st (skipn (Z.to_nat c) (st_stack st)))
         else Raised IndexError (adv fr 1) (with_stack st []).
Proof. exact nop_spec. Qed.

Theorem C20_nop_truncated :
  forall orc cfg run fr st,
  data_at fr st = [] -> interp orc cfg run NOP fr st = Raised ScriptExecutionError fr st.
Proof. exact nop_truncated. Qed.

Example C20_signed_count : signed8 xc8 = (-56)%Z /\ signed8 x7f = 127%Z /\ signed8 x80 = (-128)%Z.
Proof. vm_compute. repeat split; reflexivity. Qed.

Print Assumptions C20_unassigned_codes_run_NOP.
Print Assumptions C20_nop_exact.
Print Assumptions C20_nop_truncated.
