(* C20 — Unassigned opcodes are soft-fork-safe no-ops (instruction level). *)
From Coq Require Import ZArith List.
From Coq.Strings Require Import Byte.
From TS Require Import Bytes State Prog Ops Interp NopSpec TablesCheck Tables SoftFork SoftForkProofs.
Import ListNotations.
Local Open Scope nat_scope.

(* every code that the live opcode table does not assign dispatches to NOP *)
Theorem C20_unassigned_codes_run_NOP :
  forall code, gen_n_opcodes <= code -> code < 256 -> dispatch code = NOP.
Proof.
  intros code H1 H2. destruct (dispatch_table code H2) as [_ H]. unfold dispatch. rewrite (H H1). reflexivity.
Qed.

(* NOP reads one byte as a signed count; negative: error; count > depth: IndexError after emptying the
   stack; otherwise removes exactly count items; cache, heap, log and every other item are untouched *)
Theorem C20_nop_exact :
  forall orc cfg run fr st b rest,
  data_at fr st = b :: rest ->
  interp orc cfg run NOP fr st =
    let c := signed8 b in
    if (c <? 0)%Z then Raised ScriptExecutionError (adv fr 1) st
    else if Z.to_nat c <=? List.length (st_stack st)
         then Done tt (adv fr 1) (with_stack st (skipn (Z.to_nat c) (st_stack st)))
         else Raised IndexError (adv fr 1) (with_stack st []).
Proof. exact nop_spec. Qed.

Theorem C20_nop_truncated :
  forall orc cfg run fr st,
  data_at fr st = [] -> interp orc cfg run NOP fr st = Raised ScriptExecutionError fr st.
Proof. exact nop_truncated. Qed.

Example C20_signed_count : signed8 xc8 = (-56)%Z /\ signed8 x7f = 127%Z /\ signed8 x80 = (-128)%Z.
Proof. vm_compute. repeat split; reflexivity. Qed.

(* ---- soft-fork compatibility of the whole interpreter (model/SoftFork.v) ----
   The upgraded VM gives one unassigned code [fcode] a new meaning with NOP's operand and pops, after which it
   may raise depending on the removed items (a raise is marked in the log).  For every oracle, configuration,
   predicate, fuel, script list and cache: *)

(* the forked op either behaves exactly like NOP, or raises (and marks the log) *)
Theorem C20_fork_op_is_nop_or_raises :
  forall orc cfg fcode pred run fr st,
  interp orc cfg run (fork_op fcode pred) fr st = interp orc cfg run NOP fr st \/
  exists e fr' st', interp orc cfg run (fork_op fcode pred) fr st = Raised e fr' st' /\ tainted st'.
Proof. intros. apply fork_op_sim. Qed.

(* the two VMs produce the same outcome (same stack, cache, heap, pointer) unless the fork op raised *)
Theorem C20_soft_fork_simulation :
  forall orc cfg fcode pred, opcode_of_nat fcode = None ->
  forall fuel tid ptr st,
  sim (run_tape_f orc cfg fcode pred fuel tid ptr st) (run_tape orc cfg fuel tid ptr st).
Proof. intros. apply run_tape_sim. assumption. Qed.

(* whatever the upgraded VM authorises without the fork op ever having raised (so in particular with no
   raise of it swallowed by a TRY), the old VM authorises too, with the same final state *)
Theorem C20_soft_fork_auth :
  forall orc cfg fcode pred, opcode_of_nat fcode = None ->
  forall fuel scripts vals st,
  run_auth_scripts_f orc cfg fcode pred fuel scripts vals = AuthVerdict true st ->
  ~ tainted st ->
  run_auth_scripts orc cfg fuel scripts vals = AuthVerdict true st.
Proof. intros. eapply soft_fork_auth; eassumption. Qed.

Theorem C20_soft_fork_run_script :
  forall orc cfg fcode pred, opcode_of_nat fcode = None ->
  forall fuel script vals fr st,
  run_script_f orc cfg fcode pred fuel script vals = Done tt fr st -> ~ tainted st ->
  run_script orc cfg fuel script vals = Done tt fr st.
Proof. intros. eapply soft_fork_run_script; eassumption. Qed.

(* a raise of the fork op stays visible to the end of the upgraded run, whatever TRY blocks do with it *)
Theorem C20_fork_raise_is_never_forgotten :
  forall orc cfg fcode pred fuel tid ptr st, tainted st ->
  match run_tape_f orc cfg fcode pred fuel tid ptr st with Done _ _ s | Raised _ _ s => tainted s | _ => True end.
Proof. intros. apply taint_is_final. assumption. Qed.

(* the TRY caveat of the property is real: wrapped in a TRY the two VMs end differently (code 200, model run) *)
Example C20_try_wrapped_fork_diverges :
  Ex.stack_of (Ex.rf 100 Ex.s_try []) = Some [[xff]] /\ Ex.stack_of (Ex.rb 100 Ex.s_try []) = Some [[xff]; [xff]].
Proof. vm_compute. split; reflexivity. Qed.

Print Assumptions C20_fork_op_is_nop_or_raises.
Print Assumptions C20_soft_fork_simulation.
Print Assumptions C20_soft_fork_auth.
Print Assumptions C20_soft_fork_run_script.
Print Assumptions C20_fork_raise_is_never_forgotten.
Print Assumptions C20_unassigned_codes_run_NOP.
Print Assumptions C20_nop_exact.
Print Assumptions C20_nop_truncated.
