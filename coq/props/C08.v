(* C08 — Scripts can read but never alter interpreter-owned cache values.
   For every oracle (behaviour of hashes, signatures, ...), configuration, script list, initial cache
   and fuel: the final cache — also when the run raised — has under every str key other than the
   interpreter's own control flag 'returned' exactly the embedder's value.
   Known finding D13: the control flag itself lives under the str key 'returned'. *)
From Coq Require Import ZArith List.
From TS Require Import Bytes State Prog Ops Interp StateLemmas Closure StrKeys.
Import ListNotations.

Theorem C08_run_script_str_keys_preserved :
  forall orc cfg fuel script vals,
  match run_script orc cfg fuel script vals with
  | Done _ _ st' | Raised _ _ st' =>
    forall k, bytes_eqb k returned_name = false ->
      cache_get (st_cache st') (KStr k) = cache_get (init_cache cfg vals) (KStr k)
  | _ => True
  end.
Proof. exact run_script_str. Qed.

Theorem C08_run_auth_scripts_str_keys_preserved :
  forall orc cfg fuel scripts vals,
  match run_auth_scripts orc cfg fuel scripts vals with
  | AuthVerdict _ st' =>
    forall k, bytes_eqb k returned_name = false ->
      cache_get (st_cache st') (KStr k) = cache_get (init_cache cfg vals) (KStr k)
  | _ => True
  end.
Proof. exact run_auth_scripts_str. Qed.

(* every single action respects the relation, whatever the sub-tapes it starts do *)
Theorem C08_every_action : forall orc cfg, step_closed orc cfg R_str.
Proof. exact step_closed_str. Qed.

(* D13: 'returned' itself is a str key that a script does alter *)
Definition no_oracle : oracle := fun _ _ => OErr OtherError.
Definition cfg0 : config :=
  {| c_max_items := 1024; c_max_item_size := 1024; c_limit := 128%Z; c_flags := []; c_sigext := [];
     c_ctplugins := []; c_contracts := []; c_now := 0%Z |}.
Theorem C08_returned_key_refuted :
  exists script,
  match run_script no_oracle cfg0 10 script [] with
  | Done _ _ st' => cache_get (st_cache st') (KStr returned_name) <> cache_get (init_cache cfg0 []) (KStr returned_name)
  | _ => False
  end.
Proof. exists [Byte.x30]. vm_compute. discriminate. Qed.

Print Assumptions C08_run_script_str_keys_preserved.
Print Assumptions C08_run_auth_scripts_str_keys_preserved.
Print Assumptions C08_every_action.
