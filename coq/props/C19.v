(* C19 — Extension registries behave as sets; an entry is used by a run iff it is active.
   Registry part (plugins, contracts, contract interfaces, aliases): model/Registry.v is a
   state machine following tapescript/functions.py call by call; the abstract specification
   ([active_plugin], [active_contract], [active_iface], [active_alias], [op_ok]) is a function of
   the call history only (most recent call first, hence [rev ops]) and of the membership /
   lookup relation of the registry the history started from.
   [implements k i] = isinstance(contract k, interface i); [known_op o] = o in opcodes_inverse.
   The compile / caller-dict part of C19 is handled separately (see DESIGN.md). *)
From Coq Require Import List Bool Arith.
From TS Require Import Registry RegistryProofs.
Import ListNotations.

(* 1. after any history the registry contents are exactly the active entries *)
Theorem C19_registry_refines_sets :
  forall (implements : nat -> nat -> bool) (known_op : nat -> bool) (r0 : reg) (ops : list rop),
    reg_inv r0 ->
    let r := run_reg implements known_op r0 ops in
    (forall s p, In p (plugins_of r s) <-> active_plugin r0 (rev ops) s p = true) /\
    (forall id, alookup id (r_contracts r) = active_contract implements r0 (rev ops) id) /\
    (forall i, In i (r_ifaces r) <-> active_iface r0 (rev ops) i = true) /\
    (forall a, alookup a (r_aliases r) = active_alias known_op r0 (rev ops) a).
Proof. exact registry_refines_sets. Qed.

(* the finite enumeration inside [contract_accepted] means: some active interface matches *)
Theorem C19_contract_accepted_spec :
  forall (implements : nat -> nat -> bool) (r0 : reg) (h : list rop) (k : nat),
    contract_accepted implements r0 h k = true <->
    exists i, active_iface r0 h i = true /\ implements k i = true.
Proof. exact contract_accepted_spec. Qed.

(* which calls raise is also a function of the history *)
Theorem C19_outcome_refines :
  forall (implements : nat -> nat -> bool) (known_op : nat -> bool) (r0 : reg) (ops : list rop) (o : rop),
    reg_inv r0 ->
    snd (rstep implements known_op (run_reg implements known_op r0 ops) o) =
    if op_ok implements known_op r0 (rev ops) o then ROk else RErr.
Proof. exact outcome_refines. Qed.

(* the harness runs [run_trace]; it computes [run_reg] and one outcome per call *)
Theorem C19_run_trace_fst :
  forall (implements : nat -> nat -> bool) (known_op : nat -> bool) (ops : list rop) (r : reg),
    fst (run_trace implements known_op r ops) = run_reg implements known_op r ops.
Proof. exact run_trace_fst. Qed.

(* 2. no duplicates anywhere, initially and after every call *)
Theorem C19_registry_invariant :
  (forall ifaces aliases,
     NoDup ifaces -> NoDup (map fst aliases) -> reg_inv (reg_init ifaces aliases)) /\
  (forall (implements : nat -> nat -> bool) (known_op : nat -> bool) (r : reg) (o : rop),
     reg_inv r -> reg_inv (fst (rstep implements known_op r o))) /\
  (forall (implements : nat -> nat -> bool) (known_op : nat -> bool) (r0 : reg) (ops : list rop),
     reg_inv r0 -> reg_inv (run_reg implements known_op r0 ops)).
Proof. exact registry_invariant. Qed.

Theorem C19_reg_inv_unfold :
  forall r, reg_inv r <->
    NoDup (map fst (r_plugins r)) /\
    Forall (fun e => NoDup (snd e)) (r_plugins r) /\
    NoDup (map fst (r_contracts r)) /\
    NoDup (r_ifaces r) /\
    NoDup (map fst (r_aliases r)).
Proof. exact reg_inv_unfold. Qed.

(* 3. plugins of a scope stay in order of addition *)
Theorem C19_plugin_order :
  forall (implements : nat -> nat -> bool) (known_op : nat -> bool) (r : reg) (s p : nat),
    let add := fst (rstep implements known_op r (AddPlugin s p)) in
    let rem := fst (rstep implements known_op r (RemovePlugin s p)) in
    (~ In p (plugins_of r s) -> plugins_of add s = plugins_of r s ++ [p]) /\
    (In p (plugins_of r s) -> plugins_of add s = plugins_of r s) /\
    (reg_inv r -> plugins_of rem s = remove Nat.eq_dec p (plugins_of r s)) /\
    (forall s', s' <> s -> alookup s' (r_plugins add) = alookup s' (r_plugins r)) /\
    (forall s', s' <> s -> alookup s' (r_plugins rem) = alookup s' (r_plugins r)).
Proof. exact plugin_order. Qed.

(* without the invariant: exactly what list.remove does *)
Theorem C19_remove_plugin_first :
  forall (implements : nat -> nat -> bool) (known_op : nat -> bool) (r : reg) (s p : nat),
    plugins_of (fst (rstep implements known_op r (RemovePlugin s p))) s =
    remove_first p (plugins_of r s).
Proof. exact remove_plugin_first. Qed.

(* frames: every call leaves what it does not name unchanged *)
Theorem C19_frame_AddPlugin :
  forall (implements : nat -> nat -> bool) (known_op : nat -> bool) (r : reg) (s p : nat),
    let r' := fst (rstep implements known_op r (AddPlugin s p)) in
    same_but_plugins r r' /\
    forall s', s' <> s -> alookup s' (r_plugins r') = alookup s' (r_plugins r).
Proof. exact frame_AddPlugin. Qed.

Theorem C19_frame_RemovePlugin :
  forall (implements : nat -> nat -> bool) (known_op : nat -> bool) (r : reg) (s p : nat),
    let r' := fst (rstep implements known_op r (RemovePlugin s p)) in
    same_but_plugins r r' /\
    forall s', s' <> s -> alookup s' (r_plugins r') = alookup s' (r_plugins r).
Proof. exact frame_RemovePlugin. Qed.

Theorem C19_frame_ResetPlugins :
  forall (implements : nat -> nat -> bool) (known_op : nat -> bool) (r : reg) (s : nat),
    let r' := fst (rstep implements known_op r (ResetPlugins s)) in
    same_but_plugins r r' /\
    forall s', s' <> s -> alookup s' (r_plugins r') = alookup s' (r_plugins r).
Proof. exact frame_ResetPlugins. Qed.

Theorem C19_same_but_plugins_unfold :
  forall r r', same_but_plugins r r' <->
    r_contracts r' = r_contracts r /\ r_ifaces r' = r_ifaces r /\ r_aliases r' = r_aliases r.
Proof. exact same_but_plugins_unfold. Qed.

Theorem C19_frame_AddContract :
  forall (implements : nat -> nat -> bool) (known_op : nat -> bool) (r : reg) (id k : nat),
    let r' := fst (rstep implements known_op r (AddContract id k)) in
    r_plugins r' = r_plugins r /\ r_ifaces r' = r_ifaces r /\ r_aliases r' = r_aliases r /\
    forall id', id' <> id -> alookup id' (r_contracts r') = alookup id' (r_contracts r).
Proof. exact frame_AddContract. Qed.

Theorem C19_frame_RemoveContract :
  forall (implements : nat -> nat -> bool) (known_op : nat -> bool) (r : reg) (id : nat),
    let r' := fst (rstep implements known_op r (RemoveContract id)) in
    r_plugins r' = r_plugins r /\ r_ifaces r' = r_ifaces r /\ r_aliases r' = r_aliases r /\
    forall id', id' <> id -> alookup id' (r_contracts r') = alookup id' (r_contracts r).
Proof. exact frame_RemoveContract. Qed.

Theorem C19_frame_AddIface :
  forall (implements : nat -> nat -> bool) (known_op : nat -> bool) (r : reg) (i : nat),
    let r' := fst (rstep implements known_op r (AddIface i)) in
    r_plugins r' = r_plugins r /\ r_contracts r' = r_contracts r /\ r_aliases r' = r_aliases r /\
    forall i', i' <> i -> (In i' (r_ifaces r') <-> In i' (r_ifaces r)).
Proof. exact frame_AddIface. Qed.

Theorem C19_frame_RemoveIface :
  forall (implements : nat -> nat -> bool) (known_op : nat -> bool) (r : reg) (i : nat),
    NoDup (r_ifaces r) ->
    let r' := fst (rstep implements known_op r (RemoveIface i)) in
    r_plugins r' = r_plugins r /\ r_contracts r' = r_contracts r /\ r_aliases r' = r_aliases r /\
    r_ifaces r' = remove Nat.eq_dec i (r_ifaces r).
Proof. exact frame_RemoveIface. Qed.

Theorem C19_frame_AddAlias :
  forall (implements : nat -> nat -> bool) (known_op : nat -> bool) (r : reg) (a o : nat),
    let r' := fst (rstep implements known_op r (AddAlias a o)) in
    r_plugins r' = r_plugins r /\ r_contracts r' = r_contracts r /\ r_ifaces r' = r_ifaces r /\
    forall a', a' <> a -> alookup a' (r_aliases r') = alookup a' (r_aliases r).
Proof. exact frame_AddAlias. Qed.

(* dict key order of _plugins: only add_plugin of a missing scope changes it, by appending *)
Theorem C19_plugin_scope_order :
  forall (implements : nat -> nat -> bool) (known_op : nat -> bool) (r : reg) (o : rop),
    map fst (r_plugins (fst (rstep implements known_op r o))) =
    match o with
    | AddPlugin s _ =>
        if amem s (r_plugins r) then map fst (r_plugins r) else map fst (r_plugins r) ++ [s]
    | _ => map fst (r_plugins r)
    end.
Proof. exact plugin_scope_order. Qed.

(* 4. reset_plugins empties the scope, whatever it held (regression: it used to keep every
   other element) *)
Theorem C19_reset_clears :
  forall (implements : nat -> nat -> bool) (known_op : nat -> bool) (r : reg) (s : nat),
    plugins_of (fst (rstep implements known_op r (ResetPlugins s))) s = [].
Proof. exact reset_clears. Qed.

(* 5. what a subsequent run_script uses *)
Theorem C19_run_uses_active :
  forall (r : reg) (cplugins : list (nat * list nat)) (ccontracts : list (nat * nat)),
    (forall s l, alookup s cplugins = Some l -> run_plugins_of r cplugins s = l) /\
    (forall s, alookup s cplugins = None -> run_plugins_of r cplugins s = plugins_of r s) /\
    (forall id k, alookup id ccontracts = Some k -> run_contract_of r ccontracts id = Some k) /\
    (forall id, alookup id ccontracts = None ->
                run_contract_of r ccontracts id = alookup id (r_contracts r)).
Proof. exact run_uses_active. Qed.

Theorem C19_run_uses_active_iff :
  forall (implements : nat -> nat -> bool) (known_op : nat -> bool) (r0 : reg) (ops : list rop),
    reg_inv r0 ->
    let r := run_reg implements known_op r0 ops in
    (forall s, run_plugins_of r [] s = plugins_of r s) /\
    (forall s p, In p (run_plugins_of r [] s) <-> active_plugin r0 (rev ops) s p = true) /\
    (forall id, run_contract_of r [] id = active_contract implements r0 (rev ops) id).
Proof. exact run_uses_active_iff. Qed.

(* 6. a call that raises changes nothing; and exactly which calls raise *)
Theorem C19_errors_change_nothing :
  forall (implements : nat -> nat -> bool) (known_op : nat -> bool) (r : reg) (o : rop),
    snd (rstep implements known_op r o) = RErr -> fst (rstep implements known_op r o) = r.
Proof. exact errors_change_nothing. Qed.

Theorem C19_rstep_err_iff :
  forall (implements : nat -> nat -> bool) (known_op : nat -> bool) (r : reg) (o : rop),
    snd (rstep implements known_op r o) = RErr <->
    match o with
    | AddContract _ k => forall i, In i (r_ifaces r) -> implements k i = false
    | AddAlias a o' => known_op o' = false \/ alookup a (r_aliases r) <> None
    | _ => False
    end.
Proof. exact rstep_err_iff. Qed.

(* ---------- non-vacuity: the hypotheses are met and everything computes ---------- *)
Definition ex_implements (k i : nat) : bool := Nat.eqb k i.   (* contract k implements interface k only *)
Definition ex_known (o : nat) : bool := Nat.ltb o 3.
Definition ex_init : reg := reg_init [0; 1] [(10, 0); (11, 1)].

Example C19_ex_init_inv : reg_inv ex_init.
Proof.
  apply reg_init_inv.
  - repeat constructor; simpl; intuition discriminate.
  - repeat constructor; simpl; intuition discriminate.
Qed.

(* add p1,p2,p3 to scope 0; remove p2; add p1 again (no move); plugin for a new scope 7;
   reset scope 0; add p2 *)
Definition ex_plugin_history : list rop :=
  [AddPlugin 0 1; AddPlugin 0 2; AddPlugin 0 3; RemovePlugin 0 2; AddPlugin 0 1; AddPlugin 7 5].

Example C19_ex_before_reset :
  r_plugins (run_reg ex_implements ex_known ex_init ex_plugin_history)
  = [(0, [1; 3]); (1, []); (7, [5])].
Proof. vm_compute. reflexivity. Qed.

Example C19_ex_after_reset :
  r_plugins (run_reg ex_implements ex_known ex_init (ex_plugin_history ++ [ResetPlugins 0; AddPlugin 0 2]))
  = [(0, [2]); (1, []); (7, [5])].
Proof. vm_compute. reflexivity. Qed.

(* the defect fixed upstream: add p1,p2,p3; reset  left [p2] behind *)
Example C19_ex_reset_three :
  plugins_of (run_reg ex_implements ex_known ex_init
                [AddPlugin 0 1; AddPlugin 0 2; AddPlugin 0 3; ResetPlugins 0]) 0 = [].
Proof. vm_compute. reflexivity. Qed.

(* contracts / interfaces / aliases, with the outcome of every call:
   contract 2 is refused until interface 2 is registered; removing interface 0 does not evict
   contract 0 already registered under id 100 but refuses it under id 102; alias 10 is taken,
   op 9 is unknown, alias 12 -> 2 is accepted once *)
Definition ex_mixed_history : list rop :=
  [AddContract 100 0; AddContract 101 2; AddIface 2; AddContract 101 2; RemoveIface 0;
   AddContract 102 0; AddContract 100 1; RemoveContract 101; RemoveContract 55;
   AddAlias 10 2; AddAlias 12 9; AddAlias 12 2; AddAlias 12 1].

Example C19_ex_mixed :
  run_trace ex_implements ex_known ex_init ex_mixed_history
  = ({| r_plugins := [(0, []); (1, [])];
        r_contracts := [(100, 1)];
        r_ifaces := [1; 2];
        r_aliases := [(10, 0); (11, 1); (12, 2)] |},
     [ROk; RErr; ROk; ROk; ROk; RErr; ROk; ROk; ROk; RErr; RErr; ROk; RErr]).
Proof. vm_compute. reflexivity. Qed.

(* the abstract specification computes the same answers on that history *)
Example C19_ex_mixed_spec :
  map (active_contract ex_implements ex_init (rev ex_mixed_history)) [100; 101; 102]
    = [Some 1; None; None] /\
  map (active_iface ex_init (rev ex_mixed_history)) [0; 1; 2; 3] = [false; true; true; false] /\
  map (active_alias ex_known ex_init (rev ex_mixed_history)) [10; 11; 12; 13]
    = [Some 0; Some 1; Some 2; None] /\
  map (fun s => map (active_plugin ex_init (rev (ex_plugin_history ++ [ResetPlugins 0; AddPlugin 0 2])) s)
                    [1; 2; 3; 5]) [0; 7]
    = [[false; true; false; false]; [false; false; false; true]].
Proof. vm_compute. repeat split. Qed.

(* a run with the caller's dicts: the caller's list replaces the whole scope; other scopes and
   contracts fall through to the registry *)
Example C19_ex_run :
  let r := run_reg ex_implements ex_known ex_init (ex_plugin_history ++ [AddContract 100 0]) in
  run_plugins_of r [(0, [9])] 0 = [9] /\
  run_plugins_of r [(0, [9])] 7 = [5] /\
  run_plugins_of r [] 0 = [1; 3] /\
  run_plugins_of r [] 4 = [] /\
  run_contract_of r [(100, 1)] 100 = Some 1 /\
  run_contract_of r [(101, 1)] 100 = Some 0 /\
  run_contract_of r [] 101 = None.
Proof. vm_compute. repeat split. Qed.

Print Assumptions C19_registry_refines_sets.
Print Assumptions C19_contract_accepted_spec.
Print Assumptions C19_outcome_refines.
Print Assumptions C19_run_trace_fst.
Print Assumptions C19_registry_invariant.
Print Assumptions C19_reg_inv_unfold.
Print Assumptions C19_plugin_order.
Print Assumptions C19_remove_plugin_first.
Print Assumptions C19_frame_AddPlugin.
Print Assumptions C19_frame_RemovePlugin.
Print Assumptions C19_frame_ResetPlugins.
Print Assumptions C19_same_but_plugins_unfold.
Print Assumptions C19_frame_AddContract.
Print Assumptions C19_frame_RemoveContract.
Print Assumptions C19_frame_AddIface.
Print Assumptions C19_frame_RemoveIface.
Print Assumptions C19_frame_AddAlias.
Print Assumptions C19_plugin_scope_order.
Print Assumptions C19_reset_clears.
Print Assumptions C19_run_uses_active.
Print Assumptions C19_run_uses_active_iff.
Print Assumptions C19_errors_change_nothing.
Print Assumptions C19_rstep_err_iff.
Print Assumptions C19_ex_init_inv.
Print Assumptions C19_ex_before_reset.
Print Assumptions C19_ex_after_reset.
Print Assumptions C19_ex_reset_three.
Print Assumptions C19_ex_mixed.
Print Assumptions C19_ex_mixed_spec.
Print Assumptions C19_ex_run.
