(* C13 — Lock / witness builder pairs: the authorisation verdict, exactly, at the level of the bytes the
   builders emit (model/Builders.v; tied to tapescript.tools by the correspondence run, command BLD).
   For every oracle, every cache [vals], every configuration with room and every fuel above an explicit
   constant:
     A. the bytes of the builders, and make_single_sig_lock / _witness:
        verdict True  <->  permitted flag /\ the oracle verifies (key, flag-selected message, sig[:64]);
     B. make_single_sig_lock2 / _witness2 (key committed by its SHAKE256-20 hash):
        verdict True  <->  shake256(pk, 20) = h  /\  the same signature condition;
     C. make_multisig_lock with m pushed signatures: the verdict is the greedy matching [ms_verdict] of C03
        over the real signature check, signatures and keys in REVERSE order of the builder arguments
        (the stack at OP_CHECK_MULTISIG is pk_n .. pk_1 sig_m .. sig_1, top first).
   Oracle errors (OErr) give verdict False; an answer of the wrong arity is outside the model (AuthUnmod) —
   both are explicit cases in A and B, and premises in C. *)
From Coq Require Import ZArith List Bool.
From Coq.Strings Require Import Byte String.
From TS Require Import Bytes State Prog Ops Interp SigSpec MultisigPure MultisigLink BuilderSpec TapeSteps
  Builders BuilderSpecC13 BuilderSpecC13b TablesCheck.
From TS Require BuilderSpecC13c.
From TS Require BuilderSourcesProofs.
Import ListNotations.
Local Open Scope nat_scope.

(* ---------- A. the bytes ---------- *)

Theorem C13_single_sig_bytes :
  forall (pk sig : bytes) (fl : byte),
    Builders.single_sig_lock pk fl = (x03 :: z2b (blen pk) :: pk) ++ [x23; fl] /\
    Builders.single_sig_witness sig = x03 :: z2b (blen sig) :: sig.
Proof. exact single_sig_bytes. Qed.

Theorem C13_single_sig2_bytes :
  forall (pk sig h : bytes) (fl : byte),
    Builders.single_sig_lock2 h fl = [x1d] ++ [x1f; x14] ++ (x03 :: z2b (blen h) :: h) ++ [x22] ++ [x23; fl] /\
    Builders.single_sig_witness2 sig pk = (x03 :: z2b (blen sig) :: sig) ++ (x03 :: z2b (blen pk) :: pk).
Proof. exact single_sig2_bytes. Qed.

Theorem C13_multisig_bytes :
  forall (pks sigs : list bytes) (fl m : byte),
    Builders.multisig_lock pks fl m =
      flat_map (fun v => x03 :: z2b (blen v) :: v) pks ++ [x46; fl; m; z2b (Z.of_nat (List.length pks))] /\
    multisig_witness sigs = flat_map (fun v => x03 :: z2b (blen v) :: v) sigs.
Proof. exact multisig_bytes. Qed.

(* ---------- A. single signature ---------- *)

Theorem C13_single_sig_exact :
  forall (orc : oracle) (cfg : config), 65 <= c_max_item_size cfg ->
  forall (f : nat) (pk sig : bytes) (fl : byte) (vals : cache),
  2 <= c_max_items cfg ->
  List.length pk = 32 -> (List.length sig = 64 \/ List.length sig = 65) ->
  match run_auth_scripts orc cfg (S (S (S f)))
          [Builders.single_sig_witness sig; Builders.single_sig_lock pk fl] vals with
  | AuthVerdict b _ => b = true <-> sig_accepts orc cfg pk sig (b2z fl) (init_cache cfg vals)
  | AuthFuel => False
  | AuthUnmod _ => exists m l, msg_of (sig_flag sig) (init_cache cfg vals) = Some m /\
                               orc PVerify [pk; m; firstn 64 sig] = OOk l /\ List.length l <> 1
  end.
Proof. exact single_sig_exact'. Qed.

(* [sig_accepts], spelled out *)
Theorem C13_sig_accepts_meaning :
  forall (orc : oracle) (cfg : config) (pk sig : bytes) (allowed : Z) (c : cache),
  sig_accepts orc cfg pk sig allowed c <->
  (flags_permitted (sig_flag sig) allowed = true /\
   exists m x, msg_of (sig_flag sig) c = Some m /\ List.length m <= c_max_item_size cfg /\
               orc PVerify [pk; m; firstn 64 sig] = OOk [x] /\ bytes_to_bool x = true).
Proof. exact sig_accepts_meaning. Qed.

(* ---------- B. single signature under a hashed key ---------- *)

Theorem C13_single_sig2_exact :
  forall (orc : oracle) (cfg : config), 65 <= c_max_item_size cfg ->
  forall (f : nat) (pk sig h : bytes) (fl : byte) (vals : cache),
  4 <= c_max_items cfg ->
  List.length pk = 32 -> (List.length sig = 64 \/ List.length sig = 65) -> List.length h = 20 ->
  match run_auth_scripts orc cfg (S (S (S (S (S (S f))))))
          [Builders.single_sig_witness2 sig pk; Builders.single_sig_lock2 h fl] vals with
  | AuthVerdict b _ =>
    b = true <-> (orc PShake256 [pk; [x14]] = OOk [h] /\
                  sig_accepts orc cfg pk sig (b2z fl) (init_cache cfg vals))
  | AuthFuel => False
  | AuthUnmod _ =>
    (exists l, orc PShake256 [pk; [x14]] = OOk l /\ List.length l <> 1) \/
    (orc PShake256 [pk; [x14]] = OOk [h] /\
     exists m l, msg_of (sig_flag sig) (init_cache cfg vals) = Some m /\
                 orc PVerify [pk; m; firstn 64 sig] = OOk l /\ List.length l <> 1)
  end.
Proof. exact single_sig2_exact. Qed.

(* ---------- C. multisig ---------- *)

Theorem C13_multisig_lock_exact :
  forall (orc : oracle) (cfg : config), 65 <= c_max_item_size cfg ->
  forall (f : nat) (pks sigs : list bytes) (fl m : byte) (vals : cache),
  List.length pks < 256 -> b2z m = Z.of_nat (List.length sigs) ->
  List.length pks + List.length sigs <= c_max_items cfg -> 2 <= c_max_items cfg ->
  (forall k, In k pks -> List.length k = 32) ->
  (forall s, In s sigs -> (List.length s = 64 \/ List.length s = 65) /\
                          flags_permitted (sig_flag s) (b2z fl) = true) ->
  (forall s k, In s sigs -> In k pks ->
     exists msg x, msg_of (sig_flag s) (init_cache cfg vals) = Some msg /\
                   List.length msg <= c_max_item_size cfg /\
                   orc PVerify [k; msg; firstn 64 s] = OOk [x]) ->
  match run_auth_scripts orc cfg (S (S (List.length sigs + List.length pks + f)))
          [multisig_witness sigs; Builders.multisig_lock pks fl m] vals with
  | AuthVerdict b _ =>
    b = true <-> ms_verdict (real_chk orc (init_cache cfg vals)) (rev sigs) (rev pks) = true
  | _ => False
  end.
Proof. exact multisig_lock_accepts_iff. Qed.

(* [real_chk], spelled out: the oracle's verdict on (key, flag-selected message, first 64 signature bytes) *)
Theorem C13_real_chk_meaning :
  forall (orc : oracle) (c : cache) (s k : bytes),
  real_chk orc c s k =
    match msg_of (sig_flag s) c with
    | Some m => match orc PVerify [k; m; firstn 64 s] with OOk [x] => bytes_to_bool x | _ => false end
    | None => false
    end.
Proof. exact real_chk_meaning. Qed.

(* ---------- the premises are satisfiable; one concrete instance of each pair ---------- *)

(* [toy] (BuilderSpecC13): PVerify -> OOk [[x01]], PShake256 -> OOk [repeat x07 20], anything else -> OErr;
   [toy_cfg] := default_config 1000 (generated from the live package); [verdict_of] projects the verdict *)

Example C13_room : 65 <= c_max_item_size toy_cfg /\ 4 <= c_max_items toy_cfg.
Proof. split; apply Nat.leb_le; vm_compute; reflexivity. Qed.

Example C13_single_sig_instance :
  let pk := repeat x01 32 in let sig := repeat x02 64 in
  sig_accepts toy toy_cfg pk sig (b2z x00) (init_cache toy_cfg []) /\
  verdict_of (run_auth_scripts toy toy_cfg 3
                [Builders.single_sig_witness sig; Builders.single_sig_lock pk x00] []) = Some true.
Proof.
  cbv zeta. split; [|vm_compute; reflexivity].
  split; [vm_compute; reflexivity|]. exists [], [x01].
  split; [vm_compute; reflexivity|]. split; [apply Nat.le_0_l|]. split; reflexivity.
Qed.

Example C13_single_sig2_instance :
  let pk := repeat x01 32 in let sig := repeat x02 64 in
  toy PShake256 [pk; [x14]] = OOk [repeat x07 20] /\
  verdict_of (run_auth_scripts toy toy_cfg 6
                [Builders.single_sig_witness2 sig pk; Builders.single_sig_lock2 (repeat x07 20) x00] [])
    = Some true /\
  (* a lock committing to another hash refuses the same witness *)
  verdict_of (run_auth_scripts toy toy_cfg 6
                [Builders.single_sig_witness2 sig pk; Builders.single_sig_lock2 (repeat x08 20) x00] [])
    = Some false.
Proof. cbv zeta. split; [reflexivity|]. split; vm_compute; reflexivity. Qed.

Example C13_multisig_instance :
  let pks := [repeat x01 32; repeat x03 32] in
  let sigs := [repeat x02 64; repeat x04 64] in
  ms_verdict (real_chk toy (init_cache toy_cfg [])) (rev sigs) (rev pks) = true /\
  verdict_of (run_auth_scripts toy toy_cfg (S (S (List.length sigs + List.length pks + 0)))
                [multisig_witness sigs; Builders.multisig_lock pks x00 x02] []) = Some true /\
  (* the same signature twice is refused (C03: signatures must be pairwise different) *)
  ms_verdict (real_chk toy (init_cache toy_cfg [])) (rev [repeat x02 64; repeat x02 64]) (rev pks) = false /\
  verdict_of (run_auth_scripts toy toy_cfg 6
                [multisig_witness [repeat x02 64; repeat x02 64]; Builders.multisig_lock pks x00 x02] [])
    = Some false.
Proof. cbv zeta. repeat split; vm_compute; reflexivity. Qed.

(* ---------- D. script-hash lock and graftroot lock (proofs/BuilderSpecC13b.v) ----------
   [verdict_after post o] = the verdict rule of run_auth_scripts applied to the outcome o of the evaluated script:
   True iff it ends normally with exactly [ff] on the stack. *)

(* a script that does not hash to the commitment is refused, and nothing of it starts: the heap holds exactly the
   two top-level tapes, the log is empty *)
Theorem C13_scripthash_other_script_never_starts :
  forall orc cfg f (script h : bytes) n d vals,
  0 < List.length script < 256 -> List.length script <= c_max_item_size cfg ->
  List.length h < 256 -> List.length h <= c_max_item_size cfg -> 3 <= c_max_items cfg ->
  orc PShake256 [script; [n]] = OOk [d] -> d <> h ->
  exists st,
    run_auth_scripts orc cfg (S (S (S (S (S (S f)))))) [sh_witness script; scripthash_lock h n] vals
      = AuthVerdict false st /\
  st_tapes st = sh_tapes script h n /\
  st_log st = st_log (init_state cfg (sh_witness script) vals) /\ st_log st = [].
Proof. exact scripthash_wrong_script. Qed.

(* the committed script runs, from the empty stack, as a fresh tape object (call count 1), and its verdict is the verdict *)
Theorem C13_scripthash_committed_script_runs :
  forall orc cfg f (script h : bytes) n vals,
  0 < List.length script < 256 -> List.length script <= c_max_item_size cfg ->
  List.length h < 256 -> List.length h <= c_max_item_size cfg -> 3 <= c_max_items cfg ->
  no_eval_ban cfg -> (0 < c_limit cfg)%Z ->
  orc PShake256 [script; [n]] = OOk [h] ->
  run_auth_scripts orc cfg (S (S (S (S (S (S f)))))) [sh_witness script; scripthash_lock h n] vals =
    verdict_after (eval_cache cfg) (run_tape orc cfg (S f) 2 0 (sh_eval_state cfg script h n vals)).
Proof. exact scripthash_committed_script. Qed.

(* graftroot, key path: the same condition as the single-signature lock *)
Theorem C13_graftroot_key_path_exact :
  forall orc cfg f (pk sig : bytes) fl vals,
  65 <= c_max_item_size cfg -> 3 <= c_max_items cfg ->
  List.length pk = 32 -> (List.length sig = 64 \/ List.length sig = 65) ->
  match run_auth_scripts orc cfg (S (S (S (S (S (S f))))))
          [graftroot_key_witness sig; graftroot_lock pk fl] vals with
  | AuthVerdict b _ => b = true <-> sig_accepts orc cfg pk sig (b2z fl) (init_cache cfg vals)
  | AuthFuel => False
  | AuthUnmod _ => exists m l, msg_of (sig_flag sig) (init_cache cfg vals) = Some m /\
                               orc PVerify [pk; m; firstn 64 sig] = OOk l /\ List.length l <> 1
  end.
Proof. exact graftroot_key_exact. Qed.

(* graftroot, surrogate path: a surrogate signed by the lock's key runs from the empty stack and decides ... *)
Theorem C13_graftroot_signed_surrogate_runs :
  forall orc cfg f (pk ssig surrogate : bytes) fl vals,
  65 <= c_max_item_size cfg -> 4 <= c_max_items cfg ->
  List.length pk = 32 -> List.length ssig = 64 ->
  0 < List.length surrogate < 256 -> List.length surrogate <= c_max_item_size cfg ->
  no_eval_ban cfg -> (0 < c_limit cfg)%Z ->
  surrogate_verifies orc pk surrogate ssig ->
  run_auth_scripts orc cfg (S (S (S (S (S (S (S (S (S (S f))))))))))
    [graftroot_surrogate_witness ssig surrogate; graftroot_lock pk fl] vals =
    verdict_after (fun s => prop_cache (eval_cache cfg s))
      (run_tape orc cfg (S f) 3 0 (gr_eval_state cfg pk fl ssig surrogate vals)).
Proof. exact graftroot_surrogate_runs. Qed.

(* ... and one that is not (wrong key, altered script, oracle error) never starts *)
Theorem C13_graftroot_unsigned_surrogate_never_starts :
  forall orc cfg f (pk ssig surrogate : bytes) fl vals,
  65 <= c_max_item_size cfg -> 4 <= c_max_items cfg ->
  List.length pk = 32 -> List.length ssig = 64 ->
  0 < List.length surrogate < 256 -> List.length surrogate <= c_max_item_size cfg ->
  no_eval_ban cfg -> (0 < c_limit cfg)%Z ->
  ~ surrogate_verifies orc pk surrogate ssig ->
  exists st,
    run_auth_scripts orc cfg (S (S (S (S (S (S (S (S (S (S f))))))))))
      [graftroot_surrogate_witness ssig surrogate; graftroot_lock pk fl] vals = AuthVerdict false st /\
    st_tapes st = gr_tapes (graftroot_surrogate_witness ssig surrogate) pk fl surr_arm /\
    st_log st = [].
Proof. exact graftroot_surrogate_rejected. Qed.

Print Assumptions C13_scripthash_other_script_never_starts.
Print Assumptions C13_scripthash_committed_script_runs.
Print Assumptions C13_graftroot_key_path_exact.
Print Assumptions C13_graftroot_signed_surrogate_runs.
Print Assumptions C13_graftroot_unsigned_surrogate_never_starts.
(* ---------- E. graftap lock = taproot lock over the committed script  dup ; swap 1 2 ; push pk ; check_sig_stack ; verify ; eval
   (proofs/BuilderSpecC13c.v; bytes checked against the real builders by Examples there).  Closed statements printed by Check:
   key path: True iff the signature is accepted under the root; script path: the pair must recompute to the root, then a
   surrogate signed by pk runs (call count 2) and decides, any other surrogate never starts; a pair that does not recompute
   to the root starts nothing. *)
Definition C13_graftap_bytes := BuilderSpecC13c.graftap_bytes_real.
Definition C13_graftap_key_path := @BuilderSpecC13c.graftap_key_path_pair.
Definition C13_graftap_wrong_commitment_never_starts := @BuilderSpecC13c.graftap_script_path_wrong_commitment.
Definition C13_graftap_signed_surrogate_runs := @BuilderSpecC13c.graftap_script_path_runs.
Definition C13_graftap_unsigned_surrogate_never_starts := @BuilderSpecC13c.graftap_script_path_rejected.
Definition C13_graftap_pair := @BuilderSpecC13c.graftap_script_path_pair.
Definition C13_graftap_example := BuilderSpecC13c.graftap_example.
Check C13_graftap_key_path.
Check C13_graftap_wrong_commitment_never_starts.
Check C13_graftap_signed_surrogate_runs.
Check C13_graftap_unsigned_surrogate_never_starts.
Check C13_graftap_pair.

Print Assumptions C13_graftap_bytes.
Print Assumptions C13_graftap_key_path.
Print Assumptions C13_graftap_wrong_commitment_never_starts.
Print Assumptions C13_graftap_signed_surrogate_runs.
Print Assumptions C13_graftap_unsigned_surrogate_never_starts.
Print Assumptions C13_graftap_pair.
Print Assumptions C13_graftap_example.
(* ---------- the builders as SOURCE (model/BuilderSources.v mirrors the f-string templates of tools.py token for token — 83 Examples
   against the real .src / .bytes; proofs/BuilderSourcesProofs.v: the template TEXT compiles, for all arguments, to the bytes of
   model/Builders.v that the theorems above are about; closed statements printed by Check) ---------- *)
Definition C13_src_single_sig_lock_compiles := @BuilderSourcesProofs.single_sig_lock_compiles.
Definition C13_src_single_sig_lock2_compiles := @BuilderSourcesProofs.single_sig_lock2_compiles.
Definition C13_src_single_sig_lock2_ct_compiles := @BuilderSourcesProofs.single_sig_lock2_ct_compiles.
Definition C13_src_multisig_lock_compiles := @BuilderSourcesProofs.multisig_lock_compiles.
Definition C13_src_scripthash_lock_compiles := @BuilderSourcesProofs.scripthash_lock_compiles.
Definition C13_src_scripthash_lock_ct_compiles := @BuilderSourcesProofs.scripthash_lock_ct_compiles.
Definition C13_src_graftap_committed_compiles := @BuilderSourcesProofs.graftap_committed_compiles.
Definition C13_src_single_sig_witness_compiles := @BuilderSourcesProofs.single_sig_witness_compiles.
Definition C13_src_single_sig_witness2_compiles := @BuilderSourcesProofs.single_sig_witness2_compiles.
Definition C13_src_scripthash_witness_compiles := @BuilderSourcesProofs.scripthash_witness_compiles.
Definition C13_src_any_layout := @BuilderSourcesProofs.any_layout.
Check C13_src_single_sig_lock_compiles.
Check C13_src_single_sig_lock2_compiles.
Check C13_src_single_sig_lock2_ct_compiles.
Print Assumptions C13_src_single_sig_lock_compiles.
Print Assumptions C13_src_single_sig_lock2_compiles.
Print Assumptions C13_src_single_sig_lock2_ct_compiles.
Print Assumptions C13_src_multisig_lock_compiles.
Print Assumptions C13_src_scripthash_lock_compiles.
Print Assumptions C13_src_scripthash_lock_ct_compiles.
Print Assumptions C13_src_graftap_committed_compiles.
Print Assumptions C13_src_single_sig_witness_compiles.
Print Assumptions C13_src_single_sig_witness2_compiles.
Print Assumptions C13_src_scripthash_witness_compiles.
Print Assumptions C13_src_any_layout.

Print Assumptions C13_single_sig_bytes.
Print Assumptions C13_single_sig2_bytes.
Print Assumptions C13_multisig_bytes.
Print Assumptions C13_single_sig_exact.
Print Assumptions C13_sig_accepts_meaning.
Print Assumptions C13_single_sig2_exact.
Print Assumptions C13_multisig_lock_exact.
Print Assumptions C13_real_chk_meaning.
Print Assumptions C13_room.
Print Assumptions C13_single_sig_instance.
Print Assumptions C13_single_sig2_instance.
Print Assumptions C13_multisig_instance.
