(* C10 — Integer and float encodings are exact inverses at every magnitude.
   Integer part: proved for every n : Z. [fl2] stands for Python's floor(math.log2(a)), a float
   computation; the only thing assumed about it (fl2_ok) is that it never under-estimates and
   over-estimates by at most one — checked against the platform's math.log2 on every run.
   Float part: see DESIGN.md (struct.pack/unpack are not modelled; exhaustive-by-exponent sweep). *)
From Coq Require Import ZArith List.
From Coq.Strings Require Import Byte.
From Flocq Require Import IEEE754.Binary IEEE754.Bits.
From TS Require Import Bytes Codec BytesLemmas CodecProofs FloatCodec FloatCodecProofs.
Import ListNotations.
Open Scope Z_scope.

Theorem C10_int_roundtrip :
  forall fl2, fl2_ok fl2 -> forall n : Z,
    exists b, int_to_bytes fl2 n = Some b /\ bytes_to_int b = Some n /\ b <> [] /\ (top_bit b = true <-> n < 0).
Proof. exact int_roundtrip. Qed.

Theorem C10_bytes_to_int_total :
  forall b, b <> [] ->
    exists z, bytes_to_int b = Some z /\ - 2 ^ (8 * blen b - 1) <= z < 2 ^ (8 * blen b - 1)
              /\ z mod 2 ^ (8 * blen b) = be_to_Z b.
Proof. exact bytes_to_int_total. Qed.

Theorem C10_decode_injective :
  forall a b, List.length a = List.length b -> bytes_to_int a = bytes_to_int b -> a <> [] -> a = b.
Proof. exact bytes_to_int_inj. Qed.

Theorem C10_exact_log2_is_ok : fl2_ok fl2_exact.
Proof. exact fl2_exact_ok. Qed.

(* non-vacuity: the hypotheses are met and the statement computes on concrete values *)
Example C10_example :
  int_to_bytes fl2_exact (-129) = Some [xff; x7f] /\ bytes_to_int [xff; x7f] = Some (-129)
  /\ int_to_bytes fl2_exact 128 = Some [x00; x80] /\ int_to_bytes fl2_exact (-128) = Some [x80].
Proof. vm_compute. repeat split; reflexivity. Qed.

(* ---------------- floats: IEEE-754 binary32 as formalised by Flocq (model/FloatCodec.v) ----------------
   float_to_bytes x = the 32 bits of x, big endian (struct.pack('!f')); bytes_to_float = struct.unpack('!f').
   These four theorems depend on the axioms of the standard library's real numbers and classical logic through Flocq
   (listed by Print Assumptions below and named in the trusted base); the integer theorems above depend on none. *)
Theorem C10_float_roundtrip : forall x : binary32, bytes_to_float (float_to_bytes x) = Some x.
Proof. exact float_roundtrip. Qed.

Theorem C10_float_bytes_roundtrip :
  forall b : bytes, List.length b = 4%nat -> exists x, bytes_to_float b = Some x /\ float_to_bytes x = b.
Proof. exact bytes_roundtrip. Qed.

Theorem C10_float_decoding_total_exactly_on_4_bytes :
  forall b : bytes, bytes_to_float b <> None <-> List.length b = 4%nat.
Proof. exact bytes_to_float_total. Qed.

Theorem C10_float_encoding_injective : forall x y : binary32, float_to_bytes x = float_to_bytes y -> x = y.
Proof. exact float_to_bytes_injective. Qed.

Print Assumptions C10_float_roundtrip.
Print Assumptions C10_float_bytes_roundtrip.
Print Assumptions C10_float_decoding_total_exactly_on_4_bytes.
Print Assumptions C10_float_encoding_injective.
Print Assumptions C10_int_roundtrip.
Print Assumptions C10_bytes_to_int_total.
Print Assumptions C10_decode_injective.
