(* The model's tables equal the tables generated from the live package. *)
From Coq Require Import ZArith String List Bool.
From TS Require Import Bytes State Ops Names Tables.
Import ListNotations.
Local Open Scope nat_scope.

Lemma opcode_names_match : map opcode_name all_opcodes = gen_opcode_names.
Proof. vm_compute. reflexivity. Qed.

Lemma opcode_count_match : List.length all_opcodes = gen_n_opcodes.
Proof. vm_compute. reflexivity. Qed.

(* every other byte value is a NOP code handled by NOP *)
Lemma nop_codes_match : gen_nop_codes = seq gen_n_opcodes (256 - gen_n_opcodes) /\ gen_nop_names_ok = true.
Proof. vm_compute. split; reflexivity. Qed.

Lemma dispatch_table :
  forall code, code < 256 ->
    (code < gen_n_opcodes -> exists o, opcode_of_nat code = Some o) /\
    (gen_n_opcodes <= code -> opcode_of_nat code = None).
Proof.
  intros code H. split; intro H1.
  - destruct (opcode_of_nat code) eqn:E; [eauto|].
    apply nth_error_None in E. rewrite opcode_count_match in E. exfalso.
    apply (Nat.lt_irrefl code). eapply Nat.lt_le_trans; eauto.
  - apply nth_error_None. rewrite opcode_count_match. exact H1.
Qed.

Definition default_config (now : Z) : config :=
  {| c_max_items := gen_max_items; c_max_item_size := gen_max_item_size; c_limit := gen_callstack_limit;
     c_flags := gen_default_flags; c_sigext := []; c_ctplugins := []; c_contracts := []; c_now := now |}.

(* facts about the defaults that theorems rely on *)
Lemma default_thresholds :
  flag_get gen_default_flags (FKStr (str "ts_threshold")) = Some (FVInt 60%Z) /\
  flag_get gen_default_flags (FKStr (str "epoch_threshold")) = Some (FVInt 60%Z).
Proof. vm_compute. split; reflexivity. Qed.

Lemma default_limits : gen_max_items = 1024 /\ gen_max_item_size = 1024 /\ gen_callstack_limit = 128%Z
  /\ gen_stack_default = (1024, 1024) /\ gen_tape_default_limit = 128%Z.
Proof. vm_compute. repeat split; reflexivity. Qed.
