(* Extraction of the executable model. Only ExtrOcamlBasic; no Extract Constant / Inductive of our own. *)
Require Extraction.
Require Import ExtrOcamlBasic.
From Coq Require Import ZArith List.
From Coq.Strings Require Import Byte.
From TS Require Import Bytes Codec State Prog Ops Names Interp Asm Registry.
Extraction Language OCaml.
Extraction "tsmodel.ml"
  Byte.of_N Byte.to_N
  bytes_to_int int_to_bytes uint_to_bytes to_bytes be_to_Z Z_to_be fl2_exact
  run_script run_auth_scripts run_tape init_state exn_name
  signed_be of_signed_be
  decode encode wf_prog decompile parse_listing tokens_of push_instr print
  rstep reg_init run_trace run_plugins_of run_contract_of.
