(* Extraction of the executable model. Only ExtrOcamlBasic; no Extract Constant / Inductive of our own. *)
Require Extraction.
Require Import ExtrOcamlBasic.
From Coq Require Import ZArith List.
From Coq.Strings Require Import Byte.
From TS Require Import Bytes Codec State Prog Ops Names Interp Asm Registry Builders SoftFork MerkleTree TreeBuilders AMHL Assembler Tokenizer FloatCodec.
Extraction Language OCaml.
Extraction "tsmodel.ml"
  Byte.of_N Byte.to_N
  bytes_to_int int_to_bytes uint_to_bytes to_bytes be_to_Z Z_to_be fl2_exact
  run_script run_auth_scripts run_tape init_state exn_name
  signed_be of_signed_be
  decode encode wf_prog decompile parse_listing tokens_of push_instr print
  run_script_fork run_auth_fork mt_check nonnative_taproot_lock delegate_key_chain_lock delegate_key_chain_witness
  amhl_all amhl_release_left amhl_verify_lock_key
  tb_prioritized tb_balanced
  assemble_r classify_bytes roundtrip_bytes get_symbols compile_text
  rstep reg_init run_trace run_plugins_of run_contract_of
  single_sig_lock single_sig_witness single_sig_lock2 single_sig_witness2 multisig_lock ts_after_lock ts_before_lock
  ts_between_lock scripthash_lock ptlc_lock htlc_sha256_lock htlc_shake256_lock htlc2_sha256_lock htlc2_shake256_lock
  delegate_key_lock delegate_key_witness graftroot_lock taproot_lock merkle_lock adapter_check_lock adapter_decrypt.
